// C++ side of `drv_conn`: a real muduo::net::TcpConnection on one end of a socketpair,
// driven step by step on the thread that owns the EventLoop; the harness is the raw peer
// and the owner (it does what TcpServer::removeConnectionInLoop does).
#include "interpose.h"
#include "common.h"
#include "loopstep.h"

#include "muduo/base/Logging.h"
#include "muduo/net/Channel.h"
#include "muduo/net/EventLoop.h"
#include "muduo/net/InetAddress.h"
#include "muduo/net/TcpConnection.h"

#include <functional>
#include <memory>
#include <thread>

using namespace muduo;
using namespace muduo::net;
using namespace vh;

static std::vector<std::string> g_out;   // lines of the current step
static void emitLine(const std::string& s) { g_out.push_back(s); }
static void flushStep() {
  for (size_t i = 0; i < g_out.size(); ++i) { fputs(g_out[i].c_str(), stdout); fputc('\n', stdout); }
  g_out.clear();
  fputs("--\n", stdout);
  fflush(stdout);
}

static EventLoop* g_loop;
static TcpConnectionPtr g_conn;              // the owner's reference (the server's map)
static std::weak_ptr<TcpConnection> g_weak;
static int g_sv[2] = {-1, -1};
static bool g_peerOpen = true, g_peerEof = false, g_destroyedSeen = false;
static std::string g_peerGot;
static std::string g_peerDelta;          // received since the last `st` line (oracle-only `# peer +<hex>`)
static const char* g_inHook = NULL;      // the callback whose scripted operation is being performed
static uint64_t g_peerHash = 14695981039346656037ULL;
static size_t g_peerLen = 0;
static size_t g_retrieveMax = static_cast<size_t>(1) << 40;
static size_t g_mark = 64 * 1024 * 1024;
static bool g_hasWC = true, g_hasHWM = true;
static int g_timerFd = -1;

struct Hook { std::string cb; std::vector<std::string> act; };
static std::vector<Hook> g_hooks;

static void drainPeer(int) {
  if (!g_peerOpen) return;
  char buf[65536];
  for (;;) {
    VI_REAL(ssize_t, read, int, void*, size_t);
    ssize_t n = real_read(g_sv[1], buf, sizeof buf);
    if (n > 0) {
      for (ssize_t i = 0; i < n; ++i) { g_peerHash ^= static_cast<unsigned char>(buf[i]); g_peerHash *= 1099511628211ULL; }
      g_peerLen += static_cast<size_t>(n);
      g_peerDelta.append(buf, static_cast<size_t>(n));
    } else if (n == 0) { g_peerEof = true; break; }
    else break;
  }
}

static void doAct(const std::vector<std::string>& w, size_t i);

static void runHook(const char* cb) {
  for (size_t i = 0; i < g_hooks.size(); ++i) {
    if (g_hooks[i].cb == cb) {
      Hook h = g_hooks[i];
      g_hooks.erase(g_hooks.begin() + static_cast<long>(i));
      g_inHook = cb;
      doAct(h.act, 0);
      g_inHook = NULL;
      return;
    }
  }
}

static void onConnection(const TcpConnectionPtr& c) {
  if (c->connected()) { emitLine("cb UP"); runHook("up"); }
  else { emitLine("cb DOWN"); runHook("down"); }
}
static void onMessage(const TcpConnectionPtr&, Buffer* b, Timestamp) {
  char line[96];
  snprintf(line, sizeof line, "cb MSG %zu %llu", b->readableBytes(), static_cast<unsigned long long>(fnv64(b->peek(), b->readableBytes())));
  emitLine(line);
  runHook("msg");
  b->retrieve(std::min(g_retrieveMax, b->readableBytes()));
}
// the user's write-complete / high-water-mark callbacks carry an identity (which std::function object this is):
// `setwc <id>` / `sethwm <id> <mark>` install callback <id> (0 = an empty std::function), the output says which one ran
// (a user callback dereferences its connection argument: an empty pointer there is a crash in a real program; the
// harness says so instead of crashing, so that the step is still reported)
static void onWriteComplete(int id, const TcpConnectionPtr& c) {
  char line[64]; snprintf(line, sizeof line, "cb WC %d", id); emitLine(line);
  if (!c) emitLine("uaf write-complete callback invoked with an empty TcpConnectionPtr");
  runHook("wc");
}
static void onHighWater(int id, const TcpConnectionPtr& c, size_t n) {
  char line[64]; snprintf(line, sizeof line, "cb HWM %d %zu", id, n); emitLine(line);
  if (!c) emitLine("uaf high-water-mark callback invoked with an empty TcpConnectionPtr");
  runHook("hwm");
}
static WriteCompleteCallback wcOf(int id) {
  return id ? WriteCompleteCallback(std::bind(&onWriteComplete, id, std::placeholders::_1)) : WriteCompleteCallback();
}
static HighWaterMarkCallback hwmOf(int id) {
  return id ? HighWaterMarkCallback(std::bind(&onHighWater, id, std::placeholders::_1, std::placeholders::_2)) : HighWaterMarkCallback();
}
static void onClose(const TcpConnectionPtr& c) {
  emitLine("cb CLOSE");
  // TcpServer::removeConnectionInLoop: erase from the map, queue connectDestroyed
  TcpConnectionPtr keep(c);
  g_conn.reset();
  g_loop->queueInLoop(std::bind(&TcpConnection::connectDestroyed, keep));
}

// an operation of the user, executed on the calling thread
static void doAct(const std::vector<std::string>& w, size_t i) {
  TcpConnectionPtr c = g_weak.lock();
  if (!c) return;
  const std::string& a = w[i];
  {
    // oracle-only: which operation, from where, and what connected() said when it was made
    std::string l = "# act ";
    l += g_inHook ? (std::string("hook:") + g_inHook) : (g_loop->isInLoopThread() ? "L" : "F");
    l += c->connected() ? " 1" : " 0";
    for (size_t k = i; k < w.size(); ++k) { l += " "; l += w[k]; }
    emitLine(l);
  }
  if (a == "send") {
    std::string d; parseBytes(w[i + 1], &d);
    std::string ovl = w.size() > i + 2 ? w[i + 2] : "piece";
    if (ovl == "ptr") c->send(d.data(), static_cast<int>(d.size()));
    else if (ovl == "buf") { Buffer b; b.append(d); c->send(&b); }
    else c->send(StringPiece(d));
  } else if (a == "shutdown") c->shutdown();
  else if (a == "forceClose") c->forceClose();
  else if (a == "forceCloseDelay") c->forceCloseWithDelay(static_cast<double>(atoll(w[i + 1].c_str())) / 1e6);
  else if (a == "stopRead") c->stopRead();
  else if (a == "startRead") c->startRead();
  // plain member assignments in muduo (not thread safe): the generator issues them from the loop thread / inside callbacks
  else if (a == "setwc") c->setWriteCompleteCallback(wcOf(atoi(w[i + 1].c_str())));
  else if (a == "sethwm") c->setHighWaterMarkCallback(hwmOf(atoi(w[i + 1].c_str())), strtoull(w[i + 2].c_str(), NULL, 10));
}

static void recordPoll(const std::vector<std::pair<int, int> >& v) {
  std::string line = "< poll";
  for (size_t i = 0; i < v.size(); ++i) {
    char buf[48];
    if (v[i].first == g_sv[0]) { snprintf(buf, sizeof buf, " conn:%d", v[i].second); line += buf; }
    else if (vi::timerfds().count(v[i].first)) line += " timer";
  }
  emitLine(line);
}
static int ptrToFd(void* p) { return static_cast<Channel*>(p)->fd(); }

static void dropLog(const char*, int) {}

extern "C" void __assert_fail(const char* assertion, const char* file, unsigned int line, const char* function) __THROW {
  (void)file; (void)line; (void)function;
  emitLine(std::string("abort ") + assertion);
  flushStep();
  _exit(0);
}

static void stLine() {
  drainPeer(0);
  if (!g_peerDelta.empty()) {
    static const char* hx = "0123456789abcdef";
    std::string l = "# peer +";
    for (size_t i = 0; i < g_peerDelta.size(); ++i) { unsigned char ch = static_cast<unsigned char>(g_peerDelta[i]); l += hx[ch >> 4]; l += hx[ch & 15]; }
    emitLine(l);
    g_peerDelta.clear();
  }
  {
    char it[64]; snprintf(it, sizeof it, "# it %lld", static_cast<long long>(g_loop->iteration())); emitLine(it);
  }
  TcpConnectionPtr c = g_weak.lock();
  if (!c && !g_destroyedSeen) { g_destroyedSeen = true; emitLine("destroyed"); }
  char line[256];
  if (c) {
    snprintf(line, sizeof line, "st state=%s backlog=%zu inbuf=%zu", c->connected() ? "C" : (c->disconnected() ? "D" : "X"),
             c->outputBuffer()->readableBytes(), c->inputBuffer()->readableBytes());
  } else {
    snprintf(line, sizeof line, "st state=gone backlog=0 inbuf=0");
  }
  std::string s = line;
  if (g_peerOpen) {
    snprintf(line, sizeof line, " peer_got=%zu:%llu fin=%s", g_peerLen, static_cast<unsigned long long>(g_peerHash), !c ? "-" : (g_peerEof ? "1" : "0"));
    s += line;
  } else s += " peer_got=closed fin=-";
  emitLine(s);
}

static bool g_pendingIter = false;

// executes the input operations up to and including the next `iter`; called on the loop
// thread before every poll (harness/loopstep.h)
static bool interp() {
  EventLoop& loop = *g_loop;
  (void)loop;
  if (g_pendingIter) { stLine(); flushStep(); g_pendingIter = false; }
  std::string line;
  while (std::getline(std::cin, line)) {
    std::vector<std::string> w = words(line);
    if (w.empty()) continue;
    const std::string& op = w[0];
    if (op == "config") {
      // config <wc:0|1> <hwm:0|1> <mark>
      g_hasWC = w[1] == "1"; g_hasHWM = w[2] == "1"; g_mark = strtoull(w[3].c_str(), NULL, 10);
      if (g_conn) {
        g_conn->setWriteCompleteCallback(wcOf(g_hasWC ? 1 : 0));
        g_conn->setHighWaterMarkCallback(hwmOf(g_hasHWM ? 1 : 0), g_mark);
      }
    } else if (op == "establish") {
      if (g_conn) g_conn->connectEstablished();
    } else if (op == "act") {
      if (w[1] == "F") { std::thread t(doAct, w, 2); t.join(); }
      else doAct(w, 2);
    } else if (op == "hook") {
      Hook h; h.cb = w[1]; h.act.assign(w.begin() + 2, w.end());
      g_hooks.push_back(h);
    } else if (op == "setRetrieve") {
      g_retrieveMax = strtoull(w[1].c_str(), NULL, 10);
    } else if (op == "peerWrite") {
      std::string d; parseBytes(w[1], &d);
      if (g_peerOpen) {
        VI_REAL(ssize_t, write, int, const void*, size_t);
        size_t off = 0;
        while (off < d.size()) {
          ssize_t k = real_write(g_sv[1], d.data() + off, d.size() - off);
          if (k <= 0) break;
          off += static_cast<size_t>(k);
        }
        char buf[64]; snprintf(buf, sizeof buf, "< peerWrote %zu", off); emitLine(buf);
      } else emitLine("< peerWrote 0");
    } else if (op == "peerShutWr") {
      VI_REAL(int, shutdown, int, int);
      if (g_peerOpen) real_shutdown(g_sv[1], SHUT_WR);
    } else if (op == "peerClose") {
      if (g_peerOpen) { drainPeer(0); VI_REAL(int, close, int); real_close(g_sv[1]); g_peerOpen = false; }
    } else if (op == "script" && w.size() > 1 && w[1] == "poll") {
      // script poll EINTR…: the next poll/epoll_wait calls are interrupted (C11)
      for (size_t i = 2; i < w.size(); ++i) if (w[i] == "EINTR") ++vi::pollEintr();
    } else if (op == "script") {
      if (vi::scripts().count(g_sv[0]) == 0) { stLine(); flushStep(); continue; }
      std::deque<vi::Res>& q = (w[1] == "write") ? vi::scripts()[g_sv[0]].writes : vi::scripts()[g_sv[0]].readvs;
      for (size_t i = 2; i < w.size(); ++i) {
        if (w[i] == "full") q.push_back(vi::Res(vi::Res::FULL, 0));
        else if (w[i][0] == 'E') q.push_back(vi::Res(vi::Res::ERR, vi::errnoValue(w[i])));
        else q.push_back(vi::Res(vi::Res::COUNT, atol(w[i].c_str())));
      }
    } else if (op == "ownerDestroy") {
      // TcpServer::~TcpServer for this connection (on the loop thread)
      if (g_conn) {
        TcpConnectionPtr conn(g_conn);
        g_conn.reset();
        conn->getLoop()->runInLoop(std::bind(&TcpConnection::connectDestroyed, conn));
      }
    } else if (op == "advance") {
      vi::advance(atoll(w[1].c_str()));
    } else if (op == "iter") {
      g_pendingIter = true;
      return true;
    } else {
      emitLine("bad-op");
    }
    stLine();
    flushStep();
  }
  // end of input: leave without running destructors (a connection that is still up would
  // assert in ~TcpConnection)
  fflush(stdout);
  _exit(0);
}

int main(int argc, char** argv) {
  bool usePoll = argc > 1 && std::string(argv[1]) == "poll";
  if (usePoll) setenv("MUDUO_USE_POLL", "1", 1); else unsetenv("MUDUO_USE_POLL");
  Logger::setLogLevel(Logger::FATAL);   // nothing is decided by log output
  Logger::setOutput(dropLog);
  vi::clock().virt = true;
  vi::emit() = emitLine;
  vi::pollRecorder() = recordPoll;
  vi::ptrToFd() = ptrToFd;
  EventLoop loop;
  g_loop = &loop;
  if (socketpair(AF_UNIX, SOCK_STREAM | SOCK_NONBLOCK | SOCK_CLOEXEC, 0, g_sv) != 0) { perror("socketpair"); return 2; }
  vi::scripts()[g_sv[0]].drainPeer = drainPeer;
  InetAddress a(1), b(2);
  g_conn.reset(new TcpConnection(&loop, "conn", g_sv[0], a, b));
  g_weak = g_conn;
  g_conn->setConnectionCallback(onConnection);
  g_conn->setMessageCallback(onMessage);
  g_conn->setCloseCallback(onClose);

  vs::run(&loop, interp);
  // leave without running destructors: a connection that is still up would assert in ~TcpConnection
  fflush(stdout);
  _exit(0);
}
