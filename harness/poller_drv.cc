// C++ side of `drv_poller` (C09): a real muduo::net::EventLoop with the back-end selected by argv[1]
// (epoll | poll) and N real Channels over pipes / socketpairs, stepped one iteration per `iter` line from
// inside loop() (loopstep.h).  poll / epoll_wait / epoll_ctl / eventfd / timerfd_create are interposed at
// link level in this translation unit: what the kernel is asked to watch, every epoll_ctl with its
// result, the time-out argument and what the kernel reported are recorded, never scripted.
//
//   chan <i> <pipe|pipew|sock>      channel i on the read end of a pipe / the write end / one end of a socketpair
//   op <i> <enableR|disableR|enableW|disableW|disableAll|remove|recreate> [in <j> <read|write|close|error>]
//   peer <i> <write n|consume|fill|drain|shutWr|close|reset>
//   iter
#include "common.h"
#include "loopstep.h"

#include "muduo/base/Logging.h"
#include "muduo/net/Channel.h"
#include "muduo/net/EventLoop.h"

#include <dlfcn.h>
#include <errno.h>
#include <fcntl.h>
#include <poll.h>
#include <signal.h>
#include <sys/epoll.h>
#include <sys/eventfd.h>
#include <sys/socket.h>
#include <sys/timerfd.h>
#include <unistd.h>

#include <algorithm>
#include <functional>
#include <map>
#include <memory>
#include <set>

using namespace muduo;
using namespace muduo::net;
using namespace vh;

template <typename F> static F realFn(const char* name) {
  void* p = dlsym(RTLD_NEXT, name);
  if (!p) { fprintf(stderr, "no real %s\n", name); _exit(3); }
  return reinterpret_cast<F>(p);
}

static std::vector<std::string> g_out;
static bool g_silent = true;   // during construction / after the end of input nothing is recorded
static void emitLine(const std::string& s) { if (!g_silent) g_out.push_back(s); }
static void flushStep() {
  for (size_t i = 0; i < g_out.size(); ++i) { fputs(g_out[i].c_str(), stdout); fputc('\n', stdout); }
  g_out.clear();
  fputs("--\n", stdout);
  fflush(stdout);
}

struct Ch {
  int fd, peer;
  std::string kind;
  std::unique_ptr<Channel> ch;
  bool registered;
  Ch() : fd(-1), peer(-1), registered(false) {}
};
static EventLoop* g_loop;
static std::map<int, Ch> g_ch;            // channel number -> channel
static std::map<int, int> g_fdToNum;      // descriptor -> model id (0 timer, 1 wake, user i -> i + 2)
static int g_wakeFd = -1, g_timerFd = -1;
static int g_wakeWrites = 0;
static std::map<int, int> g_kernel;       // shadow of the epoll interest list (successful epoll_ctl calls)
static std::map<int, int> g_lastRev;      // model id -> revents of the current iteration
static bool g_handling = false;
static int g_cur = -1;
static bool g_iterOpen = false;

struct Hook { int j; std::string kind; int i; std::string what; };
static std::vector<Hook> g_hooks;

static std::string nm(int id) {
  if (id == 0) return "t";
  if (id == 1) return "w";
  char b[24]; snprintf(b, sizeof b, "%d", id - 2); return b;
}
static int idOfFd(int fd) {
  std::map<int, int>::iterator it = g_fdToNum.find(fd);
  return it == g_fdToNum.end() ? -1 : it->second;
}
static std::string nameOfFd(int fd) {
  int id = idOfFd(fd);
  if (id >= 0) return nm(id);
  char b[32]; snprintf(b, sizeof b, "fd%d", fd); return b;
}

// ----------------------------------------------------------------------------- interposition
extern "C" {

int eventfd(unsigned int initval, int flags) __THROW {
  typedef int (*fn)(unsigned int, int);
  static fn real = realFn<fn>("eventfd");
  int fd = real(initval, flags);
  if (g_wakeFd < 0) { g_wakeFd = fd; g_fdToNum[fd] = 1; }
  return fd;
}

int timerfd_create(int clockid, int flags) __THROW {
  typedef int (*fn)(int, int);
  static fn real = realFn<fn>("timerfd_create");
  int fd = real(clockid, flags);
  if (g_timerFd < 0) { g_timerFd = fd; g_fdToNum[fd] = 0; }
  return fd;
}

ssize_t write(int fd, const void* buf, size_t count) {
  typedef ssize_t (*fn)(int, const void*, size_t);
  static fn real = realFn<fn>("write");
  if (fd == g_wakeFd && fd >= 0) ++g_wakeWrites;
  return real(fd, buf, count);
}

int epoll_ctl(int epfd, int op, int fd, struct epoll_event* event) __THROW {
  typedef int (*fn)(int, int, int, struct epoll_event*);
  static fn real = realFn<fn>("epoll_ctl");
  int mask = event ? static_cast<int>(event->events) : 0;
  int rc = real(epfd, op, fd, event);
  int err = errno;
  const char* opn = op == EPOLL_CTL_ADD ? "ADD" : op == EPOLL_CTL_DEL ? "DEL" : op == EPOLL_CTL_MOD ? "MOD" : "?";
  char res[24];
  if (rc == 0) {
    snprintf(res, sizeof res, "ok");
    if (op == EPOLL_CTL_DEL) g_kernel.erase(fd); else g_kernel[fd] = mask;
  } else if (err == EEXIST) snprintf(res, sizeof res, "EEXIST");
  else if (err == ENOENT) snprintf(res, sizeof res, "ENOENT");
  else snprintf(res, sizeof res, "E%d", err);
  char line[128];
  snprintf(line, sizeof line, "ctl %s %s %d %s", opn, nameOfFd(fd).c_str(), mask, res);
  emitLine(line);
  errno = err;
  return rc;
}

static void beginIteration(const std::string& watch, unsigned long size, int timeout) {
  emitLine(watch);
  char line[96];
  snprintf(line, sizeof line, "wait %lu %d", size, timeout);
  emitLine(line);
  snprintf(line, sizeof line, "# wakes=%d", g_wakeWrites);
  emitLine(line);
  g_wakeWrites = 0;
  g_lastRev.clear();
}

int epoll_wait(int epfd, struct epoll_event* events, int maxevents, int timeout) {
  typedef int (*fn)(int, struct epoll_event*, int, int);
  static fn real = realFn<fn>("epoll_wait");
  if (g_silent) return real(epfd, events, maxevents, timeout);
  std::vector<std::pair<int, int> > w;   // (model id, mask)
  for (std::map<int, int>::iterator it = g_kernel.begin(); it != g_kernel.end(); ++it)
    w.push_back(std::make_pair(idOfFd(it->first), it->second));
  std::sort(w.begin(), w.end());
  std::string watch = "watch";
  for (size_t i = 0; i < w.size(); ++i) { char b[48]; snprintf(b, sizeof b, " %s:%d", nm(w[i].first).c_str(), w[i].second); watch += b; }
  beginIteration(watch, static_cast<unsigned long>(maxevents), timeout);
  int n = real(epfd, events, maxevents, timeout > 1000 ? 1000 : timeout);
  int err = errno;
  char b[64];
  snprintf(b, sizeof b, "< poll %d", n < 0 ? 0 : n);
  std::string line = b;
  for (int i = 0; i < n; ++i) {
    int id = idOfFd(static_cast<Channel*>(events[i].data.ptr)->fd());
    snprintf(b, sizeof b, " %s:%u", nm(id).c_str(), static_cast<unsigned>(events[i].events));
    line += b;
    g_lastRev[id] = static_cast<int>(events[i].events);
  }
  emitLine(line);
  errno = err;
  return n;
}

int poll(struct pollfd* fds, nfds_t nfds, int timeout) {
  typedef int (*fn)(struct pollfd*, nfds_t, int);
  static fn real = realFn<fn>("poll");
  if (g_silent) return real(fds, nfds, timeout);
  std::string watch = "watch";
  for (nfds_t i = 0; i < nfds; ++i) {
    char b[48];
    if (fds[i].fd < 0) snprintf(b, sizeof b, " ~%s:%d", nameOfFd(-fds[i].fd - 1).c_str(), static_cast<int>(fds[i].events));
    else snprintf(b, sizeof b, " %s:%d", nameOfFd(fds[i].fd).c_str(), static_cast<int>(fds[i].events));
    watch += b;
  }
  beginIteration(watch, static_cast<unsigned long>(nfds), timeout);
  int n = real(fds, nfds, timeout > 1000 ? 1000 : timeout);
  int err = errno;
  char b[64];
  snprintf(b, sizeof b, "< poll %d", n < 0 ? 0 : n);
  std::string line = b;
  for (nfds_t i = 0; n > 0 && i < nfds; ++i) {
    if (fds[i].revents != 0) {
      int id = idOfFd(fds[i].fd);
      snprintf(b, sizeof b, " %s:%d", nm(id).c_str(), static_cast<int>(fds[i].revents));
      line += b;
      g_lastRev[id] = fds[i].revents;
    }
  }
  emitLine(line);
  errno = err;
  return n;
}

void __assert_fail(const char* assertion, const char* file, unsigned int line, const char* function) __THROW {
  (void)function;
  char b[512];
  snprintf(b, sizeof b, "# %s:%u %s", file, line, assertion);
  emitLine(b);
  emitLine("abort");
  flushStep();
  _exit(0);
}

}  // extern "C"

static void onSignal(int sig) {
  emitLine(sig == SIGABRT ? "# SIGABRT" : "crash");
  flushStep();
  _exit(0);
}

static void logOutput(const char* msg, int len) {
  std::string s(msg, static_cast<size_t>(len));
  if (s.find("epoll_ctl op") != std::string::npos)
    emitLine(s.find("FATAL") != std::string::npos ? "fatal" : "syserr");
}

// ----------------------------------------------------------------------------- operations
static void doOp(int i, const std::string& what);

static void onCb(int i, const char* kind) {
  Ch& c = g_ch[i];
  char line[96];
  std::map<int, int>::iterator r = g_lastRev.find(i + 2);
  snprintf(line, sizeof line, "cb %d %s rev=%d ev=%d", i, kind, r == g_lastRev.end() ? 0 : r->second, c.ch->events());
  emitLine(line);
  bool savedH = g_handling; int savedC = g_cur;
  g_handling = true; g_cur = i;
  std::vector<Hook> mine, rest;
  for (size_t k = 0; k < g_hooks.size(); ++k) (g_hooks[k].j == i && g_hooks[k].kind == kind ? mine : rest).push_back(g_hooks[k]);
  g_hooks.swap(rest);
  for (size_t k = 0; k < mine.size(); ++k) doOp(mine[k].i, mine[k].what);
  g_handling = savedH; g_cur = savedC;
}

static void makeChannel(int i) {
  Ch& c = g_ch[i];
  c.ch.reset(new Channel(g_loop, c.fd));
  c.ch->setReadCallback(std::bind(onCb, i, "read"));
  c.ch->setWriteCallback(std::bind(onCb, i, "write"));
  c.ch->setCloseCallback(std::bind(onCb, i, "close"));
  c.ch->setErrorCallback(std::bind(onCb, i, "error"));
  c.ch->doNotLogHup();
}

static void doOp(int i, const std::string& what) {
  Ch& c = g_ch[i];
  Channel* ch = c.ch.get();
  bool ok = true;
  if (what == "remove") {
    // documented preconditions of Channel::remove / EventLoop::removeChannel
    ok = c.registered && ch->isNoneEvent() && (!g_handling || g_cur == i || g_lastRev.count(i + 2) == 0);
    if (ok) { c.registered = false; ch->remove(); }
  } else if (what == "recreate") {
    ok = !c.registered && !g_handling;
    if (ok) { makeChannel(i); ch = c.ch.get(); }
  } else {
    c.registered = true;
    if (what == "enableR") ch->enableReading();
    else if (what == "disableR") ch->disableReading();
    else if (what == "enableW") ch->enableWriting();
    else if (what == "disableW") ch->disableWriting();
    else if (what == "disableAll") ch->disableAll();
    else { emitLine("bad-op"); return; }
  }
  char line[128];
  if (ok) snprintf(line, sizeof line, "op %d %s ev=%d idx=%d", i, what.c_str(), ch->events(), ch->index());
  else snprintf(line, sizeof line, "reject %d %s", i, what.c_str());
  emitLine(line);
}

static void readAll(int fd) {
  char buf[65536];
  for (;;) { ssize_t n = read(fd, buf, sizeof buf); if (n <= 0) break; }
}
static void fillUp(int fd) {
  char buf[65536]; memset(buf, 'x', sizeof buf);
  typedef ssize_t (*fn)(int, const void*, size_t);
  static fn real = realFn<fn>("write");
  for (;;) { ssize_t n = real(fd, buf, sizeof buf); if (n <= 0) break; }
}

static void doPeer(int i, const std::vector<std::string>& w) {
  Ch& c = g_ch[i];
  const std::string& a = w[2];
  bool peerOpen = c.peer >= 0;
  if (a == "write") {
    size_t n = w.size() > 3 ? strtoul(w[3].c_str(), NULL, 10) : 1;
    if (peerOpen && c.kind != "pipew") { std::string d(n, 'y'); ssize_t r = ::send(c.peer, d.data(), d.size(), MSG_NOSIGNAL); if (r < 0 && errno == ENOTSOCK) { r = ::write(c.peer, d.data(), d.size()); } (void)r; }
  } else if (a == "consume") {
    if (c.kind != "pipew") readAll(c.fd);
  } else if (a == "fill") {
    if (c.kind != "pipe") fillUp(c.fd);
  } else if (a == "drain") {
    if (peerOpen && c.kind != "pipe") readAll(c.peer);
  } else if (a == "shutWr") {
    if (peerOpen && c.kind == "sock") shutdown(c.peer, SHUT_WR);
  } else if (a == "close") {
    if (peerOpen) { close(c.peer); c.peer = -1; }
  } else if (a == "reset") {
    if (peerOpen && c.kind == "sock") { char x = 'z'; ssize_t r = ::send(c.fd, &x, 1, MSG_NOSIGNAL); (void)r; close(c.peer); c.peer = -1; }
    else if (peerOpen) { close(c.peer); c.peer = -1; }
  } else emitLine("bad-op");
}

static void endIteration() {
  char line[64];
  snprintf(line, sizeof line, "st iteration=%lld", static_cast<long long>(g_loop->iteration()));
  emitLine(line);
  std::string idx = "idx";
  // internal channels are not reachable from here; their slots are tied through the `watch` line
  for (std::map<int, Ch>::iterator it = g_ch.begin(); it != g_ch.end(); ++it) {
    char b[48]; snprintf(b, sizeof b, " %d:%d", it->first, it->second.ch->index()); idx += b;
  }
  emitLine(idx);
  flushStep();
}

// executes input lines up to and including the next `iter`; false at end of input
static bool interp() {
  if (g_iterOpen) { g_iterOpen = false; endIteration(); }
  std::string line;
  while (std::getline(std::cin, line)) {
    std::vector<std::string> w = words(line);
    if (w.empty()) continue;
    const std::string& op = w[0];
    if (op == "iter") { g_iterOpen = true; return true; }
    if (op == "chan" && w.size() == 3) {
      int i = atoi(w[1].c_str());
      if (g_ch.count(i)) emitLine("reject");
      else {
        int p[2] = {-1, -1};
        Ch& c = g_ch[i];
        c.kind = w[2];
        if (w[2] == "sock") { if (socketpair(AF_UNIX, SOCK_STREAM | SOCK_NONBLOCK | SOCK_CLOEXEC, 0, p) != 0) { perror("socketpair"); _exit(2); } c.fd = p[0]; c.peer = p[1]; }
        else { if (pipe2(p, O_NONBLOCK | O_CLOEXEC) != 0) { perror("pipe2"); _exit(2); } if (w[2] == "pipew") { c.fd = p[1]; c.peer = p[0]; } else { c.fd = p[0]; c.peer = p[1]; } }
        g_fdToNum[c.fd] = i + 2;
        makeChannel(i);
        char b[32]; snprintf(b, sizeof b, "chan %d", i); emitLine(b);
      }
    } else if (op == "op" && (w.size() == 3 || w.size() == 6)) {
      int i = atoi(w[1].c_str());
      if (!g_ch.count(i)) emitLine("bad-op");
      else if (w.size() == 6) {
        int j = atoi(w[4].c_str());
        if (!g_ch.count(j)) emitLine("bad-op");
        else { Hook h; h.j = j; h.kind = w[5]; h.i = i; h.what = w[2]; g_hooks.push_back(h); emitLine("hook"); }
      } else doOp(i, w[2]);
    } else if (op == "peer" && w.size() >= 3) {
      int i = atoi(w[1].c_str());
      if (g_ch.count(i)) doPeer(i, w); else emitLine("bad-op");
    } else emitLine("bad-op");
    flushStep();
  }
  g_silent = true;
  return false;
}

int main(int argc, char** argv) {
  bool usePoll = argc > 1 && std::string(argv[1]) == "poll";
  if (usePoll) setenv("MUDUO_USE_POLL", "1", 1); else unsetenv("MUDUO_USE_POLL");
  Logger::setLogLevel(Logger::ERROR);
  Logger::setOutput(logOutput);
  signal(SIGPIPE, SIG_IGN);
  signal(SIGABRT, onSignal);
#if !defined(__SANITIZE_ADDRESS__)
  signal(SIGSEGV, onSignal);
#endif
  {
    EventLoop loop;
    g_loop = &loop;
    g_out.clear();
    g_silent = false;
    vs::run(&loop, interp);
    g_silent = true;
    fflush(stdout);
    // leave without running destructors (registered channels would assert in ~Channel)
    _exit(0);
  }
}
