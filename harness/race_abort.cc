// C08, second half: "operations confined to the loop thread abort the process when invoked from
// another thread instead of proceeding".
//
//   race_abort <Class::op> foreign|owner
//
// The main thread owns the EventLoop and builds a fixture in which the operation is legitimate.
//   foreign: a second thread calls the operation.  Expected: the process dies with SIGABRT and the
//            FATAL line of EventLoop::abortNotInLoopThread is on stdout.  If the call returns the
//            program prints `RETURNED <op>` and exits 0 - that is the failure the check reports.
//   owner:   the main thread calls it (control: the fixture is valid, the abort in `foreign` is due
//            to the thread and to nothing else).  Expected: `RETURNED <op>`, exit 0.
//   list:    prints the operations this program knows, one per line.
//
// Built with -fno-access-control (harness TU only): most of these operations are private.
#include "muduo/base/Logging.h"
#include "muduo/base/Thread.h"
#include "muduo/net/Acceptor.h"
#include "muduo/net/Channel.h"
#include "muduo/net/Connector.h"
#include "muduo/net/EventLoop.h"
#include "muduo/net/EventLoopThreadPool.h"
#include "muduo/net/InetAddress.h"
#include "muduo/net/SocketsOps.h"
#include "muduo/net/TcpClient.h"
#include "muduo/net/TcpConnection.h"
#include "muduo/net/TcpServer.h"
#include "muduo/net/Timer.h"
#include "muduo/net/TimerId.h"
#include "muduo/net/TimerQueue.h"

#include <functional>
#include <map>
#include <memory>
#include <string>
#include <thread>

#include <stdio.h>
#include <string.h>
#include <sys/eventfd.h>
#include <sys/socket.h>
#include <unistd.h>

using namespace muduo;
using namespace muduo::net;

typedef std::function<void()> Op;

static void nopConn(const TcpConnectionPtr&) {}
static void nopMsg(const TcpConnectionPtr&, Buffer* b, Timestamp) { b->retrieveAll(); }
static void nop() {}

struct Fixture {
  EventLoop loop;                 // owned by the main thread
  int sv[2];
  int sv2[2];
  int efd;
  std::unique_ptr<Channel> chan;
  TcpConnectionPtr fresh;         // constructed, not yet established
  TcpConnectionPtr conn;          // established on the owner thread
  std::unique_ptr<TcpServer> server;
  std::unique_ptr<TcpClient> client;
  std::shared_ptr<Connector> connector;
  std::unique_ptr<TimerQueue> tq;
  std::unique_ptr<EventLoopThreadPool> pool;      // not started
  std::unique_ptr<EventLoopThreadPool> poolUp;    // started (0 threads) on the owner
  std::unique_ptr<Acceptor> acceptor;

  Fixture() {
    if (socketpair(AF_UNIX, SOCK_STREAM | SOCK_NONBLOCK | SOCK_CLOEXEC, 0, sv) != 0 ||
        socketpair(AF_UNIX, SOCK_STREAM | SOCK_NONBLOCK | SOCK_CLOEXEC, 0, sv2) != 0) { perror("socketpair"); _exit(2); }
    efd = ::eventfd(0, EFD_NONBLOCK | EFD_CLOEXEC);
    chan.reset(new Channel(&loop, efd));
    chan->setReadCallback(std::bind(nop));
    InetAddress a(1), b(2);
    fresh.reset(new TcpConnection(&loop, "fresh", sv2[0], a, b));
    fresh->setConnectionCallback(nopConn);
    fresh->setMessageCallback(nopMsg);
    fresh->setCloseCallback(nopConn);
    conn.reset(new TcpConnection(&loop, "conn", sv[0], a, b));
    conn->setConnectionCallback(nopConn);
    conn->setMessageCallback(nopMsg);
    conn->setCloseCallback(nopConn);
    conn->connectEstablished();
    if (::write(sv[1], "x", 1) != 1) { perror("write"); _exit(2); }
    server.reset(new TcpServer(&loop, InetAddress(0, true), "srv"));
    client.reset(new TcpClient(&loop, InetAddress(1, true), "cli"));
    connector.reset(new Connector(&loop, InetAddress(1, true)));
    tq.reset(new TimerQueue(&loop));
    pool.reset(new EventLoopThreadPool(&loop, "pool"));
    poolUp.reset(new EventLoopThreadPool(&loop, "poolUp"));
    poolUp->start();
    acceptor.reset(new Acceptor(&loop, InetAddress(0, true), false));
  }
};

static Fixture* F;

static int dupOfPair() {
  int p[2];
  if (socketpair(AF_UNIX, SOCK_STREAM | SOCK_NONBLOCK | SOCK_CLOEXEC, 0, p) != 0) { perror("socketpair"); _exit(2); }
  return p[0];   // the other end stays open (leaked on purpose)
}

static std::map<std::string, Op>& ops() {
  static std::map<std::string, Op> m;
  if (!m.empty()) return m;
  // --- EventLoop
  m["EventLoop::loop"] = [] { F->loop.queueInLoop(std::bind(&EventLoop::quit, &F->loop)); F->loop.loop(); };
  m["EventLoop::updateChannel"] = [] { F->chan->events_ |= Channel::kReadEvent; F->loop.updateChannel(F->chan.get()); };
  m["EventLoop::removeChannel"] = [] { F->loop.removeChannel(F->chan.get()); };
  m["EventLoop::hasChannel"] = [] { F->loop.hasChannel(F->chan.get()); };
  // the way user code reaches update/removeChannel
  m["Channel::enableReading"] = [] { F->chan->enableReading(); };
  m["Channel::remove"] = [] { F->chan->remove(); };
  // --- TcpConnection
  m["TcpConnection::connectEstablished"] = [] { F->fresh->connectEstablished(); };
  m["TcpConnection::connectDestroyed"] = [] { F->conn->connectDestroyed(); };
  m["TcpConnection::sendInLoop(const muduo::StringPiece &)"] = [] { F->conn->sendInLoop(StringPiece("hello")); };
  m["TcpConnection::sendInLoop(const void *, size_t)"] = [] { F->conn->sendInLoop("hello", 5); };
  m["TcpConnection::shutdownInLoop"] = [] { F->conn->shutdownInLoop(); };
  m["TcpConnection::forceCloseInLoop"] = [] { F->conn->forceCloseInLoop(); };
  m["TcpConnection::startReadInLoop"] = [] { F->conn->startReadInLoop(); };
  m["TcpConnection::stopReadInLoop"] = [] { F->conn->stopReadInLoop(); };
  m["TcpConnection::handleRead"] = [] { F->conn->handleRead(Timestamp::now()); };
  m["TcpConnection::handleWrite"] = [] { F->conn->handleWrite(); };
  m["TcpConnection::handleClose"] = [] { F->conn->handleClose(); };
  // --- TcpServer
  m["TcpServer::newConnection"] = [] { F->server->newConnection(dupOfPair(), InetAddress(3)); };
  m["TcpServer::removeConnectionInLoop"] = [] { TcpConnectionPtr c(F->server->connections_.begin()->second); F->server->removeConnectionInLoop(c); };
  // first start() of a server: reaches EventLoopThreadPool::start (confined) on the calling thread
  m["TcpServer::start(first call)"] = [] { F->server->start(); };
  // --- TcpClient / Connector
  m["TcpClient::newConnection"] = [] { F->client->newConnection(dupOfPair()); };
  m["TcpClient::removeConnection"] = [] { F->client->removeConnection(F->client->connection()); };
  m["Connector::startCycleInLoop"] = [] { F->connector->startCycleInLoop(); };
  m["Connector::startInLoop"] = [] { F->connector->startInLoop(); };
  m["Connector::stopInLoop"] = [] { F->connector->stopInLoop(); };
  m["Connector::restart"] = [] { F->connector->restart(); };
  // --- TimerQueue
  m["TimerQueue::addTimerInLoop"] = [] { F->tq->addTimerInLoop(new Timer(std::bind(nop), addTime(Timestamp::now(), 100.0), 0.0)); };
  m["TimerQueue::cancelInLoop"] = [] { F->tq->cancelInLoop(TimerId()); };
  m["TimerQueue::handleRead"] = [] { F->tq->handleRead(); };
  // --- EventLoopThreadPool
  m["EventLoopThreadPool::start"] = [] { F->pool->start(); };
  m["EventLoopThreadPool::getNextLoop"] = [] { F->poolUp->getNextLoop(); };
  m["EventLoopThreadPool::getLoopForHash"] = [] { F->poolUp->getLoopForHash(7); };
  m["EventLoopThreadPool::getAllLoops"] = [] { F->poolUp->getAllLoops(); };
  // --- Acceptor
  m["Acceptor::listen"] = [] { F->acceptor->listen(); };
  m["Acceptor::handleRead"] = [] { F->acceptor->handleRead(); };
  return m;
}

// fixture steps that must happen on the owner thread before the operation under test
static void prepare(const std::string& op) {
  if (op == "EventLoop::removeChannel" || op == "Channel::remove") {
    F->chan->enableReading();
    F->chan->disableAll();          // Channel::remove() asserts isNoneEvent()
  }
  if (op == "EventLoop::hasChannel") F->chan->enableReading();
  if (op == "TcpServer::newConnection" || op == "TcpServer::removeConnectionInLoop") F->server->start();
  if (op == "TcpServer::removeConnectionInLoop") F->server->newConnection(dupOfPair(), InetAddress(3));
  if (op == "TcpClient::removeConnection") F->client->newConnection(dupOfPair());
  if (op == "Acceptor::handleRead") F->acceptor->listen();   // accept() on a socket that does not listen is FATAL
  if (op == "Connector::startCycleInLoop" || op == "Connector::startInLoop") F->connector->connect_ = false;
}

int main(int argc, char** argv) {
  setvbuf(stdout, NULL, _IOLBF, 0);
  if (argc >= 2 && strcmp(argv[1], "list") == 0) {
    F = NULL;   // no fixture needed: the lambdas are only named, not called
    std::map<std::string, Op>& m = ops();
    for (std::map<std::string, Op>::iterator it = m.begin(); it != m.end(); ++it) printf("%s\n", it->first.c_str());
    return 0;
  }
  if (argc < 3) { fprintf(stderr, "usage: race_abort <Class::op>|list foreign|owner\n"); return 2; }
  std::string op = argv[1], mode = argv[2];
  Logger::setLogLevel(Logger::WARN);
  std::map<std::string, Op>& m = ops();
  if (m.find(op) == m.end()) { printf("UNKNOWN %s\n", op.c_str()); return 2; }
  F = new Fixture;
  prepare(op);
  printf("READY %s %s\n", op.c_str(), mode.c_str());
  fflush(stdout);
  if (mode == "owner") {
    m[op]();
  } else {
    std::thread t(m[op]);
    t.join();
  }
  printf("RETURNED %s\n", op.c_str());
  fflush(stdout);
  _exit(0);
}
