// monitor_drv — the real muduo::BlockingQueue / BoundedBlockingQueue / CountDownLatch / ThreadPool
// under the deterministic scheduler (harness/sched/detsched.h).  Engine name "monitor" (C14, C15).
//
// Line protocol (after EVERY input line: zero or more lines, then `--`):
//   object bq | object bbq <cap> | object latch <n> | object pool <threads> <max>    new case
//   spurious                                      offer spurious wake-ups as schedule moves
//   thread <k>: <ops…>                            program thread k (k = 1,2,… consecutive)
//        put <v> | take | drain | size            (bq)
//        put <v> | take | size | empty | full | capacity   (bbq)
//        wait | countDown | getCount              (latch)
//        run <id> | stop | open                   (pool; `open` opens the gate, see below)
//   waits <ids…> / opens <ids…>                   (pool) tasks with these ids wait inside task() until the gate is open /
//                                                 open the gate; the gate is closed at first and stays open once opened
//                                                 (a pool without threads ignores the kinds: its tasks are plain)
//   schedule <ints…>                              run the case (in a forked child) and print its events
// Event lines: `T<i> <op> -> <result>`, `T<j> exec <id>`, `T<j> pass <id>` (a waiting task got through the gate), then
// `done` or `blocked T0:… T1:…` (a worker inside a waiting task is in state `poll`: the gate is a pipe).
// Oracle-only lines: `# call T<i> <op>` (before the op), `# stopflag T<i>` (stop() has cleared the flag; printed at
// the first notify/unlock after stop() locked the mutex),
// `# dec <decisions>`, `# final <n>`, and for a pool at every release of its mutex (unlock, or entering a wait)
// `# mon q=<queue_.size()> run=<running_> neW=<k> neS=<k> nfW=<k> nfS=<k>`: the monitor's state as the scheduler
// sees it (W = waiters not yet notified, S = notified waiters that have not re-acquired the mutex yet).
// Thread numbering = detsched index: T0 main; pool workers T1..T<threads>, program thread k after them.
#include <assert.h>
#include <ctype.h>
#include <signal.h>
#include <stdio.h>
#include <stdlib.h>
#include <string.h>
#include <sys/types.h>
#include <sys/wait.h>
#include <unistd.h>

#include <atomic>
#include <deque>
#include <functional>
#include <map>
#include <memory>
#include <sstream>
#include <string>
#include <vector>

#include <boost/circular_buffer.hpp>

#include "sched/detsched.h"

#include "muduo/base/Types.h"
#include "muduo/base/noncopyable.h"
#include "muduo/base/CurrentThread.h"
#include "muduo/base/Atomic.h"

#define private public
#define protected public
#include "muduo/base/Mutex.h"
#include "muduo/base/Condition.h"
#include "muduo/base/CountDownLatch.h"
#include "muduo/base/BlockingQueue.h"
#include "muduo/base/BoundedBlockingQueue.h"
#include "muduo/base/Thread.h"
#include "muduo/base/ThreadPool.h"
#undef private
#undef protected

namespace {

enum Kind { K_NONE, K_BQ, K_BBQ, K_LATCH, K_POOL };
enum OpCode { O_PUT, O_TAKE, O_DRAIN, O_SIZE, O_EMPTY, O_FULL, O_CAPACITY, O_WAIT, O_COUNTDOWN, O_GETCOUNT, O_RUN, O_STOP, O_OPEN };
struct Op { OpCode code; int arg; };

struct CaseDef {
  Kind kind;
  int a, b;                 // bbq: cap; latch: n; pool: threads, max
  bool spurious;
  std::vector<std::vector<Op> > threads;
  std::vector<int> waits, opens;   // pool: ids of the tasks that wait for the gate / open it
  CaseDef() : kind(K_NONE), a(0), b(0), spurious(false) {}
};

const int kMaxThreads = 16;
const int kMaxOps = 256;

muduo::BlockingQueue<int>* g_bq;
muduo::BoundedBlockingQueue<int>* g_bbq;
muduo::CountDownLatch* g_latch;
muduo::ThreadPool* g_pool;
const CaseDef* g_case;
int g_gate[2] = { -1, -1 };   // pool: the gate (a pipe: readable = open)

const char* opName(OpCode c) {
  switch (c) {
    case O_PUT: return "put"; case O_TAKE: return "take"; case O_DRAIN: return "drain"; case O_SIZE: return "size";
    case O_EMPTY: return "empty"; case O_FULL: return "full"; case O_CAPACITY: return "capacity";
    case O_WAIT: return "wait"; case O_COUNTDOWN: return "countDown"; case O_GETCOUNT: return "getCount";
    case O_RUN: return "run"; case O_STOP: return "stop"; case O_OPEN: return "open";
  }
  return "?";
}
bool hasArg(OpCode c) { return c == O_PUT || c == O_RUN; }

bool parseInt(const std::string& s, int lo, int hi, int* out) {
  if (s.empty() || s.size() > 9) return false;
  for (size_t i = 0; i < s.size(); ++i) if (!isdigit(static_cast<unsigned char>(s[i]))) return false;
  long v = strtol(s.c_str(), 0, 10);
  if (v < lo || v > hi) return false;
  *out = static_cast<int>(v);
  return true;
}

bool opAllowed(Kind k, OpCode c) {
  switch (k) {
    case K_BQ: return c == O_PUT || c == O_TAKE || c == O_DRAIN || c == O_SIZE;
    case K_BBQ: return c == O_PUT || c == O_TAKE || c == O_SIZE || c == O_EMPTY || c == O_FULL || c == O_CAPACITY;
    case K_LATCH: return c == O_WAIT || c == O_COUNTDOWN || c == O_GETCOUNT;
    case K_POOL: return c == O_RUN || c == O_STOP || c == O_OPEN;
    default: return false;
  }
}

bool parseOps(Kind kind, const std::vector<std::string>& w, size_t from, std::vector<Op>* out) {
  static const OpCode all[] = { O_PUT, O_TAKE, O_DRAIN, O_SIZE, O_EMPTY, O_FULL, O_CAPACITY, O_WAIT, O_COUNTDOWN, O_GETCOUNT, O_RUN, O_STOP, O_OPEN };
  for (size_t i = from; i < w.size(); ++i) {
    bool found = false;
    for (size_t j = 0; j < sizeof all / sizeof *all; ++j) {
      if (w[i] != opName(all[j])) continue;
      found = true;
      Op op; op.code = all[j]; op.arg = 0;
      if (!opAllowed(kind, op.code)) return false;
      if (hasArg(op.code)) {
        if (i + 1 >= w.size() || !parseInt(w[i + 1], 0, 999999999, &op.arg)) return false;
        ++i;
      }
      out->push_back(op);
      break;
    }
    if (!found) return false;
    if (out->size() > static_cast<size_t>(kMaxOps)) return false;
  }
  return true;
}

bool hasId(const std::vector<int>& v, int id) {
  for (size_t i = 0; i < v.size(); ++i) if (v[i] == id) return true;
  return false;
}

void openGate() {
  char x = 'x';
  if (write(g_gate[1], &x, 1) != 1) { printf("<<gate write failed>>\n"); fflush(stdout); _exit(0); }
}

// the task handed to ThreadPool::run(): plain, or (pools with threads only) waiting for / opening the gate.
// Waiting = poll() on the gate's read end without a time-out: a yield point of the scheduler, enabled once the
// gate has been opened (nothing is ever read from the pipe: an open gate stays open).
void taskBody(int id) {
  int me = ds::self();
  printf("T%d exec %d\n", me, id);
  if (g_case->a == 0) return;
  if (hasId(g_case->waits, id)) {
    struct pollfd p;
    p.fd = g_gate[0]; p.events = POLLIN; p.revents = 0;
    poll(&p, 1, -1);
    printf("T%d pass %d\n", me, id);
  } else if (hasId(g_case->opens, id)) {
    openGate();
  }
}

void* programThread(void* p) {
  const std::vector<Op>& ops = *static_cast<const std::vector<Op>*>(p);
  const CaseDef& c = *g_case;
  for (size_t i = 0; i < ops.size(); ++i) {
    const Op& op = ops[i];
    ds::label(opName(op.code));
    if ((op.code == O_RUN && c.kind == K_POOL && c.a == 0) || op.code == O_OPEN) ds::yield("op");   // inline run / open take no lock at all
    int me = ds::self();
    if (hasArg(op.code)) printf("# call T%d %s %d\n", me, opName(op.code), op.arg);
    else printf("# call T%d %s\n", me, opName(op.code));
    switch (op.code) {
      case O_PUT: {
        int v = op.arg;
        if (c.kind == K_BQ) {
          if (v % 2 == 0) { const int& r = v; g_bq->put(r); } else { int cp = v; g_bq->put(std::move(cp)); }
        } else {
          if (v % 2 == 0) { const int& r = v; g_bbq->put(r); } else { int cp = v; g_bbq->put(std::move(cp)); }
        }
        printf("T%d put %d -> ok\n", me, v);
        break;
      }
      case O_TAKE: {
        int v = (c.kind == K_BQ) ? g_bq->take() : g_bbq->take();
        printf("T%d take -> %d\n", me, v);
        break;
      }
      case O_DRAIN: {
        std::deque<int> d = g_bq->drain();
        std::string s;
        char b[16];
        for (size_t j = 0; j < d.size(); ++j) { snprintf(b, sizeof b, "%s%d", j ? "," : "", d[j]); s += b; }
        printf("T%d drain -> %s\n", me, d.empty() ? "-" : s.c_str());
        break;
      }
      case O_SIZE: {
        size_t n = (c.kind == K_BQ) ? g_bq->size() : g_bbq->size();
        printf("T%d size -> %zu\n", me, n);
        break;
      }
      case O_EMPTY: printf("T%d empty -> %d\n", me, g_bbq->empty() ? 1 : 0); break;
      case O_FULL: printf("T%d full -> %d\n", me, g_bbq->full() ? 1 : 0); break;
      case O_CAPACITY: printf("T%d capacity -> %zu\n", me, g_bbq->capacity()); break;
      case O_WAIT: g_latch->wait(); printf("T%d wait -> ok\n", me); break;
      case O_COUNTDOWN: g_latch->countDown(); printf("T%d countDown -> ok\n", me); break;
      case O_GETCOUNT: printf("T%d getCount -> %d\n", me, g_latch->getCount()); break;
      case O_RUN: g_pool->run(std::bind(&taskBody, op.arg)); printf("T%d run %d -> ok\n", me, op.arg); break;
      case O_STOP: g_pool->stop(); printf("T%d stop -> ok\n", me); break;
      case O_OPEN: openGate(); printf("T%d open -> ok\n", me); break;
    }
  }
  return 0;
}

void onBlocked(const std::vector<ds::ThreadState>&) {
  printf("# dec %s\n", ds::decisionsString().c_str());
  printf("blocked %s\n", ds::stateString().c_str());
  fflush(stdout);
  _exit(0);
}

// With cfg().spurious a thread that waits for ever would be woken spuriously again and again (the
// spurious move is the only move, taken without consuming a schedule entry).  "Only spurious moves
// left" is therefore reported as all-blocked.
bool onlySpuriousLeft() {
  ds::G& s = ds::g();
  bool waiter = false;
  for (size_t i = 0; i < s.thr.size(); ++i) {
    ds::Thr* t = s.thr[i];
    if (ds::enabledRun(t)) return false;
    if (t->st == ds::ST_WAIT) {
      if (t->timed && ds::mutexFree(t->mtx)) return false;
      waiter = true;
    }
  }
  return waiter;
}

// `# stopflag`: stop() stores running_ = false right after it has locked the mutex.  The marker is printed at the
// first scheduler-visible action of that thread after the lock (a notify, or the unlock) — in the same atomic step
// as the store, and without relying on any particular notification being there.
bool g_stopPending[kMaxThreads * 2 + 2];

// `# mon`: what the pool's monitor looks like at the moment its mutex is released
#ifdef VERIF_ANON_SYNC
// fallback build (the members the harness names no longer exist under these names): no snapshots, the scheduler names
// the mutexes / condition variables m0,m1,../c0,c1,.. in order of first use; the oracle then judges by operation only
void printMon() {}
#else
void printMon() {
  const void* ce = &g_pool->notEmpty_.pcond_;
  const void* cf = &g_pool->notFull_.pcond_;
  int neS = 0, nfS = 0;
  ds::G& s = ds::g();
  for (size_t i = 0; i < s.thr.size(); ++i) {
    if (s.thr[i]->st != ds::ST_SIG) continue;
    if (s.thr[i]->obj == ce) ++neS;
    if (s.thr[i]->obj == cf) ++nfS;
  }
  printf("# mon q=%d run=%d neW=%d neS=%d nfW=%d nfS=%d\n", static_cast<int>(g_pool->queue_.size()), g_pool->running_ ? 1 : 0,
         static_cast<int>(ds::cndOf(ce).waiters.size()), neS, static_cast<int>(ds::cndOf(cf).waiters.size()), nfS);
}
#endif

void observer(const ds::Ev& e) {
  if (g_case->kind == K_POOL && e.thread >= 0 && e.thread < static_cast<int>(sizeof g_stopPending / sizeof *g_stopPending)) {
    ds::Thr* t = ds::g().thr[static_cast<size_t>(e.thread)];
    if (e.kind == ds::EV_LOCK) {
      if (t->label == "stop" && e.name && !strcmp(e.name, "m")) g_stopPending[e.thread] = true;
    } else if (g_stopPending[e.thread]) {
      g_stopPending[e.thread] = false;
      printf("# stopflag T%d\n", e.thread);
    }
#ifndef VERIF_ANON_SYNC
    if (e.thread > 0 && ((e.kind == ds::EV_UNLOCK && e.obj == g_pool->mutex_.getPthreadMutex()) ||
                         (e.kind == ds::EV_WAIT && (e.obj == &g_pool->notEmpty_.pcond_ || e.obj == &g_pool->notFull_.pcond_))))
      printMon();
#endif
  }
  if ((e.kind == ds::EV_WAIT || e.kind == ds::EV_EXIT) && ds::cfg().spurious && onlySpuriousLeft()) ds::reportBlocked();
}

void runChild(const CaseDef& c, const std::vector<int>& sched) {
  alarm(60);   // safety net only: a live-locked child is reported as `<<child status 142>>`
  g_case = &c;
  ds::cfg().spurious = c.spurious;
  ds::blockedHandler() = &onBlocked;
  ds::observer() = &observer;
  ds::init();
  switch (c.kind) {
    case K_BQ:
      g_bq = new muduo::BlockingQueue<int>();
#ifndef VERIF_ANON_SYNC
      ds::name(g_bq->mutex_.getPthreadMutex(), "m");
      ds::name(&g_bq->notEmpty_.pcond_, "notEmpty");
#endif
      break;
    case K_BBQ:
      g_bbq = new muduo::BoundedBlockingQueue<int>(c.a);
#ifndef VERIF_ANON_SYNC
      ds::name(g_bbq->mutex_.getPthreadMutex(), "m");
      ds::name(&g_bbq->notEmpty_.pcond_, "notEmpty");
      ds::name(&g_bbq->notFull_.pcond_, "notFull");
#endif
      break;
    case K_LATCH:
      g_latch = new muduo::CountDownLatch(c.a);
#ifndef VERIF_ANON_SYNC
      ds::name(g_latch->mutex_.getPthreadMutex(), "m");
      ds::name(&g_latch->condition_.pcond_, "cond");
#endif
      break;
    case K_POOL:
      g_pool = new muduo::ThreadPool("pool");
#ifndef VERIF_ANON_SYNC
      ds::name(g_pool->mutex_.getPthreadMutex(), "m");
      ds::name(&g_pool->notEmpty_.pcond_, "notEmpty");
      ds::name(&g_pool->notFull_.pcond_, "notFull");
#endif
      g_pool->setMaxQueueSize(c.b);
      if (pipe(g_gate) != 0) { printf("<<pipe failed>>\n"); fflush(stdout); _exit(0); }
      g_pool->start(c.a);
      break;
    default: break;
  }
  std::vector<pthread_t> tids(c.threads.size());
  for (size_t k = 0; k < c.threads.size(); ++k) {
    void* arg = const_cast<void*>(static_cast<const void*>(&c.threads[k]));
    if (pthread_create(&tids[k], 0, &programThread, arg) != 0) { printf("<<pthread_create failed>>\n"); fflush(stdout); _exit(0); }
  }
  ds::begin(sched);
  ds::waitAll();
  printf("# dec %s\n", ds::decisionsString().c_str());
  size_t fin = 0;
  switch (c.kind) {
    case K_BQ: fin = g_bq->size(); break;
    case K_BBQ: fin = g_bbq->size(); break;
    case K_LATCH: fin = static_cast<size_t>(g_latch->getCount()); break;
    case K_POOL: fin = g_pool->queueSize(); break;
    default: break;
  }
  printf("# final %d\n", static_cast<int>(fin));
  printf("done\n");
  fflush(stdout);
  _exit(0);
}

void words(const std::string& line, std::vector<std::string>* w) {
  std::istringstream in(line);
  std::string t;
  while (in >> t) w->push_back(t);
}

}  // namespace

int main() {
  CaseDef cur;
  char* buf = 0;
  size_t cap = 0;
  ssize_t n;
  while ((n = getline(&buf, &cap, stdin)) >= 0) {
    std::string line(buf, static_cast<size_t>(n));
    while (!line.empty() && (line[line.size() - 1] == '\n' || line[line.size() - 1] == '\r')) line.erase(line.size() - 1);
    std::vector<std::string> w;
    words(line, &w);
    if (w.empty()) continue;
    bool ok = false;
    if (w[0] == "object") {
      CaseDef c;
      if (w.size() == 2 && w[1] == "bq") { c.kind = K_BQ; ok = true; }
      else if (w.size() == 3 && w[1] == "bbq" && parseInt(w[2], 1, 1000000, &c.a)) { c.kind = K_BBQ; ok = true; }
      else if (w.size() == 3 && w[1] == "latch" && parseInt(w[2], 0, 1000000, &c.a)) { c.kind = K_LATCH; ok = true; }
      else if (w.size() == 4 && w[1] == "pool" && parseInt(w[2], 0, kMaxThreads, &c.a) && parseInt(w[3], 0, 1000000, &c.b)) { c.kind = K_POOL; ok = true; }
      cur = ok ? c : CaseDef();
    } else if (w[0] == "spurious") {
      if (w.size() == 1 && cur.kind != K_NONE) { cur.spurious = true; ok = true; }
    } else if (w[0] == "waits" || w[0] == "opens") {
      ok = cur.kind == K_POOL;
      std::vector<int>& dst = (w[0] == "waits") ? cur.waits : cur.opens;
      std::vector<int> ids;
      for (size_t i = 1; ok && i < w.size(); ++i) {
        int v = 0;
        if (parseInt(w[i], 0, 999999999, &v)) ids.push_back(v); else ok = false;
      }
      if (ok) dst.insert(dst.end(), ids.begin(), ids.end());
    } else if (w[0] == "thread") {
      int k = 0;
      if (cur.kind != K_NONE && w.size() >= 2 && w[1].size() >= 2 && w[1][w[1].size() - 1] == ':' &&
          parseInt(w[1].substr(0, w[1].size() - 1), 1, kMaxThreads, &k) && static_cast<size_t>(k) == cur.threads.size() + 1) {
        std::vector<Op> ops;
        if (parseOps(cur.kind, w, 2, &ops)) { cur.threads.push_back(ops); ok = true; }
      }
    } else if (w[0] == "schedule") {
      std::vector<int> sched;
      ok = cur.kind != K_NONE;
      for (size_t i = 1; ok && i < w.size(); ++i) {
        int v = 0;
        if (parseInt(w[i], 0, 999999999, &v)) sched.push_back(v); else ok = false;
      }
      if (ok) {
        fflush(stdout);
        pid_t pid = fork();
        if (pid == 0) { runChild(cur, sched); _exit(0); }
        if (pid < 0) { printf("<<fork failed>>\n"); }
        else {
          int st = 0;
          while (waitpid(pid, &st, 0) < 0 && errno == EINTR) {}
          int code = WIFSIGNALED(st) ? 128 + WTERMSIG(st) : WEXITSTATUS(st);
          if (code != 0) printf("<<child status %d>>\n", code);
        }
      }
    }
    if (!ok) printf("bad-op\n");
    printf("--\n");
  }
  free(buf);
  fflush(stdout);
  return 0;
}
