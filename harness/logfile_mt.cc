// Free-running, oracle-only scenario for C16: a thread-safe muduo::LogFile (threadSafe = true) written by several
// appender threads while another thread calls flush() - the public, documented use.  Every record is self-describing
// (thread, sequence number, length, pattern); afterwards the files are read back and every record must be there exactly
// once, whole, in its thread's order.  Supporting evidence (a test), not a proof: it exists to turn a broken locking tie
// (Generated/LogFile.lean: appendLocks / flushLocks) into a concrete failing input.
//   usage: logfile_mt <dir> <appenders> <records per appender> <flushers>
#include "muduo/base/LogFile.h"

#include <dirent.h>
#include <stdio.h>
#include <stdlib.h>
#include <string.h>
#include <unistd.h>

#include <algorithm>
#include <atomic>
#include <map>
#include <string>
#include <thread>
#include <vector>

static std::atomic<bool> g_done(false);

static void appender(muduo::LogFile* lf, int id, int n) {
  char line[160];
  for (int i = 0; i < n; ++i) {
    int pad = (i * 7 + id * 13) % 90;
    int len = snprintf(line, sizeof line, "R %d %d %d ", id, i, pad);
    for (int k = 0; k < pad; ++k) line[len++] = static_cast<char>('a' + (k + i) % 26);
    line[len++] = '\n';
    lf->append(line, len);
  }
}

static void flusher(muduo::LogFile* lf) {
  while (!g_done) lf->flush();
}

int main(int argc, char** argv) {
  if (argc < 5) return 2;
  std::string dir = argv[1];
  int na = atoi(argv[2]), n = atoi(argv[3]), nf = atoi(argv[4]);
  if (chdir(dir.c_str()) != 0) return 2;   // LogFile wants a base name without '/'
  dir = ".";
  {
    muduo::LogFile lf("mt", 64 * 1024 * 1024, true, 3, 1024);
    std::vector<std::thread> ts;
    std::vector<std::thread> fs;
    for (int f = 0; f < nf; ++f) fs.push_back(std::thread(flusher, &lf));
    for (int a = 0; a < na; ++a) ts.push_back(std::thread(appender, &lf, a, n));
    for (size_t i = 0; i < ts.size(); ++i) ts[i].join();
    g_done = true;
    for (size_t i = 0; i < fs.size(); ++i) fs[i].join();
    lf.flush();
  }
  // read back
  std::vector<std::string> files;
  DIR* d = opendir(dir.c_str());
  while (struct dirent* e = readdir(d)) if (strncmp(e->d_name, "mt.", 3) == 0) files.push_back(dir + "/" + e->d_name);
  closedir(d);
  std::sort(files.begin(), files.end());
  std::map<int, int> next;
  long bad = 0, total = 0;
  std::string firstBad;
  for (size_t fi = 0; fi < files.size(); ++fi) {
    FILE* f = fopen(files[fi].c_str(), "r");
    char buf[512];
    while (fgets(buf, sizeof buf, f)) {
      int id, i, pad;
      bool ok = sscanf(buf, "R %d %d %d", &id, &i, &pad) == 3;
      if (ok) {
        // rebuild the record the appender wrote and compare it byte for byte
        char want[160];
        int len = snprintf(want, sizeof want, "R %d %d %d ", id, i, (i * 7 + id * 13) % 90);
        for (int k = 0; k < (i * 7 + id * 13) % 90; ++k) want[len++] = static_cast<char>('a' + (k + i) % 26);
        want[len++] = '\n';
        want[len] = 0;
        ok = strcmp(buf, want) == 0;
        if (ok) { ok = next[id] == i; next[id] = i + 1; }
      }
      ++total;
      if (!ok) { if (!bad) firstBad = std::string(buf).substr(0, 80); ++bad; }
    }
    fclose(f);
  }
  for (int a = 0; a < na; ++a) if (next[a] != n) { ++bad; if (firstBad.empty()) firstBad = "a thread's records end early"; }
  if (bad) { printf("FAIL lost-or-torn %ld of %ld lines are not the next whole record of their thread; first: %s\n", bad, total, firstBad.c_str()); return 1; }
  printf("PASS %ld records\n", total);
  return 0;
}
