// Shared helpers of the C++ side of the line protocol (see lean/Driver/Util.lean).
#ifndef VERIF_HARNESS_COMMON_H
#define VERIF_HARNESS_COMMON_H
#include <stdint.h>
#include <stdio.h>
#include <stdlib.h>
#include <string>
#include <vector>
#include <sstream>
#include <iostream>

namespace vh {

inline std::vector<std::string> words(const std::string& line) {
  std::vector<std::string> w; std::istringstream is(line); std::string t;
  while (is >> t) w.push_back(t);
  return w;
}

inline int hexVal(char c) {
  if (c >= '0' && c <= '9') return c - '0';
  if (c >= 'a' && c <= 'f') return c - 'a' + 10;
  if (c >= 'A' && c <= 'F') return c - 'A' + 10;
  return -1;
}

inline bool parseHex(const std::string& s, std::string* out) {
  if (s.size() % 2) return false;
  out->clear();
  for (size_t i = 0; i < s.size(); i += 2) {
    int a = hexVal(s[i]), b = hexVal(s[i+1]);
    if (a < 0 || b < 0) return false;
    out->push_back(static_cast<char>(a * 16 + b));
  }
  return true;
}

inline std::string toHex(const std::string& s) {
  static const char* d = "0123456789abcdef";
  std::string o;
  for (size_t i = 0; i < s.size(); ++i) { unsigned char c = static_cast<unsigned char>(s[i]); o.push_back(d[c >> 4]); o.push_back(d[c & 15]); }
  return o;
}

inline std::string genBytes(uint64_t seed, size_t len) {
  std::string o; o.reserve(len);
  uint64_t x = seed;
  for (size_t i = 0; i < len; ++i) {
    x = x * 6364136223846793005ULL + 1442695040888963407ULL;
    o.push_back(static_cast<char>(x >> 56));
  }
  return o;
}

// byte-string argument: h:<hex> or g:<seed>:<len>
inline bool parseBytes(const std::string& s, std::string* out) {
  if (s.size() >= 2 && s[0] == 'h' && s[1] == ':') return parseHex(s.substr(2), out);
  if (s.size() >= 2 && s[0] == 'g' && s[1] == ':') {
    size_t p = s.find(':', 2);
    if (p == std::string::npos) return false;
    uint64_t seed = strtoull(s.substr(2, p - 2).c_str(), NULL, 10);
    size_t len = strtoull(s.substr(p + 1).c_str(), NULL, 10);
    *out = genBytes(seed, len);
    return true;
  }
  return false;
}

inline uint64_t fnv64(const char* p, size_t n) {
  uint64_t h = 14695981039346656037ULL;
  for (size_t i = 0; i < n; ++i) { h ^= static_cast<unsigned char>(p[i]); h *= 1099511628211ULL; }
  return h;
}
inline uint64_t fnv64(const std::string& s) { return fnv64(s.data(), s.size()); }

}  // namespace vh
#endif
