// C++ side of `drv_timer`: a real muduo::net::EventLoop (with its TimerQueue) under the virtual clock
// of interpose.h, stepped one iteration per `iter` line from inside loop() (loopstep.h).
//
// input lines (names are program-chosen small integers, each bound by at most one `add`):
//   add <L|F|P> <name> at <offset_us>            runAt(Timestamp(BASE + offset))          (one-shot)
//   add <L|F|P> <name> after <us>                runAfter(us / 1e6)
//   add <L|F|P> <name> every <us|sub>            runEvery(us / 1e6)   (sub = 0.4 microseconds: repeats, delta 0)
//        L: on the loop thread;  F: on a foreign std::thread that is joined before the step ends;
//        P: on a foreign thread that PARKS at the point "TimerQueue::addTimer:handedOver" until `resume`
//   resume                                        lets the parked thread build its TimerId and joins it
//   script <name> <k|*> add <name2> <mode> <arg>  what the callback of <name> does at its k-th run (every run)
//   script <name> <k|*> cancel <name2|default>
//   cancel <L|F> <name|default> <marker>          L: `processed <marker>` right after cancel() returned;
//                                                 F: a marker functor queued right behind the cancel prints it
//   advance <us>      virtual time passes (the timerfd becomes readable when its alarm is reached)
//   tick <us>         from now on every clock read of the timer code advances the clock by <us> first
//   iter              one loop iteration (poll, handleRead if the timerfd is readable, pending functors)
// output per line: events, `st ...`, then `--`.  Environment lines: `< now <us>` every clock read made by
// the timer code, `< alloc <addr>` address of each new Timer, `< clock <us>` the clock after the step.
#include "interpose.h"
#include "loopstep.h"
#include "common.h"

#include "muduo/base/Logging.h"
#include "muduo/net/Channel.h"
#include "muduo/net/EventLoop.h"
#include "muduo/net/Timer.h"
#include "muduo/net/TimerId.h"

#include <semaphore.h>

#include <functional>
#include <map>
#include <set>
#include <thread>

using namespace muduo;
using namespace muduo::net;
using namespace vh;

static const int64_t kBase = 1700000000LL * 1000000LL;

static std::vector<std::string> g_out;
static bool g_finished = false;
static void emitLine(const std::string& s) {
  if (g_finished) return;
  if (s.compare(0, 6, "< arm ") == 0) {
    // the value handed to timerfd_settime is something the code computed: an observable event
    char buf[128];
    snprintf(buf, sizeof buf, "arm %s at %lld", s.c_str() + 6, static_cast<long long>(vi::clock().nowUs));
    g_out.push_back(buf);
    return;
  }
  g_out.push_back(s);
}
static void flushStep() {
  for (size_t i = 0; i < g_out.size(); ++i) { fputs(g_out[i].c_str(), stdout); fputc('\n', stdout); }
  g_out.clear();
  fputs("--\n", stdout);
  fflush(stdout);
}

static EventLoop* g_loop;
static bool g_inPoll = false;
static int64_t g_tick = 0;

struct RawId { void* timer; int64_t seq; };   // layout of muduo::net::TimerId (Timer*, int64_t)
static_assert(sizeof(TimerId) == sizeof(RawId), "TimerId layout");

static std::map<int, TimerId> g_ids;         // the user's variables
static std::set<int> g_started;
static std::map<int, int> g_runs;
struct ScriptOp { int k; std::vector<std::string> w; };
static std::map<int, std::vector<ScriptOp> > g_scripts;

static pthread_t g_parkThread;
static bool g_parkWanted = false, g_parked = false;
static sem_t g_semParked, g_semResume;
static std::thread* g_parkedThread = NULL;

static void onClockRead() {
  if (g_inPoll || g_finished) return;
  if (g_tick > 0) vi::advance(g_tick);
  char buf[64];
  snprintf(buf, sizeof buf, "< now %lld", static_cast<long long>(vi::clock().nowUs));
  emitLine(buf);
}

static void myPoint(const char* name, const void* obj) {
  if (strcmp(name, "EventLoop::loop:afterPoll") == 0) { g_inPoll = false; return; }
  if (strcmp(name, "TimerQueue::addTimer:handedOver") == 0) {
    char buf[64];
    snprintf(buf, sizeof buf, "< alloc %llu", static_cast<unsigned long long>(reinterpret_cast<uintptr_t>(obj)));
    emitLine(buf);
    if (g_parkWanted && pthread_equal(pthread_self(), g_parkThread)) {
      g_parkWanted = false;
      sem_post(&g_semParked);
      sem_wait(&g_semResume);
    }
  }
}

static void doOp(const std::vector<std::string>& w, size_t i);

static void onTimer(int name) {
  int k = ++g_runs[name];
  char buf[96];
  snprintf(buf, sizeof buf, "run %d at %lld", name, static_cast<long long>(vi::clock().nowUs));
  emitLine(buf);
  std::map<int, std::vector<ScriptOp> >::iterator it = g_scripts.find(name);
  if (it == g_scripts.end()) return;
  std::vector<ScriptOp> ops = it->second;    // copy: the script may not change under our feet
  for (size_t j = 0; j < ops.size(); ++j)
    if (ops[j].k < 0 || ops[j].k == k) doOp(ops[j].w, 0);
}

static bool exactUs(long long us) {
  double s = static_cast<double>(us) / 1e6;
  return static_cast<int64_t>(s * Timestamp::kMicroSecondsPerSecond) == us;
}

// add <name> <mode> <arg>, on the calling thread
static void doAdd(int name, const std::string& mode, const std::string& arg) {
  if (g_started.count(name)) return;
  g_started.insert(name);
  TimerId id;
  if (mode == "at") id = g_loop->runAt(Timestamp(kBase + atoll(arg.c_str())), std::bind(onTimer, name));
  else if (mode == "after") {
    long long us = atoll(arg.c_str());
    if (!exactUs(us)) { emitLine("inexact-interval"); return; }
    id = g_loop->runAfter(static_cast<double>(us) / 1e6, std::bind(onTimer, name));
  } else {
    double s;
    if (arg == "sub") s = 0.4e-6;
    else {
      long long us = atoll(arg.c_str());
      if (!exactUs(us)) { emitLine("inexact-interval"); return; }
      s = static_cast<double>(us) / 1e6;
    }
    id = g_loop->runEvery(s, std::bind(onTimer, name));
  }
  RawId raw; memcpy(&raw, &id, sizeof raw);
  char buf[96];
  snprintf(buf, sizeof buf, "added %d seq=%lld", name, static_cast<long long>(raw.seq));
  emitLine(buf);
  g_ids[name] = id;
}

static TimerId idOf(const std::string& s) {
  if (s == "default") return TimerId();
  std::map<int, TimerId>::iterator it = g_ids.find(atoi(s.c_str()));
  return it == g_ids.end() ? TimerId() : it->second;
}

static void marker(std::string k) { emitLine("processed " + k); }

// operations a callback / the loop thread performs: `add <name> <mode> <arg>` | `cancel <name|default>`
static void doOp(const std::vector<std::string>& w, size_t i) {
  if (w[i] == "add" && w.size() >= i + 4) doAdd(atoi(w[i + 1].c_str()), w[i + 2], w[i + 3]);
  else if (w[i] == "cancel" && w.size() >= i + 2) g_loop->cancel(idOf(w[i + 1]));
}

static void foreignCancel(TimerId id, std::string k) {
  g_loop->cancel(id);
  g_loop->queueInLoop(std::bind(marker, k));
}

static void dropLog(const char*, int) {}

extern "C" void __assert_fail(const char* assertion, const char* file, unsigned int line, const char* function) __THROW {
  (void)file; (void)line; (void)function;
  emitLine(std::string("abort ") + assertion);
  flushStep();
  _exit(0);
}

static void stLine() {
  char buf[160];
  snprintf(buf, sizeof buf, "< clock %lld", static_cast<long long>(vi::clock().nowUs));
  emitLine(buf);
  std::string fd = "none";
  if (!vi::timerfds().empty()) {
    std::map<int, vi::TimerFd>::iterator it = vi::timerfds().begin();
    if (it->second.armed) {
      snprintf(buf, sizeof buf, "a%lld", static_cast<long long>(it->second.alarmUs)); fd = buf;
    } else {
      struct pollfd p; p.fd = it->first; p.events = POLLIN; p.revents = 0;
      VI_REAL(int, poll, struct pollfd*, nfds_t, int);
      fd = (real_poll(&p, 1, 0) == 1 && (p.revents & POLLIN)) ? "r" : "off";
    }
  }
  snprintf(buf, sizeof buf, "st fd=%s created=%lld q=%zu", fd.c_str(), static_cast<long long>(Timer::numCreated()),
           g_loop->queueSize());
  emitLine(buf);
}

static void releaseParked() {
  if (g_parkedThread) {
    sem_post(&g_semResume);
    g_parkedThread->join();
    delete g_parkedThread;
    g_parkedThread = NULL;
    g_parked = false;
  }
}

static void parkedAdd(int name, std::string mode, std::string arg) {
  g_parkThread = pthread_self();
  g_parkWanted = true;
  doAdd(name, mode, arg);
  if (g_parkWanted) { g_parkWanted = false; sem_post(&g_semParked); }   // never reached the point (duplicate name)
}

static bool g_iterPending = false;

// runs the input up to and including the next `iter`
static bool interp() {
  if (g_iterPending) { g_iterPending = false; stLine(); flushStep(); }
  std::string line;
  while (std::getline(std::cin, line)) {
    std::vector<std::string> w = words(line);
    if (w.empty()) continue;
    const std::string& op = w[0];
    if (op == "iter") {
      g_iterPending = true;
      g_inPoll = true;
      return true;
    }
    if (op == "add" && w.size() == 5) {
      int name = atoi(w[2].c_str());
      if (w[1] == "L") doAdd(name, w[3], w[4]);
      else if (w[1] == "F") { std::thread t(doAdd, name, w[3], w[4]); t.join(); }
      else if (w[1] == "P" && !g_parkedThread) {
        g_parkedThread = new std::thread(parkedAdd, name, w[3], w[4]);
        sem_wait(&g_semParked);
      } else emitLine("bad-op");
    } else if (op == "resume") {
      releaseParked();
    } else if (op == "script" && w.size() >= 5) {
      ScriptOp so; so.k = (w[2] == "*") ? -1 : atoi(w[2].c_str());
      so.w.assign(w.begin() + 3, w.end());
      g_scripts[atoi(w[1].c_str())].push_back(so);
    } else if (op == "cancel" && w.size() == 4) {
      if (w[1] == "L") { g_loop->cancel(idOf(w[2])); emitLine("processed " + w[3]); }
      else { std::thread t(foreignCancel, idOf(w[2]), w[3]); t.join(); }
    } else if (op == "advance" && w.size() == 2) {
      vi::advance(atoll(w[1].c_str()));
    } else if (op == "tick" && w.size() == 2) {
      g_tick = atoll(w[1].c_str());
    } else {
      emitLine("bad-op");
    }
    stLine();
    flushStep();
  }
  releaseParked();
  g_finished = true;
  return false;
}

int main(int argc, char** argv) {
  bool usePoll = argc > 1 && std::string(argv[1]) == "poll";
  if (usePoll) setenv("MUDUO_USE_POLL", "1", 1); else unsetenv("MUDUO_USE_POLL");
  Logger::setLogLevel(Logger::FATAL);   // nothing is decided by log output
  Logger::setOutput(dropLog);
  sem_init(&g_semParked, 0, 0);
  sem_init(&g_semResume, 0, 0);
  vi::clock().virt = true;
  vi::clock().nowUs = kBase;
  vi::emit() = emitLine;
  vi::clockReadHook() = onClockRead;
  muduo::verif::pointHook() = myPoint;   // loopstep chains to it
  {
    EventLoop loop;
    g_loop = &loop;
    vs::run(&loop, interp);
    g_finished = true;
  }
  fflush(stdout);
  return 0;
}
