// Link-level interposition of the stdio calls FileUtil::AppendFile makes (fopen, fwrite_unlocked,
// fflush, ferror, fclose) for streams opened under a directory the driver registered: scripted short
// counts / error flag for fwrite_unlocked, every call reported to the driver.  Streams opened
// elsewhere pass straight through to libc.  Include in exactly ONE translation unit of a driver
// (it can be combined with interpose.h, which owns `time`).
#ifndef VERIF_HARNESS_STDIO_INTERPOSE_H
#define VERIF_HARNESS_STDIO_INTERPOSE_H

#include <dlfcn.h>
#include <stdio.h>
#include <stdlib.h>
#include <string.h>
#include <unistd.h>

#include <deque>
#include <map>
#include <string>

namespace vs {

template <typename F> F real(const char* name) {
  void* p = dlsym(RTLD_NEXT, name);
  if (!p) { fprintf(stderr, "stdio_interpose: no real %s\n", name); _exit(3); }
  return reinterpret_cast<F>(p);
}
#define VS_REAL(ret, name, ...) \
  typedef ret (*name##_fn)(__VA_ARGS__); \
  static name##_fn real_##name = ::vs::real<name##_fn>(#name)

struct FwRes {       // one scripted fwrite_unlocked result
  long n;            // bytes to accept (-1: the whole request)
  bool err;          // raise the error flag of the stream with this call
  FwRes() : n(-1), err(false) {}
  FwRes(long k, bool e) : n(k), err(e) {}
};

struct Stream {
  std::string path;
  bool error;        // what ferror() reports
  Stream() : error(false) {}
};

struct Hooks {
  // a stream under the watched prefix was opened / is being closed / flushed
  void (*opened)(FILE*, const std::string& path);
  void (*closing)(FILE*, const std::string& path);
  void (*flushed)(FILE*, const std::string& path);
  // one fwrite_unlocked call: request, accepted, error flag raised
  void (*wrote)(FILE*, const std::string& path, const void* ptr, size_t req, size_t ret, bool err);
  Hooks() : opened(NULL), closing(NULL), flushed(NULL), wrote(NULL) {}
};

inline std::string& prefix() { static std::string p; return p; }          // watched directory ("" = nothing)
inline std::map<FILE*, Stream>& streams() { static std::map<FILE*, Stream> m; return m; }
inline std::deque<FwRes>& script() { static std::deque<FwRes> q; return q; }
inline Hooks& hooks() { static Hooks h; return h; }

inline bool watched(const char* path) {
  if (prefix().empty() || !path) return false;
  if (path[0] == '/') return strncmp(path, prefix().c_str(), prefix().size()) == 0;
  // relative: resolved against the current directory
  char cwd[4096];
  if (!getcwd(cwd, sizeof cwd)) return false;
  std::string full = std::string(cwd) + "/" + path;
  return full.compare(0, prefix().size(), prefix()) == 0;
}

}  // namespace vs

extern "C" {

FILE* fopen(const char* path, const char* mode) {
  VS_REAL(FILE*, fopen, const char*, const char*);
  FILE* fp = real_fopen(path, mode);
  if (fp && vs::watched(path)) {
    vs::Stream s; s.path = path;
    vs::streams()[fp] = s;
    if (vs::hooks().opened) vs::hooks().opened(fp, s.path);
  }
  return fp;
}

int fclose(FILE* fp) {
  VS_REAL(int, fclose, FILE*);
  std::map<FILE*, vs::Stream>::iterator it = vs::streams().find(fp);
  if (it != vs::streams().end()) {
    std::string path = it->second.path;
    int rc = real_fclose(fp);
    vs::streams().erase(fp);
    if (vs::hooks().closing) vs::hooks().closing(fp, path);
    return rc;
  }
  return real_fclose(fp);
}

int fflush(FILE* fp) {
  VS_REAL(int, fflush, FILE*);
  int rc = real_fflush(fp);
  std::map<FILE*, vs::Stream>::iterator it = fp ? vs::streams().find(fp) : vs::streams().end();
  if (it != vs::streams().end() && vs::hooks().flushed) vs::hooks().flushed(fp, it->second.path);
  return rc;
}

int ferror(FILE* fp) __THROW {
  VS_REAL(int, ferror, FILE*);
  std::map<FILE*, vs::Stream>::iterator it = vs::streams().find(fp);
  if (it != vs::streams().end() && it->second.error) return 1;
  return real_ferror(fp);
}

size_t fwrite_unlocked(const void* ptr, size_t size, size_t n, FILE* fp) {
  VS_REAL(size_t, fwrite_unlocked, const void*, size_t, size_t, FILE*);
  std::map<FILE*, vs::Stream>::iterator it = vs::streams().find(fp);
  if (it == vs::streams().end() || size != 1) return real_fwrite_unlocked(ptr, size, n, fp);
  vs::FwRes r;
  if (!vs::script().empty()) { r = vs::script().front(); vs::script().pop_front(); }
  size_t want = (r.n < 0 || static_cast<size_t>(r.n) > n) ? n : static_cast<size_t>(r.n);
  size_t done = want ? real_fwrite_unlocked(ptr, 1, want, fp) : 0;
  if (r.err) it->second.error = true;
  if (vs::hooks().wrote) vs::hooks().wrote(fp, it->second.path, ptr, n, done, it->second.error);
  return done;
}

}  // extern "C"

#endif  // VERIF_HARNESS_STDIO_INTERPOSE_H
