// C++ side of `drv_http`: the real muduo::net::HttpContext fed through a real muduo::net::Buffer, driven the way
// HttpServer::onMessage drives it (parseRequest; on failure give up; on gotAll() hand the request over and reset()),
// repeated while complete requests keep coming out of the buffer (the drain driver of DESIGN.md section 5, C18).
//
// ops:
//   new            fresh HttpContext and Buffer
//   reset          the same (a new connection)
//   feed <bytes>   append to the Buffer, then the drain driver unless the stream was abandoned earlier
// outputs per feed: `req <METHOD> <1.0|1.1|?> <path> <query> (<field>=<value>)*` per complete request (byte strings
// as h:<hex>, headers in std::map order), `bad` when parseRequest returns false, then
// `st left=<readable> dead=<0|1> partial=<the request under construction, same format, or ->`.
#include "muduo/net/Buffer.h"
#include "muduo/net/http/HttpContext.h"
#include "common.h"
#include <memory>

using namespace muduo;
using namespace muduo::net;
using namespace vh;

static std::string reqText(const HttpRequest& r) {
  std::string o = r.methodString();
  o += r.getVersion() == HttpRequest::kHttp10 ? " 1.0" : r.getVersion() == HttpRequest::kHttp11 ? " 1.1" : " ?";
  o += " h:" + toHex(r.path()) + " h:" + toHex(r.query());
  for (std::map<string, string>::const_iterator it = r.headers().begin(); it != r.headers().end(); ++it)
    o += " h:" + toHex(it->first) + "=h:" + toHex(it->second);
  return o;
}

int main() {
  std::unique_ptr<Buffer> buf(new Buffer());
  std::unique_ptr<HttpContext> ctx(new HttpContext());
  bool dead = false;
  std::string line;
  while (std::getline(std::cin, line)) {
    std::vector<std::string> w = words(line);
    if (w.empty()) continue;
    std::string d;
    if (w[0] == "new" || w[0] == "reset") {
      buf.reset(new Buffer()); ctx.reset(new HttpContext()); dead = false;
      printf("ok\n--\n");
    } else if (w[0] == "feed" && w.size() == 2 && parseBytes(w[1], &d)) {
      buf->append(d.data(), d.size());
      while (!dead) {
        if (!ctx->parseRequest(buf.get(), Timestamp())) {
          printf("bad\n");
          dead = true;
        } else if (ctx->gotAll()) {
          printf("req %s\n", reqText(ctx->request()).c_str());
          ctx->reset();
        } else {
          break;
        }
      }
      printf("st left=%zu dead=%d partial=%s\n--\n", buf->readableBytes(), dead ? 1 : 0,
             dead ? "-" : reqText(ctx->request()).c_str());
    } else {
      printf("bad-op\n--\n");
    }
  }
  fflush(stdout);
  return 0;
}
