// Link-level interposition of the system calls and clocks muduo uses, for the drivers
// that script or record what the environment decides.  Include in exactly ONE
// translation unit of a driver.  Calls on descriptors the driver did not register pass
// straight through to libc.
#ifndef VERIF_HARNESS_INTERPOSE_H
#define VERIF_HARNESS_INTERPOSE_H
#ifdef VERIF_DETSCHED_OWNS_POLL
#error "include harness/interpose.h BEFORE harness/sched/detsched.h"
#endif

#include <dlfcn.h>
#include <errno.h>
#include <poll.h>
#include <stdarg.h>
#include <stdint.h>
#include <stdio.h>
#include <stdlib.h>
#include <string.h>
#include <sys/epoll.h>
#include <sys/eventfd.h>
#include <sys/socket.h>
#include <sys/time.h>
#include <sys/timerfd.h>
#include <sys/uio.h>
#include <time.h>
#include <unistd.h>

#include <deque>
#include <map>
#include <set>
#include <string>
#include <vector>

namespace vi {

// ---- real functions
template <typename F> F real(const char* name) {
  void* p = dlsym(RTLD_NEXT, name);
  if (!p) { fprintf(stderr, "interpose: no real %s\n", name); _exit(3); }
  return reinterpret_cast<F>(p);
}
#define VI_REAL(ret, name, ...) \
  typedef ret (*name##_fn)(__VA_ARGS__); \
  static name##_fn real_##name = ::vi::real<name##_fn>(#name)

// ---- virtual clock
struct Clock {
  bool virt;
  int64_t nowUs;          // microseconds since the epoch
  Clock() : virt(false), nowUs(1700000000LL * 1000000LL) {}
};
inline Clock& clock() { static Clock c; return c; }
// scripted results of `time()` (seconds), consumed in call order before the virtual clock is consulted,
// and an optional recorder called with every value `time()` returns (both unused unless a driver sets them)
inline std::deque<int64_t>& timeScript() { static std::deque<int64_t> q; return q; }
typedef void (*TimeRecorder)(int64_t seconds);
inline TimeRecorder& timeRecorder() { static TimeRecorder r = NULL; return r; }
// optional (timer driver): called on every read of the virtual clock through gettimeofday(), before the
// value is taken; it may advance the clock (clock jitter between two reads) and record the reading
typedef void (*ClockReadHook)();
inline ClockReadHook& clockReadHook() { static ClockReadHook h = NULL; return h; }

// ---- timer descriptors (timerfd_create'd by muduo): virtual alarm
struct TimerFd {
  bool armed;
  int64_t alarmUs;
  TimerFd() : armed(false), alarmUs(0) {}
};
inline std::map<int, TimerFd>& timerfds() { static std::map<int, TimerFd> m; return m; }
inline std::set<int>& eventfds() { static std::set<int> s; return s; }

// ---- scripted results per descriptor
struct Res {        // one scripted result
  enum Kind { FULL, COUNT, ERR } kind;
  long n;           // COUNT: bytes, ERR: errno
  Res() : kind(FULL), n(0) {}
  Res(Kind k, long v) : kind(k), n(v) {}
};
struct FdScript {
  std::deque<Res> writes, readvs;
  // called to make room when the kernel buffer is full (drain the peer side)
  void (*drainPeer)(int fd);
  bool record;
  FdScript() : drainPeer(NULL), record(true) {}
};
inline std::map<int, FdScript>& scripts() { static std::map<int, FdScript> m; return m; }

// ---- recorder: lines the driver prints (environment lines start with "< ")
inline void (*&emit())(const std::string&) { static void (*f)(const std::string&) = NULL; return f; }
inline void out(const std::string& s) { if (emit()) emit()(s); }

inline const char* errnoName(int e) {
  switch (e) {
    case EAGAIN: return "EAGAIN"; case EINTR: return "EINTR"; case EPIPE: return "EPIPE";
    case ECONNRESET: return "ECONNRESET"; case EMFILE: return "EMFILE"; case ECONNABORTED: return "ECONNABORTED";
    case ECONNREFUSED: return "ECONNREFUSED"; case ENETUNREACH: return "ENETUNREACH"; case EINPROGRESS: return "EINPROGRESS";
    case EBADF: return "EBADF"; case ENOTCONN: return "ENOTCONN"; case EINVAL: return "EINVAL";
    default: { static char buf[16]; snprintf(buf, sizeof buf, "E%d", e); return buf; }
  }
}
inline int errnoValue(const std::string& s) {
  if (s == "EAGAIN") return EAGAIN; if (s == "EINTR") return EINTR; if (s == "EPIPE") return EPIPE;
  if (s == "ECONNRESET") return ECONNRESET; if (s == "EMFILE") return EMFILE; if (s == "ECONNABORTED") return ECONNABORTED;
  if (s == "ECONNREFUSED") return ECONNREFUSED; if (s == "ENETUNREACH") return ENETUNREACH;
  if (s == "EINPROGRESS") return EINPROGRESS; if (s == "EBADF") return EBADF; if (s == "ENOTCONN") return ENOTCONN;
  if (s.size() > 1 && s[0] == 'E') return atoi(s.c_str() + 1);
  return -1;
}

// role names of descriptors for poll records
inline std::map<int, std::string>& roles() { static std::map<int, std::string> m; return m; }
// optional: a driver may want poll results withheld/reordered; by default recorded only
typedef void (*PollRecorder)(const std::vector<std::pair<int, int> >& fdRevents);
inline PollRecorder& pollRecorder() { static PollRecorder r = NULL; return r; }
// epoll: data.ptr -> fd translation supplied by the driver (Channel*::fd())
typedef int (*PtrToFd)(void* ptr);
inline PtrToFd& ptrToFd() { static PtrToFd f = NULL; return f; }

// optional hooks for a scheduler (harness/sched/detsched.h installs them in ds::init()): when set, the
// hook performs the poll/epoll_wait (through the real function it is handed) instead of a direct call;
// results are recorded exactly as before.  eventfdWriteHook is called before every write to an eventfd
// created through the wrapper below.
typedef int (*RealPollFn)(struct pollfd*, nfds_t, int);
typedef int (*PollHook)(struct pollfd*, nfds_t, int, RealPollFn);
inline PollHook& pollHook() { static PollHook h = NULL; return h; }
typedef int (*RealEpollFn)(int, struct epoll_event*, int, int);
typedef int (*EpollHook)(int, struct epoll_event*, int, int, RealEpollFn);
inline EpollHook& epollHook() { static EpollHook h = NULL; return h; }
typedef void (*EventfdWriteHook)(int fd);
inline EventfdWriteHook& eventfdWriteHook() { static EventfdWriteHook h = NULL; return h; }

// ---- socket-boundary hooks (all optional; a NULL hook or the result kPass means: do the real call).
// Used by the client / acceptor drivers to script or record socket(), connect(), accept4(),
// getsockopt(SO_ERROR), getsockname()/getpeername(), and to observe close()/shutdown()/setsockopt().
enum { kPass = -2 };
struct SockHooks {
  int (*socket)(int domain, int type, int protocol);
  int (*connect)(int fd, const struct sockaddr* addr, socklen_t len);
  int (*accept4)(int fd, struct sockaddr* addr, socklen_t* len, int flags);
  int (*getsockopt)(int fd, int level, int optname, void* optval, socklen_t* optlen);
  int (*getsockname)(int fd, struct sockaddr* addr, socklen_t* len);
  int (*getpeername)(int fd, struct sockaddr* addr, socklen_t* len);
  void (*onClose)(int fd);                            // before the descriptor is closed
  bool (*onShutdown)(int fd, int how);                // true: handled (nothing else is printed)
  void (*onSetsockopt)(int fd, int level, int optname);
  SockHooks() : socket(NULL), connect(NULL), accept4(NULL), getsockopt(NULL), getsockname(NULL), getpeername(NULL),
                onClose(NULL), onShutdown(NULL), onSetsockopt(NULL) {}
};
inline SockHooks& sockHooks() { static SockHooks h; return h; }
// one-shot bits OR-ed into the revents the poller reports for a descriptor (only when it is reported at all)
inline std::map<int, int>& reventsOr() { static std::map<int, int> m; return m; }
// number of coming poll()/epoll_wait() calls that fail with EINTR instead of being made (0 unless a driver sets it);
// an interrupted call is recorded as an empty result plus the oracle-only line `# poll EINTR`
inline int& pollEintr() { static int n = 0; return n; }
inline bool takePollEintr() {
  if (pollEintr() <= 0) return false;
  --pollEintr();
  out("# poll EINTR");
  if (pollRecorder()) { std::vector<std::pair<int, int> > v; pollRecorder()(v); }
  return true;
}

// make a virtual timer descriptor readable now
inline void fireTimerFd(int fd) {
  VI_REAL(int, timerfd_settime, int, int, const struct itimerspec*, struct itimerspec*);
  struct itimerspec v; memset(&v, 0, sizeof v);
  v.it_value.tv_nsec = 1;
  real_timerfd_settime(fd, 0, &v, NULL);
  struct pollfd p; p.fd = fd; p.events = POLLIN; p.revents = 0;
  VI_REAL(int, poll, struct pollfd*, nfds_t, int);
  real_poll(&p, 1, 1000);
}

// advance the virtual clock; timers whose alarm is reached become readable
inline void advance(int64_t us) {
  clock().nowUs += us;
  for (std::map<int, TimerFd>::iterator it = timerfds().begin(); it != timerfds().end(); ++it) {
    if (it->second.armed && it->second.alarmUs <= clock().nowUs) {
      it->second.armed = false;
      fireTimerFd(it->first);
    }
  }
}

}  // namespace vi

extern "C" {

int gettimeofday(struct timeval* tv, void* tz) __THROW {
  VI_REAL(int, gettimeofday, struct timeval*, void*);
  if (vi::clock().virt && tv) {
    if (vi::clockReadHook()) vi::clockReadHook()();
    tv->tv_sec = static_cast<time_t>(vi::clock().nowUs / 1000000);
    tv->tv_usec = static_cast<suseconds_t>(vi::clock().nowUs % 1000000);
    return 0;
  }
  return real_gettimeofday(tv, tz);
}

time_t time(time_t* t) __THROW {
  VI_REAL(time_t, time, time_t*);
  if (!vi::timeScript().empty()) {
    time_t v = static_cast<time_t>(vi::timeScript().front());
    vi::timeScript().pop_front();
    if (t) *t = v;
    if (vi::timeRecorder()) vi::timeRecorder()(v);
    return v;
  }
  if (vi::clock().virt) {
    time_t v = static_cast<time_t>(vi::clock().nowUs / 1000000);
    if (t) *t = v;
    if (vi::timeRecorder()) vi::timeRecorder()(v);
    return v;
  }
  return real_time(t);
}

int timerfd_create(int clockid, int flags) __THROW {
  VI_REAL(int, timerfd_create, int, int);
  int fd = real_timerfd_create(clockid, flags);
  if (fd >= 0 && vi::clock().virt) vi::timerfds()[fd] = vi::TimerFd();
  return fd;
}

int timerfd_settime(int fd, int flags, const struct itimerspec* nv, struct itimerspec* ov) __THROW {
  VI_REAL(int, timerfd_settime, int, int, const struct itimerspec*, struct itimerspec*);
  std::map<int, vi::TimerFd>::iterator it = vi::timerfds().find(fd);
  if (it == vi::timerfds().end()) return real_timerfd_settime(fd, flags, nv, ov);
  int64_t rel = static_cast<int64_t>(nv->it_value.tv_sec) * 1000000 + nv->it_value.tv_nsec / 1000;
  char buf[96];
  if (rel == 0 && nv->it_value.tv_nsec == 0) {
    it->second.armed = false;
    snprintf(buf, sizeof buf, "< arm off");
  } else {
    it->second.armed = true;
    it->second.alarmUs = vi::clock().nowUs + rel;
    snprintf(buf, sizeof buf, "< arm %lld", static_cast<long long>(static_cast<int64_t>(nv->it_value.tv_sec) * 1000000000LL + nv->it_value.tv_nsec));
  }
  vi::out(buf);
  // the real descriptor stays disarmed; `advance` makes it readable when the alarm is reached
  struct itimerspec off; memset(&off, 0, sizeof off);
  if (ov) memset(ov, 0, sizeof *ov);
  return real_timerfd_settime(fd, 0, &off, NULL);
}

int eventfd(unsigned int initval, int flags) __THROW {
  VI_REAL(int, eventfd, unsigned int, int);
  int fd = real_eventfd(initval, flags);
  if (fd >= 0) vi::eventfds().insert(fd);
  return fd;
}

ssize_t write(int fd, const void* buf, size_t count) {
  VI_REAL(ssize_t, write, int, const void*, size_t);
  if (vi::eventfdWriteHook() && vi::eventfds().count(fd)) vi::eventfdWriteHook()(fd);
  std::map<int, vi::FdScript>::iterator it = vi::scripts().find(fd);
  if (it == vi::scripts().end()) return real_write(fd, buf, count);
  vi::FdScript& s = it->second;
  vi::Res r;
  if (!s.writes.empty()) { r = s.writes.front(); s.writes.pop_front(); }
  char line[96];
  if (r.kind == vi::Res::ERR) {
    snprintf(line, sizeof line, "< write %zu %s", count, vi::errnoName(static_cast<int>(r.n)));
    if (s.record) vi::out(line);
    errno = static_cast<int>(r.n);
    return -1;
  }
  size_t want = (r.kind == vi::Res::FULL) ? count : (static_cast<size_t>(r.n) < count ? static_cast<size_t>(r.n) : count);
  if (r.kind == vi::Res::COUNT && r.n < 0)   // relative: all but -n bytes of what was asked for
    want = count > static_cast<size_t>(-r.n) ? count - static_cast<size_t>(-r.n) : 0;
  size_t done = 0;
  int err = 0;
  while (done < want) {
    ssize_t k = real_write(fd, static_cast<const char*>(buf) + done, want - done);
    if (k > 0) { done += static_cast<size_t>(k); continue; }
    if (k < 0 && (errno == EAGAIN || errno == EINTR) && s.drainPeer) { s.drainPeer(fd); continue; }
    err = errno;
    break;
  }
  if (done == 0 && err != 0 && want > 0) {
    snprintf(line, sizeof line, "< write %zu %s", count, vi::errnoName(err));
    if (s.record) vi::out(line);
    errno = err;
    return -1;
  }
  snprintf(line, sizeof line, "< write %zu %zu", count, done);
  if (s.record) vi::out(line);
  return static_cast<ssize_t>(done);
}

ssize_t readv(int fd, const struct iovec* iov, int iovcnt) {
  VI_REAL(ssize_t, readv, int, const struct iovec*, int);
  std::map<int, vi::FdScript>::iterator it = vi::scripts().find(fd);
  if (it == vi::scripts().end()) return real_readv(fd, iov, iovcnt);
  vi::FdScript& s = it->second;
  vi::Res r;
  if (!s.readvs.empty()) { r = s.readvs.front(); s.readvs.pop_front(); }
  char line[96];
  ssize_t n;
  if (r.kind == vi::Res::ERR) {
    errno = static_cast<int>(r.n);
    n = -1;
  } else if (r.kind == vi::Res::COUNT) {
    // shorten the request to at most r.n bytes
    struct iovec v[2];
    size_t left = static_cast<size_t>(r.n);
    int cnt = 0;
    for (int i = 0; i < iovcnt && i < 2 && left > 0; ++i) {
      v[cnt] = iov[i];
      if (v[cnt].iov_len > left) v[cnt].iov_len = left;
      left -= v[cnt].iov_len;
      ++cnt;
    }
    if (cnt == 0) { errno = EAGAIN; n = -1; }
    else n = real_readv(fd, v, cnt);
  } else {
    n = real_readv(fd, iov, iovcnt);
  }
  if (n < 0) snprintf(line, sizeof line, "< readv %s", vi::errnoName(errno));
  else snprintf(line, sizeof line, "< readv %zd", n);
  int saved = errno;
  if (s.record) vi::out(line);
  errno = saved;
  return n;
}

int shutdown(int fd, int how) __THROW {
  VI_REAL(int, shutdown, int, int);
  if (vi::sockHooks().onShutdown && vi::sockHooks().onShutdown(fd, how)) return real_shutdown(fd, how);
  if (vi::scripts().count(fd) && how == SHUT_WR) vi::out("sys shutdownWr");
  return real_shutdown(fd, how);
}

int close(int fd) {
  VI_REAL(int, close, int);
  if (vi::sockHooks().onClose) vi::sockHooks().onClose(fd);
  if (vi::scripts().count(fd)) { vi::out("sys close"); vi::scripts().erase(fd); }
  vi::timerfds().erase(fd);
  vi::eventfds().erase(fd);
  return real_close(fd);
}

int epoll_wait(int epfd, struct epoll_event* events, int maxevents, int timeout) {
  VI_REAL(int, epoll_wait, int, struct epoll_event*, int, int);
  if (vi::takePollEintr()) { errno = EINTR; return -1; }
  int n = vi::epollHook() ? vi::epollHook()(epfd, events, maxevents, timeout, real_epoll_wait)
                          : real_epoll_wait(epfd, events, maxevents, timeout);
  if (n > 0 && !vi::reventsOr().empty() && vi::ptrToFd()) {
    for (int i = 0; i < n; ++i) {
      std::map<int, int>::iterator it = vi::reventsOr().find(vi::ptrToFd()(events[i].data.ptr));
      if (it != vi::reventsOr().end()) { events[i].events |= static_cast<uint32_t>(it->second); vi::reventsOr().erase(it); }
    }
  }
  if (n > 0 && vi::pollRecorder() && vi::ptrToFd()) {
    std::vector<std::pair<int, int> > v;
    for (int i = 0; i < n; ++i) v.push_back(std::make_pair(vi::ptrToFd()(events[i].data.ptr), static_cast<int>(events[i].events)));
    vi::pollRecorder()(v);
  } else if (vi::pollRecorder() && vi::ptrToFd()) {
    std::vector<std::pair<int, int> > v;
    vi::pollRecorder()(v);
  }
  return n;
}

int poll(struct pollfd* fds, nfds_t nfds, int timeout) {
  VI_REAL(int, poll, struct pollfd*, nfds_t, int);
  if (vi::takePollEintr()) { errno = EINTR; return -1; }
  int n = vi::pollHook() ? vi::pollHook()(fds, nfds, timeout, real_poll) : real_poll(fds, nfds, timeout);
  if (n > 0 && !vi::reventsOr().empty()) {
    for (nfds_t i = 0; i < nfds; ++i) {
      if (fds[i].revents <= 0) continue;
      std::map<int, int>::iterator it = vi::reventsOr().find(fds[i].fd);
      if (it != vi::reventsOr().end()) { fds[i].revents = static_cast<short>(fds[i].revents | it->second); vi::reventsOr().erase(it); }
    }
  }
  if (vi::pollRecorder()) {
    std::vector<std::pair<int, int> > v;
    for (nfds_t i = 0; n > 0 && i < nfds; ++i)
      if (fds[i].revents > 0) v.push_back(std::make_pair(fds[i].fd, static_cast<int>(fds[i].revents)));
    vi::pollRecorder()(v);
  }
  return n;
}

int socket(int domain, int type, int protocol) __THROW {
  VI_REAL(int, socket, int, int, int);
  if (vi::sockHooks().socket) { int r = vi::sockHooks().socket(domain, type, protocol); if (r != vi::kPass) return r; }
  return real_socket(domain, type, protocol);
}

int connect(int fd, const struct sockaddr* addr, socklen_t len) {
  VI_REAL(int, connect, int, const struct sockaddr*, socklen_t);
  if (vi::sockHooks().connect) { int r = vi::sockHooks().connect(fd, addr, len); if (r != vi::kPass) return r; }
  return real_connect(fd, addr, len);
}

int accept4(int fd, struct sockaddr* addr, socklen_t* len, int flags) {
  VI_REAL(int, accept4, int, struct sockaddr*, socklen_t*, int);
  if (vi::sockHooks().accept4) { int r = vi::sockHooks().accept4(fd, addr, len, flags); if (r != vi::kPass) return r; }
  return real_accept4(fd, addr, len, flags);
}

int accept(int fd, struct sockaddr* addr, socklen_t* len) {
  VI_REAL(int, accept, int, struct sockaddr*, socklen_t*);
  if (vi::sockHooks().accept4) { int r = vi::sockHooks().accept4(fd, addr, len, 0); if (r != vi::kPass) return r; }
  return real_accept(fd, addr, len);
}

int getsockopt(int fd, int level, int optname, void* optval, socklen_t* optlen) __THROW {
  VI_REAL(int, getsockopt, int, int, int, void*, socklen_t*);
  if (vi::sockHooks().getsockopt) { int r = vi::sockHooks().getsockopt(fd, level, optname, optval, optlen); if (r != vi::kPass) return r; }
  return real_getsockopt(fd, level, optname, optval, optlen);
}

int setsockopt(int fd, int level, int optname, const void* optval, socklen_t optlen) __THROW {
  VI_REAL(int, setsockopt, int, int, int, const void*, socklen_t);
  if (vi::sockHooks().onSetsockopt) vi::sockHooks().onSetsockopt(fd, level, optname);
  return real_setsockopt(fd, level, optname, optval, optlen);
}

int getsockname(int fd, struct sockaddr* addr, socklen_t* len) __THROW {
  VI_REAL(int, getsockname, int, struct sockaddr*, socklen_t*);
  if (vi::sockHooks().getsockname) { int r = vi::sockHooks().getsockname(fd, addr, len); if (r != vi::kPass) return r; }
  return real_getsockname(fd, addr, len);
}

int getpeername(int fd, struct sockaddr* addr, socklen_t* len) __THROW {
  VI_REAL(int, getpeername, int, struct sockaddr*, socklen_t*);
  if (vi::sockHooks().getpeername) { int r = vi::sockHooks().getpeername(fd, addr, len); if (r != vi::kPass) return r; }
  return real_getpeername(fd, addr, len);
}

}  // extern "C"

#endif  // VERIF_HARNESS_INTERPOSE_H
