// C++ side of `driver calendar` (C20): the real muduo Date / TimeZone / Timestamp / InetAddress /
// Endian functions behind the line protocol of lean/Driver/CalendarDrv.lean.
//
// Per input line one block, closed by `--`:
//   plain lines  – results of the muduo functions (compared with the Lean model byte for byte)
//   `< ...`      – what the environment supplied (zone file bytes, glibc's IPv6 text): input of the model
//   `# glibc ..` – what glibc answers to the same question (gmtime_r, timegm, localtime_r under TZ=:<file>,
//                  strftime, inet_ntop, inet_pton, htobe*): a THIRD PARTY used as test oracle by the plug-in,
//                  never compared with the model
#define _GNU_SOURCE 1
#include "muduo/base/Date.h"
#include "muduo/base/TimeZone.h"
// The loaded zone table (`TimeZone::Data`: transitions, local time types, designations, footer) is defined in
// TimeZone.cc only and no public function shows it.  To DUMP it, this translation unit compiles /repo's current
// muduo/base/TimeZone.cc itself (the same source the library is built from; libmuduo.a's copy is then not linked: an
// archive member is only pulled for a symbol that is still undefined) and reads `data_` through the friend that
// TimeZone.h declares for tests (`TimeZoneTestPeer`).
#include "muduo/base/TimeZone.cc"
#include "muduo/base/Timestamp.h"
#include "muduo/base/Logging.h"
#include "muduo/net/InetAddress.h"
#include "muduo/net/SocketsOps.h"
#include "muduo/net/Endian.h"
#include "common.h"

#include <arpa/inet.h>
#include <endian.h>
#include <fcntl.h>
#include <string.h>
#include <sys/mman.h>
#include <time.h>
#include <unistd.h>

#include <fstream>
#include <memory>

using namespace vh;
using muduo::Date;
using muduo::DateTime;
using muduo::TimeZone;
using muduo::Timestamp;
using muduo::net::InetAddress;

static void nullOutput(const char*, int) {}
static void nullFlush() {}

static long long num(const std::string& s) { return strtoll(s.c_str(), NULL, 10); }
static unsigned long long unum(const std::string& s) { return strtoull(s.c_str(), NULL, 10); }

static uint64_t mix(uint64_t h, long long v) { return h * 1099511628211ULL + static_cast<uint64_t>(v); }

static std::unique_ptr<TimeZone> g_zone;
static bool g_haveTz = false;

static void useTz(const char* path) {
  if (path) {
    std::string v = std::string(":") + path;
    setenv("TZ", v.c_str(), 1);
    g_haveTz = true;
  } else {
    setenv("TZ", "UTC0", 1);
    g_haveTz = false;
  }
  tzset();
}

static bool slurp(const std::string& path, std::string* out) {
  std::ifstream f(path.c_str(), std::ios::binary);
  if (!f) return false;
  out->assign(std::istreambuf_iterator<char>(f), std::istreambuf_iterator<char>());
  return true;
}

namespace muduo {
class TimeZoneTestPeer {
 public:
  static const TimeZone::Data* data(const TimeZone& tz) { return tz.data_.get(); }
};
}  // namespace muduo

// what `loadZoneFile` printed to stderr (the text of the exception its handler caught), by kind:
//   |<text>|    a std::logic_error thrown by the reader itself ("bad head", "no enough data", "bad int32_t data", ...)
//   |length|    std::length_error of vector::reserve, |range| std::out_of_range of vector::at
//   |rejected|  nothing was printed: readDataBlock returned false
static std::string errKind(const std::string& text) {
  std::string t = text;
  while (!t.empty() && (t[t.size() - 1] == '\n' || t[t.size() - 1] == '\r')) t.erase(t.size() - 1);
  if (t.empty()) return "rejected";
  if (t.compare(0, 15, "vector::reserve") == 0) return "length";
  if (t.compare(0, 22, "vector::_M_range_check") == 0) return "range";
  return t;
}

// `zone ok` + the loaded table, or `zone invalid` + why
static void loadZone(const char* path) {
  fflush(stderr);
  int saved = dup(2);
  int cap = memfd_create("stderr", 0);
  if (saved >= 0 && cap >= 0) dup2(cap, 2);
  g_zone.reset(new TimeZone(TimeZone::loadZoneFile(path)));
  fflush(stderr);
  std::string text;
  if (saved >= 0 && cap >= 0) {
    dup2(saved, 2);
    char buf[512];
    ssize_t n;
    lseek(cap, 0, SEEK_SET);
    while ((n = read(cap, buf, sizeof buf)) > 0) text.append(buf, static_cast<size_t>(n));
  }
  if (saved >= 0) close(saved);
  if (cap >= 0) close(cap);
  if (!g_zone->valid()) {
    printf("zone invalid\nerr |%s|\n--\n", errKind(text).c_str());
    return;
  }
  const TimeZone::Data* d = muduo::TimeZoneTestPeer::data(*g_zone);
  printf("zone ok\ntab n %zu types %zu\n", d->transitions.size(), d->localtimes.size());
  for (size_t i = 0; i < d->transitions.size(); ++i)
    printf("tr %zu %lld %lld %d\n", i, static_cast<long long>(d->transitions[i].utctime),
           static_cast<long long>(d->transitions[i].localtime), d->transitions[i].localtimeIdx);
  for (size_t i = 0; i < d->localtimes.size(); ++i)
    printf("lt %zu %d %d %d\n", i, d->localtimes[i].utcOffset, d->localtimes[i].isDst ? 1 : 0, d->localtimes[i].desigIdx);
  printf("abbr |%s|\ntz |%s|\n--\n", toHex(d->abbreviation).c_str(), toHex(d->tzstring).c_str());
}

static DateTime mkdt(const std::vector<std::string>& w, size_t i) {
  return DateTime(static_cast<int>(num(w[i])), static_cast<int>(num(w[i+1])), static_cast<int>(num(w[i+2])),
                  static_cast<int>(num(w[i+3])), static_cast<int>(num(w[i+4])), static_cast<int>(num(w[i+5])));
}

int main() {
  muduo::Logger::setOutput(nullOutput);
  muduo::Logger::setFlush(nullFlush);
  setvbuf(stdout, NULL, _IOFBF, 1 << 20);
  useTz(NULL);
  std::string line;
  while (std::getline(std::cin, line)) {
    std::vector<std::string> w = words(line);
    if (w.empty()) continue;
    const std::string& op = w[0];
    if (op == "jdn" && w.size() == 4) {
      int y = static_cast<int>(num(w[1])), m = static_cast<int>(num(w[2])), d = static_cast<int>(num(w[3]));
      Date date(y, m, d);
      struct tm tmv; memset(&tmv, 0, sizeof tmv);
      tmv.tm_year = y - 1900; tmv.tm_mon = m - 1; tmv.tm_mday = d;
      time_t t = timegm(&tmv);
      // floor division: t is a multiple of 86400 for a normalised date
      long long days = (t >= 0 ? t / 86400 : -((-t + 86399) / 86400));
      printf("# glibc %lld %d\n", days + 2440588, tmv.tm_wday);
      printf("jdn %d wd %d\n--\n", date.julianDayNumber(), date.weekDay());
    } else if (op == "ymd" && w.size() == 2) {
      int j = static_cast<int>(num(w[1]));
      Date date(j);
      Date::YearMonthDay x = date.yearMonthDay();
      time_t t = static_cast<time_t>(j - 2440588LL) * 86400;
      struct tm tmv; gmtime_r(&t, &tmv);
      printf("# glibc %d %d %d %d\n", tmv.tm_year + 1900, tmv.tm_mon + 1, tmv.tm_mday, tmv.tm_wday);
      printf("ymd %d %d %d wd %d valid %d iso |%s|\n--\n", x.year, x.month, x.day, date.weekDay(), date.valid() ? 1 : 0,
             date.toIsoString().c_str());
    } else if (op == "days" && w.size() == 3) {
      // digest over every day j0 <= j < j1 of (j, year, month, day, weekDay, julianDayNumber(Date(year,month,day)))
      long long j0 = num(w[1]), j1 = num(w[2]);
      uint64_t h = 14695981039346656037ULL;
      long long cnt = 0;
      for (long long j = j0; j < j1; ++j) {
        Date date(static_cast<int>(j));
        Date::YearMonthDay x = date.yearMonthDay();
        Date back(x.year, x.month, x.day);
        h = mix(h, j); h = mix(h, x.year); h = mix(h, x.month); h = mix(h, x.day);
        h = mix(h, date.weekDay()); h = mix(h, back.julianDayNumber());
        ++cnt;
      }
      printf("days %lld %llu\n--\n", cnt, static_cast<unsigned long long>(h));
    } else if (op == "break" && w.size() == 2) {
      int64_t t = num(w[1]);
      DateTime dt = TimeZone::toUtcTime(t);
      time_t tt = static_cast<time_t>(t);
      struct tm tmv; gmtime_r(&tt, &tmv);
      printf("# glibc %d %d %d %d %d %d\n", tmv.tm_year + 1900, tmv.tm_mon + 1, tmv.tm_mday, tmv.tm_hour, tmv.tm_min, tmv.tm_sec);
      printf("break %d %d %d %d %d %d back %lld iso |%s|\n--\n", dt.year, dt.month, dt.day, dt.hour, dt.minute, dt.second,
             static_cast<long long>(TimeZone::fromUtcTime(dt)), dt.toIsoString().c_str());
    } else if (op == "unbreak" && w.size() == 7) {
      DateTime dt = mkdt(w, 1);
      struct tm tmv; memset(&tmv, 0, sizeof tmv);
      tmv.tm_year = dt.year - 1900; tmv.tm_mon = dt.month - 1; tmv.tm_mday = dt.day;
      tmv.tm_hour = dt.hour; tmv.tm_min = dt.minute; tmv.tm_sec = dt.second;
      printf("# glibc %lld\n", static_cast<long long>(timegm(&tmv)));
      printf("unbreak %lld\n--\n", static_cast<long long>(TimeZone::fromUtcTime(dt)));
    } else if (op == "ts" && w.size() == 2) {
      int64_t us = num(w[1]);
      Timestamp ts(us);
      time_t tt = static_cast<time_t>(us / 1000000);
      struct tm tmv; gmtime_r(&tt, &tmv);
      char buf[64]; strftime(buf, sizeof buf, "%Y%m%d %H:%M:%S", &tmv);
      printf("# glibc |%s|\n", buf);
      printf("ts |%s| |%s| |%s|\n--\n", ts.toString().c_str(), ts.toFormattedString(true).c_str(),
             ts.toFormattedString(false).c_str());
    } else if (op == "zone" && w.size() == 2) {
      std::string bytes;
      if (!slurp(w[1], &bytes)) { printf("zone unreadable\n--\n"); continue; }
      printf("< bytes %s\n", toHex(bytes).c_str());
      useTz(w[1].c_str());
      loadZone(w[1].c_str());
    } else if (op == "zonebytes" && (w.size() == 2 || w.size() == 1)) {   // no hex word: the empty file
      std::string bytes;
      if (w.size() == 2 && !parseHex(w[1], &bytes)) { printf("bad-op\n--\n"); continue; }
      int fd = memfd_create("zone", 0);
      if (fd < 0 || write(fd, bytes.data(), bytes.size()) != static_cast<ssize_t>(bytes.size())) { printf("zone unreadable\n--\n"); continue; }
      char path[64]; snprintf(path, sizeof path, "/proc/self/fd/%d", fd);
      useTz(NULL);
      loadZone(path);
      close(fd);
    } else if (op == "fixedzone" && w.size() == 2) {
      useTz(NULL);
      g_zone.reset(new TimeZone(static_cast<int>(num(w[1])), "FIX"));
      printf("zone ok\n--\n");
    } else if (op == "probe" && w.size() == 2) {
      if (!g_zone || !g_zone->valid()) { printf("nozone\n--\n"); continue; }
      int64_t t = num(w[1]);
      int off = 0;
      DateTime lt = g_zone->toLocalTime(t, &off);
      if (g_haveTz) {
        time_t tt = static_cast<time_t>(t);
        struct tm tmv; localtime_r(&tt, &tmv);
        printf("# glibc %d %d %d %d %d %d %ld %d\n", tmv.tm_year + 1900, tmv.tm_mon + 1, tmv.tm_mday, tmv.tm_hour, tmv.tm_min,
               tmv.tm_sec, tmv.tm_gmtoff, tmv.tm_isdst);
      }
      printf("lt %d %d %d %d %d %d off %d f0 %lld f1 %lld\n--\n", lt.year, lt.month, lt.day, lt.hour, lt.minute, lt.second, off,
             static_cast<long long>(g_zone->fromLocalTime(lt, false)), static_cast<long long>(g_zone->fromLocalTime(lt, true)));
    } else if (op == "fromlocal" && w.size() == 7) {
      if (!g_zone || !g_zone->valid()) { printf("nozone\n--\n"); continue; }
      DateTime dt = mkdt(w, 1);
      printf("from %lld %lld\n--\n", static_cast<long long>(g_zone->fromLocalTime(dt, false)),
             static_cast<long long>(g_zone->fromLocalTime(dt, true)));
    } else if (op == "ip4" && w.size() == 3) {
      uint32_t a = static_cast<uint32_t>(unum(w[1]));
      uint16_t p = static_cast<uint16_t>(unum(w[2]));
      struct sockaddr_in sa; memset(&sa, 0, sizeof sa);
      sa.sin_family = AF_INET;
      sa.sin_addr.s_addr = htonl(a);   // glibc, not the helper under test
      sa.sin_port = htons(p);
      InetAddress addr(sa);
      muduo::string ip = addr.toIp(), ipport = addr.toIpPort();
      InetAddress again(ip, p);   // parses the text again
      char nt[64] = ""; inet_ntop(AF_INET, &sa.sin_addr, nt, sizeof nt);
      struct in_addr back; memset(&back, 0, sizeof back);
      int rc = inet_pton(AF_INET, ip.c_str(), &back);
      printf("# glibc |%s| %d %u\n", nt, rc, ntohl(back.s_addr));
      printf("ip |%s| |%s| port %u back %u %u net %u %u\n--\n", ip.c_str(), ipport.c_str(), addr.port(),
             muduo::net::sockets::networkToHost32(again.ipv4NetEndian()), again.port(),
             ntohl(again.ipv4NetEndian()), ntohs(again.portNetEndian()));
    } else if (op == "parse4" && w.size() == 3) {
      uint16_t p = static_cast<uint16_t>(unum(w[2]));
      InetAddress addr(w[1], p);
      struct in_addr back; memset(&back, 0, sizeof back);
      int rc = inet_pton(AF_INET, w[1].c_str(), &back);
      printf("# glibc %d %u\n", rc, ntohl(back.s_addr));
      if (addr.family() == AF_INET)
        printf("parse %u %u |%s|\n--\n", ntohl(addr.ipv4NetEndian()), addr.port(), addr.toIpPort().c_str());
      else
        printf("parse v6\n--\n");
    } else if (op == "ip6" && (w.size() == 3 || w.size() == 4)) {
      uint16_t p = static_cast<uint16_t>(unum(w[2]));
      InetAddress addr(w[1], p, true);
      // 4th word: sin6_scope_id (what accept()/getpeername() return for link-local peers; InetAddress::setScopeId).
      // The text forms are those of inet_ntop: they do not show a scope and parse back with inet_pton.
      if (w.size() == 4) addr.setScopeId(static_cast<uint32_t>(unum(w[3])));
      const struct sockaddr_in6* s6 = reinterpret_cast<const struct sockaddr_in6*>(addr.getSockAddr());
      char nt[64] = ""; inet_ntop(AF_INET6, &s6->sin6_addr, nt, sizeof nt);
      printf("< v6 %s\n", nt);
      printf("ip6 |%s| |%s| port %u\n--\n", addr.toIp().c_str(), addr.toIpPort().c_str(), addr.port());
    } else if (op == "be" && w.size() == 3) {
      int bits = static_cast<int>(num(w[1]));
      uint64_t x = unum(w[2]);
      if (bits == 16) {
        uint16_t v = static_cast<uint16_t>(x), n = muduo::net::sockets::hostToNetwork16(v);
        std::string mem(reinterpret_cast<const char*>(&n), sizeof n);
        printf("# glibc %u\n", static_cast<unsigned>(htobe16(v)));
        printf("be %u %u mem %s\n--\n", static_cast<unsigned>(n), static_cast<unsigned>(muduo::net::sockets::networkToHost16(n)), toHex(mem).c_str());
      } else if (bits == 32) {
        uint32_t v = static_cast<uint32_t>(x), n = muduo::net::sockets::hostToNetwork32(v);
        std::string mem(reinterpret_cast<const char*>(&n), sizeof n);
        printf("# glibc %u\n", htobe32(v));
        printf("be %u %u mem %s\n--\n", n, muduo::net::sockets::networkToHost32(n), toHex(mem).c_str());
      } else if (bits == 64) {
        uint64_t v = x, n = muduo::net::sockets::hostToNetwork64(v);
        std::string mem(reinterpret_cast<const char*>(&n), sizeof n);
        printf("# glibc %llu\n", static_cast<unsigned long long>(htobe64(v)));
        printf("be %llu %llu mem %s\n--\n", static_cast<unsigned long long>(n),
               static_cast<unsigned long long>(muduo::net::sockets::networkToHost64(n)), toHex(mem).c_str());
      } else {
        printf("bad-op\n--\n");
      }
    } else {
      printf("bad-op\n--\n");
    }
  }
  fflush(stdout);
  return 0;
}
