// C08, first half: ThreadSanitizer scenarios for the cross-thread API.
//
//   race_scen <scenario> <iterations> <seed>        race_scen list
//
// One scenario = one operation of the property's cross-thread list (or a seeded mix of the
// operations of one class).  In every iteration the owning side is *active* (a loop thread that
// fires timers and runs functors, a connection that receives, echoes and is closed by its peer,
// pool workers that take tasks, a logging back-end that swaps buffers ...) while foreign threads,
// created after the objects exist (thread creation is the only edge owner -> foreign the harness
// adds), perform the operation back to back and then exit: the calls are their last synchronising
// actions, so no harness synchronisation can hide a missing happens-before edge inside muduo.
//
// The harness' own shared data is synchronised with std::atomic / std::mutex (class Gate), so a
// ThreadSanitizer report produced by this program is about muduo.  Reports go to stderr; the
// program prints `DONE <scenario>` and leaves through _exit (objects that would need a
// loop-thread destructor are leaked on purpose: destruction is the business of C02/C05/C12).
// A gate that does not open within 60 s prints `STUCK <where>` and exits 3 (inconclusive, never a
// verdict).  Built with -fno-access-control only to learn the port a TcpServer was bound to.
#include "muduo/base/AsyncLogging.h"
#include "muduo/base/BlockingQueue.h"
#include "muduo/base/BoundedBlockingQueue.h"
#include "muduo/base/CountDownLatch.h"
#include "muduo/base/Logging.h"
#include "muduo/base/ThreadPool.h"
#include "muduo/net/Buffer.h"
#include "muduo/net/EventLoop.h"
#include "muduo/net/EventLoopThread.h"
#include "muduo/net/InetAddress.h"
#include "muduo/net/SocketsOps.h"
#include "muduo/net/TcpClient.h"
#include "muduo/net/TcpConnection.h"
#include "muduo/net/TcpServer.h"
#include "muduo/net/Acceptor.h"

#include <atomic>
#include <chrono>
#include <condition_variable>
#include <functional>
#include <map>
#include <memory>
#include <mutex>
#include <string>
#include <thread>
#include <vector>

#include <arpa/inet.h>
#include <errno.h>
#include <netinet/in.h>
#include <poll.h>
#include <stdio.h>
#include <stdlib.h>
#include <string.h>
#include <sys/socket.h>
#include <unistd.h>

using namespace muduo;
using namespace muduo::net;

// ---------------------------------------------------------------------------------- plumbing

struct Rng {
  uint64_t s;
  Rng(uint64_t seed, uint64_t a, uint64_t b) : s(seed * 0x9E3779B97F4A7C15ULL + a * 0xBF58476D1CE4E5B9ULL + b * 0x94D049BB133111EBULL + 1) {}
  uint64_t next() { s += 0x9E3779B97F4A7C15ULL; uint64_t z = s; z = (z ^ (z >> 30)) * 0xBF58476D1CE4E5B9ULL; z = (z ^ (z >> 27)) * 0x94D049BB133111EBULL; return z ^ (z >> 31); }
  unsigned below(unsigned n) { return n ? static_cast<unsigned>(next() % n) : 0; }
};

// burn time without any synchronisation
static void spin(unsigned n) { for (volatile unsigned i = 0; i < n; ++i) {} }

static const char* g_scenario = "?";

// harness-side synchronisation (never used between a call under test and the end of its thread)
class Gate {
 public:
  Gate() : n_(0) {}
  // notify under the lock: the waiter may destroy the gate as soon as it owns the mutex again
  void open() { std::lock_guard<std::mutex> l(m_); ++n_; cv_.notify_all(); }
  void wait(const char* where, int need = 1) {
    std::unique_lock<std::mutex> l(m_);
    if (!cv_.wait_for(l, std::chrono::seconds(60), [this, need] { return n_ >= need; })) {
      printf("STUCK %s %s\n", g_scenario, where);
      fflush(stdout);
      _exit(3);
    }
  }
  int count() { std::lock_guard<std::mutex> l(m_); return n_; }
 private:
  std::mutex m_;
  std::condition_variable cv_;
  int n_;
};

static void foreign(int n, const std::function<void(int)>& f) {
  std::vector<std::thread> ts;
  for (int i = 0; i < n; ++i) ts.push_back(std::thread(f, i));
  for (size_t i = 0; i < ts.size(); ++i) ts[i].join();
}

static std::atomic<long> g_ran(0);
static void inc() { g_ran.fetch_add(1, std::memory_order_relaxed); }
static void nop() {}
static void busy() { spin(30000); inc(); }     // a task that is still running when stop() is called

static int g_iters = 1;
static uint64_t g_seed = 1;

// ---------------------------------------------------------------------------------- EventLoop

enum LoopOp { kRunInLoop, kQueueInLoop, kRunAt, kRunAfter, kRunEvery, kCancel, kQueueSize, kLoopOps };

struct LoopWorld {
  EventLoop* loop;
  std::mutex m;           // harness: hands a TimerId made by the loop thread to a foreign thread
  TimerId lastByOwner;
  std::atomic<int> ticks;
  LoopWorld() : loop(NULL), ticks(0) {}
  // owner-side activity: runs on the loop thread every 0.5 ms
  void tick() {
    int t = ++ticks;
    loop->queueInLoop(std::bind(nop));            // owner-thread queueing (callingPendingFunctors_ path)
    loop->runInLoop(std::bind(inc));
    TimerId id = loop->runAfter(0.001, std::bind(inc));
    if (t % 2) loop->cancel(id);
    (void)loop->queueSize();
    std::lock_guard<std::mutex> l(m);
    lastByOwner = loop->runAfter(0.002, std::bind(inc));
  }
};

static void loopCall(LoopWorld* w, LoopOp op, Rng& r) {
  EventLoop* loop = w->loop;
  switch (op) {
    case kRunInLoop: loop->runInLoop(std::bind(inc)); break;
    case kQueueInLoop: loop->queueInLoop(std::bind(inc)); break;
    case kRunAt: loop->runAt(addTime(Timestamp::now(), 0.0005 * r.below(4)), std::bind(inc)); break;
    case kRunAfter: loop->runAfter(0.0005 * r.below(4), std::bind(inc)); break;
    case kRunEvery: {
      TimerId id = loop->runEvery(0.0005, std::bind(inc));
      spin(r.below(20000));
      loop->cancel(id);
      break;
    }
    case kCancel: {
      TimerId id;
      if (r.below(2)) {
        id = loop->runAfter(r.below(2) ? 0.0 : 0.001, std::bind(inc));   // may be expiring right now
      } else {
        std::lock_guard<std::mutex> l(w->m);                              // a timer the loop thread made
        id = w->lastByOwner;
      }
      loop->cancel(id);
      break;
    }
    case kQueueSize: (void)loop->queueSize(); break;
    default: break;
  }
}

// ops: the operations foreign threads may perform (one = single-operation scenario)
static void loopScenario(const std::vector<LoopOp>& ops, int calls) {
  for (int it = 0; it < g_iters; ++it) {
    std::unique_ptr<EventLoopThread> lt(new EventLoopThread);
    LoopWorld w;
    w.loop = lt->startLoop();
    w.loop->runEvery(0.0005, std::bind(&LoopWorld::tick, &w));
    foreign(3, [&](int k) {
      Rng r(g_seed, it, k);
      for (int j = 0; j < calls; ++j) {
        loopCall(&w, ops[r.below(static_cast<unsigned>(ops.size()))], r);
        spin(r.below(3000));
      }
    });
    lt.reset();   // owner API: quit + join; `w` outlives the loop
  }
}

static void quitScenario() {
  for (int it = 0; it < g_iters; ++it) {
    Gate ready, release;
    std::mutex pm;
    EventLoop* lp = NULL;
    std::thread owner([&] {
      EventLoop loop;
      { std::lock_guard<std::mutex> l(pm); lp = &loop; }
      loop.runEvery(0.0005, std::bind(inc));
      ready.open();
      loop.loop();               // ended by a foreign quit()
      release.wait("quit:release");   // the loop object must outlive every quit() call (API contract)
    });
    ready.wait("quit:ready");
    EventLoop* loop;
    { std::lock_guard<std::mutex> l(pm); loop = lp; }
    foreign(2, [&](int k) {
      Rng r(g_seed, it, k);
      spin(r.below(200000));
      loop->queueInLoop(std::bind(inc));
      loop->quit();
    });
    release.open();
    owner.join();
  }
}

// ---------------------------------------------------------------------------------- TcpConnection

enum ConnOp { kSend, kForceClose, kForceCloseWithDelay, kStartRead, kStopRead, kShutdown, kConnOps };

// Observations that are not data races but are printed with the DONE line (the Python side decides).
// F26 regression detector: forceClose()/forceCloseWithDelay()/shutdown() used to test state_ and store
// kDisconnecting in two steps; a handleClose() of the loop thread in between (peer hang-up, uncorrelated with the
// foreign calls - that is why the seeded mix finds it and a forceClose()-only hammer does not: there the threads
// sit in the loop's mutex when handleClose() runs) revived the connection and it went down twice.  Measured on
// the unrepaired tree: non-zero counters in 8 of 12 runs of `TcpConnection::mix 100 <seed>`.
static std::atomic<long> g_doubleClose(0);   // close callback invoked a second time for one connection
static std::atomic<long> g_doubleDown(0);    // connection callback reported DOWN a second time

struct ConnWorld {
  EventLoop* loop;
  Gate up, down;
  std::atomic<long> bytesIn, writeCompletes, highWater;
  std::atomic<int> closes, downs;
  ConnWorld() : loop(NULL), bytesIn(0), writeCompletes(0), highWater(0), closes(0), downs(0) {}
  void onConnection(const TcpConnectionPtr& c) {
    if (c->connected()) { up.open(); return; }
    if (downs.fetch_add(1) > 0) ++g_doubleDown;
    down.open();
  }
  void onMessage(const TcpConnectionPtr& c, Buffer* b, Timestamp) {
    bytesIn += static_cast<long>(b->readableBytes());
    c->send(b);                                        // loop-thread send: echo
  }
  void onWriteComplete(const TcpConnectionPtr&) { ++writeCompletes; }
  void onHighWater(const TcpConnectionPtr&, size_t) { ++highWater; }
  void onClose(const TcpConnectionPtr& c) {
    // what TcpServer::removeConnectionInLoop does; a second close callback for the same connection is recorded
    // and not acted upon (TcpServer would fail `assert(n == 1)` / destroy twice)
    if (closes.fetch_add(1) > 0) { ++g_doubleClose; return; }
    loop->queueInLoop(std::bind(&TcpConnection::connectDestroyed, c));
  }
};

static char g_payload[4096];

static void connCall(const TcpConnectionPtr& c, ConnOp op, Rng& r, Buffer* scratch) {
  // sizes up to 3000 bytes against a 4 KiB socket send buffer and a peer that pauses reading: the connection's
  // output buffer, handleWrite(), the write-complete and high-water-mark paths are in use on the loop thread
  const int len = 1 + static_cast<int>(r.below(r.below(4) ? 60 : 3000));
  switch (op) {
    case kSend:
      switch (r.below(3)) {
        case 0: c->send(StringPiece(g_payload, len)); break;
        case 1: c->send(static_cast<const void*>(g_payload), len); break;
        default: scratch->append(g_payload, static_cast<size_t>(len)); c->send(scratch); break;
      }
      (void)c->connected();
      break;
    case kForceClose: c->forceClose(); break;
    case kForceCloseWithDelay: c->forceCloseWithDelay(0.0005 * r.below(4)); break;
    case kStartRead: c->startRead(); break;
    case kStopRead: c->stopRead(); break;
    case kShutdown: c->shutdown(); break;
    default: break;
  }
}

// `op`: the operation under test; kConnOps = seeded mix of all of them
static void connScenario(ConnOp op, int calls) {
  std::unique_ptr<EventLoopThread> lt(new EventLoopThread);
  EventLoop* loop = lt->startLoop();
  loop->runEvery(0.001, std::bind(inc));
  for (int it = 0; it < g_iters; ++it) {
    int sv[2];
    // both ends non-blocking: muduo needs it for sv[0]; the peer uses MSG_DONTWAIT anyway
    if (socketpair(AF_UNIX, SOCK_STREAM | SOCK_NONBLOCK | SOCK_CLOEXEC, 0, sv) != 0) { perror("socketpair"); _exit(2); }
    int sndbuf = 4096;
    ::setsockopt(sv[0], SOL_SOCKET, SO_SNDBUF, &sndbuf, sizeof sndbuf);
    ConnWorld w;
    w.loop = loop;
    InetAddress a(1), b(2);
    TcpConnectionPtr conn(new TcpConnection(loop, "c", sv[0], a, b));
    conn->setConnectionCallback(std::bind(&ConnWorld::onConnection, &w, _1));
    conn->setMessageCallback(std::bind(&ConnWorld::onMessage, &w, _1, _2, _3));
    conn->setWriteCompleteCallback(std::bind(&ConnWorld::onWriteComplete, &w, _1));
    conn->setHighWaterMarkCallback(std::bind(&ConnWorld::onHighWater, &w, _1, _2), 256);
    conn->setCloseCallback(std::bind(&ConnWorld::onClose, &w, _1));
    loop->runInLoop(std::bind(&TcpConnection::connectEstablished, conn));
    w.up.wait("conn:up");

    Rng pr(g_seed, it, 99);
    const bool peerClosesEarly = pr.below(2) == 0;
    std::atomic<bool> peerOpen(true);
    // the raw peer: keeps the connection receiving; closes when it sees EOF, or early
    std::thread peer([&] {
      Rng r(g_seed, it, 98);
      char buf[4096];
      memset(buf, 'p', sizeof buf);
      int rounds = 30 + static_cast<int>(r.below(60));
      for (int i = 0; i < rounds; ++i) {
        (void)::send(sv[1], buf, 1 + r.below(200), MSG_DONTWAIT | MSG_NOSIGNAL);
        if (i % 8 >= 3) {            // pauses reading now and then: back-pressure on the connection
          ssize_t n = ::recv(sv[1], buf, sizeof buf, MSG_DONTWAIT);
          if (n == 0) break;
        }
        spin(r.below(20000));
      }
      if (peerClosesEarly) { ::close(sv[1]); peerOpen = false; }
    });
    foreign(2, [&](int k) {
      Rng r(g_seed, it, k);
      Buffer scratch;
      TcpConnectionPtr c(conn);
      ConnOp mine = op;
      int terminalAt = static_cast<int>(r.below(static_cast<unsigned>(calls)));
      for (int j = 0; j < calls; ++j) {
        ConnOp o;
        if (op == kConnOps) {
          o = static_cast<ConnOp>(r.below(kConnOps));
          if (o == kShutdown && k != 0) o = kSend;           // "a single shutdown"
        } else if (mine == kForceClose || mine == kForceCloseWithDelay || mine == kShutdown) {
          // terminal operations: thread 1 performs it once, at a random point; everybody else sends
          o = (k == 1 && j == terminalAt) ? mine : kSend;
        } else if (mine == kStartRead || mine == kStopRead) {
          o = (k == 1) ? (j % 2 ? kStartRead : kStopRead) : (j % 3 ? kSend : mine);
        } else {
          o = mine;
        }
        connCall(c, o, r, &scratch);
        spin(r.below(4000));
      }
    });
    peer.join();
    conn->forceClose();          // no-op if it is already down
    w.down.wait("conn:down");
    Gate drained;                // behind the queued connectDestroyed
    loop->queueInLoop(std::bind(&Gate::open, &drained));
    drained.wait("conn:drained");
    Gate drained2;               // and behind whatever that round queued
    loop->queueInLoop(std::bind(&Gate::open, &drained2));
    drained2.wait("conn:drained2");
    if (peerOpen) ::close(sv[1]);
    conn.reset();
  }
  lt.reset();
}

// ---------------------------------------------------------------------------------- TcpServer::start

static uint16_t boundPort(int fd) {
  struct sockaddr_in6 a = sockets::getLocalAddr(fd);
  return ntohs(reinterpret_cast<struct sockaddr_in*>(&a)->sin_port);
}

static int rawConnect(uint16_t port) {
  int fd = ::socket(AF_INET, SOCK_STREAM | SOCK_CLOEXEC, 0);
  struct sockaddr_in sa;
  memset(&sa, 0, sizeof sa);
  sa.sin_family = AF_INET;
  sa.sin_port = htons(port);
  sa.sin_addr.s_addr = htonl(INADDR_LOOPBACK);
  if (::connect(fd, reinterpret_cast<struct sockaddr*>(&sa), sizeof sa) != 0) { ::close(fd); return -1; }
  return fd;
}

static void echo(const TcpConnectionPtr& c, Buffer* b, Timestamp) { c->send(b); }

static void serverScenario(int calls) {
  std::unique_ptr<EventLoopThread> lt(new EventLoopThread);
  EventLoop* loop = lt->startLoop();
  for (int it = 0; it < g_iters; ++it) {
    TcpServer* server = new TcpServer(loop, InetAddress(0, true), "srv");   // leaked: ~TcpServer is loop-thread only
    server->setThreadNum(it % 3);
    server->setMessageCallback(echo);
    Gate started;
    // the first start() must be made on the loop thread (EventLoopThreadPool::start is confined)
    loop->runInLoop([&] { server->start(); started.open(); });
    started.wait("server:started");
    uint16_t port = boundPort(server->acceptor_->acceptSocket_.fd());
    std::thread clients([&] {
      Rng r(g_seed, it, 97);
      char buf[64];
      for (int i = 0; i < 6; ++i) {
        int fd = rawConnect(port);
        if (fd < 0) continue;
        (void)::send(fd, "hello", 5, MSG_NOSIGNAL);
        struct timeval tv = {1, 0};
        setsockopt(fd, SOL_SOCKET, SO_RCVTIMEO, &tv, sizeof tv);
        (void)::recv(fd, buf, sizeof buf, 0);
        spin(r.below(20000));
        ::close(fd);
      }
    });
    foreign(2, [&](int k) {
      Rng r(g_seed, it, k);
      for (int j = 0; j < calls; ++j) { server->start(); spin(r.below(5000)); }
    });
    clients.join();
    Gate drained;
    loop->queueInLoop(std::bind(&Gate::open, &drained));
    drained.wait("server:drained");
  }
}

// ---------------------------------------------------------------------------------- TcpClient

enum ClientOp { kConnect, kDisconnect, kStop, kConnection, kClientOps };

struct Listener {
  int fd;
  uint16_t port;
  std::thread th;
  Listener() : fd(-1), port(0) {
    fd = ::socket(AF_INET, SOCK_STREAM | SOCK_CLOEXEC, 0);
    struct sockaddr_in sa;
    memset(&sa, 0, sizeof sa);
    sa.sin_family = AF_INET;
    sa.sin_port = 0;
    sa.sin_addr.s_addr = htonl(INADDR_LOOPBACK);
    if (::bind(fd, reinterpret_cast<struct sockaddr*>(&sa), sizeof sa) != 0 || ::listen(fd, 128) != 0) { perror("listen"); _exit(2); }
    port = boundPort(fd);
    th = std::thread([this] {
      // accepts, greets, echoes nothing; closes a connection when the client half-closes it, and
      // hangs up on the oldest one when a newer one arrives
      std::vector<struct pollfd> fds(1);
      fds[0].fd = fd; fds[0].events = POLLIN;
      char buf[4096];
      for (;;) {
        if (::poll(&fds[0], fds.size(), -1) < 0) { if (errno == EINTR) continue; return; }
        for (size_t i = fds.size(); i-- > 1;) {
          if (fds[i].revents) {
            ssize_t n = ::recv(fds[i].fd, buf, sizeof buf, MSG_DONTWAIT);
            if (n == 0 || (n < 0 && errno != EAGAIN && errno != EINTR)) { ::close(fds[i].fd); fds.erase(fds.begin() + i); }
          }
        }
        if (fds[0].revents & POLLIN) {
          int c = ::accept4(fd, NULL, NULL, SOCK_CLOEXEC);
          if (c >= 0) {
            (void)::send(c, "hello", 5, MSG_NOSIGNAL);
            struct pollfd p; p.fd = c; p.events = POLLIN; p.revents = 0;
            fds.push_back(p);
            if (fds.size() > 3) { ::close(fds[1].fd); fds.erase(fds.begin() + 1); }
          }
        }
      }
    });
    th.detach();
  }
};

static void clientScenario(ClientOp op, int calls) {
  static Listener* L = new Listener;
  std::unique_ptr<EventLoopThread> lt(new EventLoopThread);
  EventLoop* loop = lt->startLoop();
  loop->runEvery(0.001, std::bind(inc));
  for (int it = 0; it < g_iters; ++it) {
    TcpClient* cli = new TcpClient(loop, InetAddress("127.0.0.1", L->port), "cli");   // leaked (F11: ~TcpClient)
    cli->setMessageCallback(echo);
    if (it % 2) cli->enableRetry();
    foreign(2, [&](int k) {
      Rng r(g_seed, it, k);
      if (k == 0) {
        // the driver of the life cycle: connect, (maybe) wait for the connection, end it
        cli->connect();
        bool wait = (op == kDisconnect || op == kConnection || op == kClientOps) || r.below(2);
        if (wait) {
          for (int j = 0; j < 2000; ++j) {
            TcpConnectionPtr c = cli->connection();
            if (c) break;
            usleep(500);
          }
        } else {
          spin(r.below(100000));
        }
        if (op == kStop || (op == kClientOps && r.below(2))) cli->stop();
        else cli->disconnect();
        if (op == kClientOps || op == kStop) cli->stop();
      } else {
        for (int j = 0; j < calls; ++j) {
          TcpConnectionPtr c = cli->connection();
          if (c) { c->send("x"); (void)c->connected(); }
          if (op == kClientOps && r.below(8) == 0) cli->enableRetry();
          spin(r.below(4000));
        }
      }
    });
    cli->disconnect();
    cli->stop();
    for (int j = 0; j < 4000; ++j) {       // not a verdict: just lets the connection go down before the next round
      TcpConnectionPtr c = cli->connection();
      if (!c) break;
      if (j == 200) c->forceClose();
      usleep(500);
    }
    Gate drained;
    loop->queueInLoop(std::bind(&Gate::open, &drained));
    drained.wait("client:drained");
  }
}

// ---------------------------------------------------------------------------------- base library

static void poolScenario(int calls) {
  for (int it = 0; it < g_iters; ++it) {
    ThreadPool pool("pool");
    if (it % 2) pool.setMaxQueueSize(4);
    pool.start(3);
    foreign(2, [&](int k) {
      Rng r(g_seed, it, k);
      for (int j = 0; j < calls; ++j) {
        pool.run(std::bind(inc));
        (void)pool.queueSize();
        spin(r.below(2000));
      }
    });
    pool.stop();
    pool.run(std::bind(inc));        // after stop(): returns without queueing
  }
}

// stop() while foreign threads are still calling run(): the pair (run, stop) of F5
static void poolStopScenario(int calls) {
  for (int it = 0; it < g_iters; ++it) {
    ThreadPool pool("pool");
    if (it % 2) pool.setMaxQueueSize(4);
    pool.start(3);
    std::atomic<bool> go(false);
    std::thread runner([&] {
      Rng r(g_seed, it, 1);
      for (int j = 0; j < calls; ++j) { pool.run(std::bind(busy)); spin(r.below(2000)); if (j == calls / 4) go = true; }
      go = true;
    });
    while (!go) sched_yield();
    pool.stop();                     // the owner stops the pool; workers test running_ concurrently
    runner.join();
  }
}

static void blockingQueueScenario(int calls) {
  for (int it = 0; it < g_iters; ++it) {
    BlockingQueue<std::string> q;
    foreign(5, [&](int k) {
      Rng r(g_seed, it, k);
      for (int j = 0; j < calls; ++j) {
        if (k == 0) q.put(std::string("a"));
        else if (k == 1) { std::string s("b"); q.put(s); }
        else if (k == 2 || k == 3) (void)q.take();
        else (void)q.size();
        spin(r.below(1000));
      }
    });
    q.put(std::string("x"));
    (void)q.drain();
  }
}

static void boundedQueueScenario(int calls) {
  for (int it = 0; it < g_iters; ++it) {
    BoundedBlockingQueue<std::string> q(3);
    foreign(5, [&](int k) {
      Rng r(g_seed, it, k);
      for (int j = 0; j < calls; ++j) {
        if (k == 0) q.put(std::string("a"));
        else if (k == 1) { std::string s("b"); q.put(s); }
        else if (k == 2 || k == 3) (void)q.take();
        else { (void)q.size(); (void)q.empty(); (void)q.full(); (void)q.capacity(); }
        spin(r.below(1000));
      }
    });
  }
}

static void latchScenario(int calls) {
  for (int it = 0; it < g_iters * 10; ++it) {
    CountDownLatch latch(3);
    foreign(6, [&](int k) {
      Rng r(g_seed, it, k);
      spin(r.below(3000));
      if (k < 3) latch.countDown();
      else if (k < 5) latch.wait();
      else for (int j = 0; j < calls; ++j) (void)latch.getCount();
    });
  }
}

// a latch that lives only as long as its waiter needs it (the canonical use: `CountDownLatch done(1); hand &done to a
// worker; done.wait();` and the frame is left).  wait() may return as soon as the count is 0 and the mutex is free, so
// everything countDown() does to the latch must happen before it releases the mutex; a notification issued after the
// unlock runs on a destroyed condition variable (TSan: pthread_cond_broadcast vs pthread_cond_destroy).
static void shortLatchScenario(int rounds) {
  BlockingQueue<CountDownLatch*> q;
  std::thread worker([&] {
    for (;;) {
      CountDownLatch* l = q.take();
      if (!l) return;
      l->countDown();
    }
  });
  for (int it = 0; it < g_iters * rounds; ++it) {
    CountDownLatch done(1);
    q.put(&done);
    done.wait();
  }
  q.put(NULL);
  worker.join();
}

static AsyncLogging* g_async = NULL;
static void asyncOutput(const char* msg, int len) { g_async->append(msg, len); }
static void discardOutput(const char*, int) {}
static void discardFlush() {}

static void asyncScenario(int calls) {
  // every iteration writes ~9 MB through the back-end thread (the buffers are 4 MB: this is what it takes to
  // exercise the buffer swap in append()); more than a few iterations only adds disk traffic
  for (int it = 0; it < g_iters && it < 6; ++it) {
    AsyncLogging log("race_async", 64 * 1000 * 1000, 1);
    log.start();
    std::string line(1000, 'x');
    line += "\n";
    foreign(3, [&](int k) {
      Rng r(g_seed, it, k);
      for (int j = 0; j < calls; ++j) { log.append(line.data(), static_cast<int>(line.size())); if (j % 64 == 0) spin(r.below(2000)); }
    });
    log.stop();
  }
}

// LOG_* from many threads; `viaAsync`: the usual production set-up (output = AsyncLogging::append)
static void logScenario(int calls, bool viaAsync) {
  AsyncLogging log("race_log", 64 * 1000 * 1000, 1);
  if (viaAsync) { g_async = &log; log.start(); Logger::setOutput(asyncOutput); }
  else Logger::setOutput(discardOutput);
  Logger::setFlush(discardFlush);
  Logger::setLogLevel(Logger::INFO);
  for (int it = 0; it < g_iters; ++it) {
    foreign(4, [&](int k) {
      Rng r(g_seed, it, k);
      for (int j = 0; j < calls; ++j) {
        LOG_INFO << "thread " << k << " record " << j << " " << 3.25 << " " << static_cast<const void*>(&r);
        LOG_DEBUG << "off " << j;
        LOG_TRACE << "off " << j;
        if (j % 16 == 0) LOG_WARN << "warn " << j;
        if (j % 64 == 0) { errno = EAGAIN; LOG_SYSERR << "syserr " << j; }
        if (j % 64 == 1) LOG_ERROR << "error " << j;
        spin(r.below(500));
      }
    });
  }
  if (viaAsync) log.stop();
  Logger::setOutput(discardOutput);
}

// ---------------------------------------------------------------------------------- table of scenarios

struct Scenario { const char* name; std::function<void()> run; };

static std::vector<LoopOp> one(LoopOp o) { return std::vector<LoopOp>(1, o); }

static std::vector<Scenario>& scenarios() {
  static std::vector<Scenario> v;
  if (!v.empty()) return v;
  std::vector<LoopOp> all;
  for (int i = 0; i < kLoopOps; ++i) all.push_back(static_cast<LoopOp>(i));
  v.push_back({"EventLoop::runInLoop", [] { loopScenario(one(kRunInLoop), 200); }});
  v.push_back({"EventLoop::queueInLoop", [] { loopScenario(one(kQueueInLoop), 200); }});
  v.push_back({"EventLoop::runAt", [] { loopScenario(one(kRunAt), 100); }});
  v.push_back({"EventLoop::runAfter", [] { loopScenario(one(kRunAfter), 100); }});
  v.push_back({"EventLoop::runEvery", [] { loopScenario(one(kRunEvery), 40); }});
  v.push_back({"EventLoop::cancel", [] { loopScenario(one(kCancel), 100); }});
  v.push_back({"EventLoop::queueSize", [] { loopScenario(one(kQueueSize), 300); }});
  v.push_back({"EventLoop::quit", [] { quitScenario(); }});
  v.push_back({"EventLoop::mix", [all] { loopScenario(all, 150); }});
  v.push_back({"TcpConnection::send", [] { connScenario(kSend, 120); }});
  v.push_back({"TcpConnection::forceClose", [] { connScenario(kForceClose, 80); }});
  v.push_back({"TcpConnection::forceCloseWithDelay", [] { connScenario(kForceCloseWithDelay, 80); }});
  v.push_back({"TcpConnection::startRead", [] { connScenario(kStartRead, 80); }});
  v.push_back({"TcpConnection::stopRead", [] { connScenario(kStopRead, 80); }});
  v.push_back({"TcpConnection::shutdown", [] { connScenario(kShutdown, 80); }});
  v.push_back({"TcpConnection::mix", [] { connScenario(kConnOps, 100); }});
  v.push_back({"TcpServer::start", [] { serverScenario(50); }});
  v.push_back({"TcpClient::connect", [] { clientScenario(kConnect, 60); }});
  v.push_back({"TcpClient::disconnect", [] { clientScenario(kDisconnect, 60); }});
  v.push_back({"TcpClient::stop", [] { clientScenario(kStop, 60); }});
  v.push_back({"TcpClient::connection", [] { clientScenario(kConnection, 200); }});
  v.push_back({"TcpClient::mix", [] { clientScenario(kClientOps, 100); }});
  v.push_back({"ThreadPool::run", [] { poolScenario(300); }});
  v.push_back({"ThreadPool::run+stop", [] { poolStopScenario(300); }});
  v.push_back({"BlockingQueue", [] { blockingQueueScenario(300); }});
  v.push_back({"BoundedBlockingQueue", [] { boundedQueueScenario(300); }});
  v.push_back({"CountDownLatch", [] { latchScenario(50); }});
  v.push_back({"CountDownLatch::shortlived", [] { shortLatchScenario(60); }});
  v.push_back({"AsyncLogging::append", [] { asyncScenario(3000); }});
  v.push_back({"LOG", [] { logScenario(400, false); }});
  v.push_back({"LOG+AsyncLogging", [] { logScenario(400, true); }});
  return v;
}

int main(int argc, char** argv) {
  setvbuf(stdout, NULL, _IOLBF, 0);
  memset(g_payload, 'd', sizeof g_payload);
  std::vector<Scenario>& v = scenarios();
  if (argc >= 2 && strcmp(argv[1], "list") == 0) {
    for (size_t i = 0; i < v.size(); ++i) printf("%s\n", v[i].name);
    return 0;
  }
  if (argc < 4) { fprintf(stderr, "usage: race_scen <scenario>|list <iterations> <seed>\n"); return 2; }
  g_scenario = argv[1];
  g_iters = atoi(argv[2]);
  g_seed = strtoull(argv[3], NULL, 10);
  const char* dir = getenv("RACE_DIR");      // AsyncLogging writes its files into the current directory
  if (dir && chdir(dir) != 0) { perror("chdir"); return 2; }
  Logger::setLogLevel(Logger::WARN);
  for (size_t i = 0; i < v.size(); ++i) {
    if (strcmp(v[i].name, argv[1]) == 0) {
      v[i].run();
      printf("DONE %s iterations=%d seed=%llu ran=%ld doubleClose=%ld doubleDown=%ld\n", argv[1], g_iters,
             static_cast<unsigned long long>(g_seed), g_ran.load(), g_doubleClose.load(), g_doubleDown.load());
      fflush(stdout);
      _exit(0);
    }
  }
  printf("UNKNOWN %s\n", argv[1]);
  return 2;
}
