// Steps a real muduo::net::EventLoop one iteration at a time from INSIDE loop(), without
// quit(): the driver's command interpreter runs at the "EventLoop::loop:beforePoll" point
// (on the loop thread, between two iterations - the same context as code that runs on the
// owner thread before loop()), executes input operations up to and including the next
// `iter`, then returns so that the loop polls once, dispatches and drains its functors.
// The wake-up descriptor is written explicitly before every poll, so the harness never
// relies on the wake-up logic under test and poll never blocks.
//
// Needs -DMUDUO_VERIF (the point macro).  Include in exactly one translation unit.
#ifndef VERIF_HARNESS_LOOPSTEP_H
#define VERIF_HARNESS_LOOPSTEP_H

#include "muduo/base/VerifHooks.h"
#include "muduo/net/EventLoop.h"

#include <string.h>

namespace vs {

// runs the operations up to and including the next `iter`; returns false at end of input
typedef bool (*Interp)();

struct Stepper {
  muduo::net::EventLoop* loop;
  Interp interp;
  bool done;
  muduo::verif::PointHook chain;   // other users of the point hook (e.g. a scheduler)
  Stepper() : loop(NULL), interp(NULL), done(false), chain(NULL) {}
};
inline Stepper& stepper() { static Stepper s; return s; }

inline void point(const char* name, const void* obj) {
  Stepper& s = stepper();
  if (obj == s.loop && !s.done && strcmp(name, "EventLoop::loop:beforePoll") == 0) {
    if (!s.interp()) { s.done = true; s.loop->quit(); }
    s.loop->wakeup();
    return;
  }
  if (s.chain) s.chain(name, obj);
}

// Calls loop->loop() once; `interp` is called before every poll.  Returns when the input is
// exhausted (the loop is then told to quit and leaves through its normal exit path).
inline void run(muduo::net::EventLoop* loop, Interp interp) {
  Stepper& s = stepper();
  s.loop = loop; s.interp = interp; s.done = false;
  s.chain = muduo::verif::pointHook();
  muduo::verif::pointHook() = point;
  loop->loop();
  muduo::verif::pointHook() = s.chain;
}

}  // namespace vs
#endif
