// Translation unit for the C08 extractor only (never linked): explicit instantiations make clang
// produce concrete bodies for every member of the queue templates.
#include "muduo/base/BlockingQueue.h"
#include "muduo/base/BoundedBlockingQueue.h"
#include <string>

template class muduo::BlockingQueue<std::string>;
template class muduo::BoundedBlockingQueue<std::string>;
