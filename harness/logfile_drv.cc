// C++ side of `driver logfile` (C16, T2): the real muduo::LogFile / FileUtil::AppendFile on the
// operation lines, with every `time()` value and every `fwrite_unlocked` result decided by the case
// (scripted) and reported back as environment lines.  Files are created in a per-run scratch
// directory under /verif/.build/run/ (removed at exit) and read back from disk.
//
// input lines
//   new <rollSize> <flushInterval> <checkEveryN> <threadSafe 0|1>
//   times <sec>...                 values the next time() calls return (afterwards: the last one again)
//   script <k|full>[!]...          results of the next fwrite_unlocked calls (`!`: raise the stream's error flag)
//   append <bytes>   flush   roll   destroy
//   files                          read the directory back: one line per file, in name order
// output per line: events, then `--`
//   < time <sec>                   environment: a value time() returned
//   < fw <ret> <err>               environment: result of one fwrite_unlocked call, error flag afterwards
//   open <sec> | close <sec> <size on disk> | flush <sec> <size on disk>
//   fw <sec> <offset in record> <request> <accepted>
//   st ticks=<number of time() calls of this instance>
//   file <sec> <length> <fnv64>
#include "muduo/base/LogFile.h"
#include "muduo/base/ProcessInfo.h"
#include "common.h"
#include "interpose.h"
#include "stdio_interpose.h"

#include <dirent.h>
#include <fcntl.h>
#include <sys/stat.h>
#include <sys/types.h>
#include <time.h>

#include <algorithm>
#include <memory>

using namespace vh;

static std::string g_root;      // scratch directory of this process
static std::string g_dir;       // directory of the current instance
static int g_instance = 0;
static long g_ticks = 0;
static int64_t g_lastTime = 0;
static const char* g_recBase = NULL;
static std::string g_base = "vlog";

static void say(const std::string& s) { fputs(s.c_str(), stdout); fputc('\n', stdout); }

// <basename>.<YYYYmmdd-HHMMSS>.<hostname>.<pid>.log  ->  the roll second (and checks the rest)
static long long canon(const std::string& path) {
  size_t slash = path.rfind('/');
  std::string name = slash == std::string::npos ? path : path.substr(slash + 1);
  std::string suffix = "." + std::string(muduo::ProcessInfo::hostname().c_str()) + "." + std::to_string(getpid()) + ".log";
  if (name.compare(0, g_base.size() + 1, g_base + ".") != 0) return -1;
  if (name.size() < suffix.size() || name.compare(name.size() - suffix.size(), suffix.size(), suffix) != 0) return -2;
  std::string ts = name.substr(g_base.size() + 1, name.size() - suffix.size() - g_base.size() - 1);
  struct tm tm; memset(&tm, 0, sizeof tm);
  const char* end = strptime(ts.c_str(), "%Y%m%d-%H%M%S", &tm);
  if (!end || *end) return -3;
  return static_cast<long long>(timegm(&tm));
}

static long long diskSize(const std::string& path) {
  struct stat st;
  if (stat(path.c_str(), &st) != 0) return -1;
  return static_cast<long long>(st.st_size);
}

static void onTime(int64_t v) {
  ++g_ticks; g_lastTime = v;
  say("< time " + std::to_string(static_cast<long long>(v)));
  // keep the clock where the script left it
  if (vi::timeScript().empty()) vi::clock().nowUs = v * 1000000LL;
}
static void onOpen(FILE*, const std::string& path) { say("open " + std::to_string(canon(path))); }
static void onClose(FILE*, const std::string& path) {
  say("close " + std::to_string(canon(path)) + " " + std::to_string(diskSize(path)));
}
static void onFlush(FILE*, const std::string& path) {
  say("flush " + std::to_string(canon(path)) + " " + std::to_string(diskSize(path)));
}
static void onWrite(FILE*, const std::string& path, const void* ptr, size_t req, size_t ret, bool err) {
  long long off = g_recBase ? static_cast<long long>(static_cast<const char*>(ptr) - g_recBase) : -1;
  say("< fw " + std::to_string(ret) + " " + (err ? "1" : "0"));
  say("fw " + std::to_string(canon(path)) + " " + std::to_string(off) + " " + std::to_string(req) + " " + std::to_string(ret));
}

static void rmTree(const std::string& dir) {
  DIR* d = opendir(dir.c_str());
  if (!d) return;
  while (struct dirent* e = readdir(d)) {
    std::string n = e->d_name;
    if (n == "." || n == "..") continue;
    std::string p = dir + "/" + n;
    struct stat st;
    if (lstat(p.c_str(), &st) == 0 && S_ISDIR(st.st_mode)) rmTree(p); else unlink(p.c_str());
  }
  closedir(d);
  rmdir(dir.c_str());
}
static void cleanup() { if (!g_root.empty()) { if (chdir("/") != 0) {} rmTree(g_root); } }

static void mkdirs(const std::string& p) {
  for (size_t i = 1; i <= p.size(); ++i)
    if (i == p.size() || p[i] == '/') mkdir(p.substr(0, i).c_str(), 0755);
}

int main() {
  const char* root = getenv("VERIF_RUN_DIR");
  g_root = std::string(root ? root : "/verif/.build/run") + "/logfile-" + std::to_string(getpid());
  mkdirs(g_root);
  atexit(cleanup);
  vs::prefix() = g_root + "/";
  vs::hooks().opened = onOpen; vs::hooks().closing = onClose; vs::hooks().flushed = onFlush; vs::hooks().wrote = onWrite;
  vi::clock().virt = true;
  vi::clock().nowUs = 1000000LL;
  vi::timeRecorder() = onTime;

  std::unique_ptr<muduo::LogFile> lf;
  std::string line;
  while (std::getline(std::cin, line)) {
    std::vector<std::string> w = words(line);
    if (w.empty()) continue;
    const std::string& op = w[0];
    std::string d;
    if (op == "new" && w.size() == 5) {
      lf.reset();
      g_dir = g_root + "/" + std::to_string(++g_instance);
      mkdirs(g_dir);
      if (chdir(g_dir.c_str()) != 0) { perror("chdir"); return 2; }
      g_ticks = 0;
      // the constructor needs time() > 0, otherwise no file is opened (assert / null file_)
      int64_t next = vi::timeScript().empty() ? vi::clock().nowUs / 1000000 : vi::timeScript().front();
      if (next <= 0) {
        // report the reading the constructor would have made, without running into the null file_
        if (!vi::timeScript().empty()) vi::timeScript().pop_front();
        say("< time " + std::to_string(static_cast<long long>(next)));
        say("reject"); say("--"); continue;
      }
      lf.reset(new muduo::LogFile(g_base, strtoll(w[1].c_str(), NULL, 10), w[4] == "1",
                                  atoi(w[2].c_str()), atoi(w[3].c_str())));
    } else if (op == "times") {
      for (size_t i = 1; i < w.size(); ++i) vi::timeScript().push_back(strtoll(w[i].c_str(), NULL, 10));
      say("--"); continue;
    } else if (op == "script") {
      for (size_t i = 1; i < w.size(); ++i) {
        std::string t = w[i];
        bool err = !t.empty() && t[t.size() - 1] == '!';
        if (err) t.erase(t.size() - 1);
        vs::script().push_back(vs::FwRes(t == "full" ? -1 : strtol(t.c_str(), NULL, 10), err));
      }
      say("--"); continue;
    } else if (!lf && (op == "append" || op == "flush" || op == "roll")) {
      say("reject"); say("--"); continue;
    } else if (op == "append" && w.size() == 2 && parseBytes(w[1], &d)) {
      g_recBase = d.data();
      lf->append(d.data(), static_cast<int>(d.size()));
      g_recBase = NULL;
    } else if (op == "flush") {
      lf->flush();
    } else if (op == "roll") {
      lf->rollFile();
    } else if (op == "destroy") {
      lf.reset();
      say("--"); continue;
    } else if (op == "files") {
      std::vector<std::pair<long long, std::string> > fs;
      DIR* dd = opendir(g_dir.c_str());
      while (dd) {
        struct dirent* e = readdir(dd);
        if (!e) break;
        std::string n = e->d_name;
        if (n == "." || n == "..") continue;
        fs.push_back(std::make_pair(canon(n), g_dir + "/" + n));
      }
      if (dd) closedir(dd);
      std::sort(fs.begin(), fs.end());
      for (size_t i = 0; i < fs.size(); ++i) {
        std::string content;
        int fd = open(fs[i].second.c_str(), O_RDONLY);   // not through the interposed stdio
        if (fd >= 0) {
          char buf[65536]; ssize_t k;
          while ((k = read(fd, buf, sizeof buf)) > 0) content.append(buf, static_cast<size_t>(k));
          close(fd);
        }
        say("file " + std::to_string(fs[i].first) + " " + std::to_string(content.size()) + " " +
            std::to_string(static_cast<unsigned long long>(fnv64(content))));
      }
      say("--"); continue;
    } else {
      say("bad-op"); say("--"); continue;
    }
    say("st ticks=" + std::to_string(g_ticks));
    say("--");
  }
  lf.reset();
  fflush(stdout);
  return 0;
}
