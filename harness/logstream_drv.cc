// C++ side of `driver logstream`: the real muduo::LogStream / detail::FixedBuffer / Logger /
// formatSI / formatIEC behind the line protocol (see lean/Driver/LogstreamDrv.lean).
//
// Clock: Logger::Impl reads Timestamp::now() = gettimeofday(). This executable defines
// gettimeofday itself (the definition in the executable takes precedence over libc's), so the
// instant is either scripted by the operation or the real CLOCK_REALTIME value, and in both
// cases recorded and reported as the environment line `< now <us>`.
//
// Thread kinds (`line` / `macro` <where>): main | thread (muduo::Thread) | fork (the child of a fork(): its tid must be
// the child's) | raw0 | raw1 (a thread made with pthread_create inside a forked child - an abort, e.g. of an assert
// in a build without NDEBUG, is then an observable event `aborted` instead of the end of the driver; raw0: the log
// statement is that thread's FIRST muduo call, raw1: the thread called CurrentThread::tid() before).
// `< tid N` is gettid() read by the harness on the emitting thread (not through muduo), `< ptid N` the driver's main
// thread, `< asserts 0|1` whether this executable was built with NDEBUG.
#include "muduo/base/LogStream.h"
#include "muduo/base/Logging.h"
#include "muduo/base/TimeZone.h"
#include "muduo/base/Thread.h"
#include "muduo/base/CurrentThread.h"
#include "common.h"
#include <condition_variable>
#include <mutex>

#include <errno.h>
#include <inttypes.h>
#include <stdarg.h>
#include <signal.h>
#include <limits.h>
#include <pthread.h>
#include <string.h>
#include <sys/syscall.h>
#include <sys/time.h>
#include <sys/types.h>
#include <sys/wait.h>
#include <time.h>
#include <unistd.h>
#include <functional>

using namespace vh;
using muduo::LogStream;
using muduo::Logger;

// ------------------------------------------------------------------ clock
static bool g_scripted = false;
static int64_t g_scriptedUs = 0;
static int g_clockCalls = 0;
static int64_t g_lastUs = 0;
static int g_childFd = -1;   // >= 0 in a forked child: the pipe to the driver

extern "C" int gettimeofday(struct timeval* __restrict tv, void* __restrict) __THROW {
  int64_t us;
  if (g_scripted) {
    us = g_scriptedUs;
  } else {
    struct timespec ts;
    clock_gettime(CLOCK_REALTIME, &ts);
    us = static_cast<int64_t>(ts.tv_sec) * 1000000 + ts.tv_nsec / 1000;
  }
  ++g_clockCalls;
  g_lastUs = us;
  if (g_childFd >= 0) {
    // reported at once: the child may abort before it returns from the logging statement
    char b[96];
    int n = snprintf(b, sizeof b, "C %d %" PRId64 "\n", g_clockCalls, us);
    ssize_t k = ::write(g_childFd, b, static_cast<size_t>(n)); (void)k;
  }
  tv->tv_sec = static_cast<time_t>(us / 1000000);
  tv->tv_usec = static_cast<suseconds_t>(us % 1000000);
  return 0;
}

static int64_t realUs() {
  struct timespec ts;
  clock_gettime(CLOCK_REALTIME, &ts);
  return static_cast<int64_t>(ts.tv_sec) * 1000000 + ts.tv_nsec / 1000;
}

// ------------------------------------------------------------------ captured output
static std::vector<std::string> g_out;
static void capture(const char* msg, int len) { g_out.push_back(std::string(msg, len)); }
static void noflush() {}

// ------------------------------------------------------------------ source-file literals
// (Logger's macros rely on the implicit conversion const char(&)[N] -> SourceFile)
#define LITS(X) \
  X(0, "a.cc") X(1, "dir/b.cc") X(2, "/abs/path/to/file.cpp") X(3, "trailing/") X(4, "") X(5, "/") \
  X(6, "a//b") X(7, "./x.h") X(8, "../up/one.cc") \
  X(9, "no_slash_but_a_long_name_with_many_characters_0123456789_0123456789.cc") \
  X(10, "dir.with.dots/f") X(11, "/verif/harness/logstream_drv.cc") X(12, "muduo/net/TcpConnection.cc") \
  X(13, "x/y/z/") X(14, "//") X(15, "a b/c d.cc")

static const char* litText(int idx) {
  switch (idx) {
#define X(i, s) case i: return s;
    LITS(X)
#undef X
  }
  return NULL;
}

struct Req {
  std::string ctor;     // c2 c3 c4 cb ct(=bool true)
  int level;
  int err;
  int lit;              // >= 0: literal index, else dynamic
  std::string file;
  int line;
  std::string func;
  std::string msg;
};

static void stream(Logger& l, const Req& r) { l.stream() << r.msg; }

template <int N>
static void logArr(const char (&arr)[N], const Req& r) {
  if (r.ctor == "c2") { Logger l(arr, r.line); stream(l, r); }
  else if (r.ctor == "c3") { Logger l(arr, r.line, static_cast<Logger::LogLevel>(r.level)); stream(l, r); }
  else if (r.ctor == "c4") { Logger l(arr, r.line, static_cast<Logger::LogLevel>(r.level), r.func.c_str()); stream(l, r); }
  else if (r.ctor == "cb") { errno = r.err; Logger l(arr, r.line, false); stream(l, r); }
  else if (r.ctor == "ct") { errno = r.err; Logger l(arr, r.line, true); stream(l, r); }
}

static void logDyn(const Req& r) {
  Logger::SourceFile f(r.file.c_str());
  if (r.ctor == "c2") { Logger l(f, r.line); stream(l, r); }
  else if (r.ctor == "c3") { Logger l(f, r.line, static_cast<Logger::LogLevel>(r.level)); stream(l, r); }
  else if (r.ctor == "c4") { Logger l(f, r.line, static_cast<Logger::LogLevel>(r.level), r.func.c_str()); stream(l, r); }
  else if (r.ctor == "cb") { errno = r.err; Logger l(f, r.line, false); stream(l, r); }
  else if (r.ctor == "ct") { errno = r.err; Logger l(f, r.line, true); stream(l, r); }
}

static void doLog(const Req& r) {
  if (r.lit < 0) { logDyn(r); return; }
  switch (r.lit) {
#define X(i, s) case i: logArr(s, r); break;
    LITS(X)
#undef X
  }
}

// ------------------------------------------------------------------ the macro site
// __FILE__ / __LINE__ / __func__ of these statements are what the oracle expects (it reads this
// file: the marker comments give the line numbers, the #line directive the path).
static int g_macroLine = 0;
static const char* g_macroFile = "";
static const char* g_macroFunc = "";
#line 7000 "verif/macro/site/dir/macro_site.cc"
static void macroSite(int m, int err, const std::string& msg, bool dry) {
  g_macroFile = __FILE__;
  g_macroFunc = __func__;
  switch (m) {
    case 0: g_macroLine = __LINE__ + 1; if (dry) break;
      LOG_TRACE << msg;  // @MACRO 0
      break;
    case 1: g_macroLine = __LINE__ + 1; if (dry) break;
      LOG_DEBUG << msg;  // @MACRO 1
      break;
    case 2: g_macroLine = __LINE__ + 1; if (dry) break;
      LOG_INFO << msg;  // @MACRO 2
      break;
    case 3: g_macroLine = __LINE__ + 1; if (dry) break;
      LOG_WARN << msg;  // @MACRO 3
      break;
    case 4: g_macroLine = __LINE__ + 1; if (dry) break;
      LOG_ERROR << msg;  // @MACRO 4
      break;
    case 5: g_macroLine = __LINE__ + 1; if (dry) break;
      LOG_FATAL << msg;  // @MACRO 5
      break;
    case 6: g_macroLine = __LINE__ + 1; if (dry) break; errno = err;
      LOG_SYSERR << msg;  // @MACRO 6
      break;
    case 7: g_macroLine = __LINE__ + 1; if (dry) break; errno = err;
      LOG_SYSFATAL << msg;  // @MACRO 7
      break;
  }
}
#line 143 "logstream_drv.cc"

// ------------------------------------------------------------------ running a logging action somewhere
struct Result {
  long tid;
  int clockCalls;
  int64_t us;
  std::vector<std::string> out;
  bool aborted;
  Result() : tid(0), clockCalls(0), us(0), aborted(false) {}
};

static void runHere(const std::function<void()>& f, Result* res) {
  g_out.clear();
  g_clockCalls = 0;
  res->tid = static_cast<long>(::syscall(SYS_gettid));
  f();
  res->clockCalls = g_clockCalls;
  res->us = g_lastUs;
  res->out = g_out;
}

static void writeAll(int fd, const std::string& s) {
  size_t off = 0;
  while (off < s.size()) {
    ssize_t k = ::write(fd, s.data() + off, s.size() - off);
    if (k <= 0) break;
    off += static_cast<size_t>(k);
  }
}

static void childCapture(const char* msg, int len) {
  // one record per call, sent at once so that it survives abort()
  std::string rec = "O " + toHex(std::string(msg, len)) + "\n";
  writeAll(g_childFd, rec);
}

// what the child of runForked does with the action: run it on the thread that returned from fork(), or on a thread
// made with pthread_create (NOT muduo::Thread: nothing of muduo has run on it) as that thread's first muduo call
// (kRawFirst) / after the thread called CurrentThread::tid() itself (kRawAfterTid)
enum ChildMode { kForkMain, kRawFirst, kRawAfterTid };

struct RawArg { const std::function<void()>* f; bool callTid; };

static void* rawThreadMain(void* p) {
  RawArg* a = static_cast<RawArg*>(p);
  if (a->callTid) muduo::CurrentThread::tid();
  char b[96];
  snprintf(b, sizeof b, "T %ld\n", static_cast<long>(::syscall(SYS_gettid)));
  writeAll(g_childFd, b);
  (*a->f)();
  return NULL;
}

static void runForked(const std::function<void()>& f, Result* res, ChildMode mode = kForkMain) {
  int p[2];
  if (pipe(p) != 0) { perror("pipe"); exit(2); }
  fflush(stdout);
  pid_t pid = fork();
  if (pid == 0) {
    close(p[0]);
    g_childFd = p[1];
    Logger::setOutput(childCapture);
    g_clockCalls = 0;
    char b[96];
    // a FATAL line / a failing assert ends the child inside f() (abort): the records sent so far survive
    if (mode == kForkMain) {
      snprintf(b, sizeof b, "T %ld\n", static_cast<long>(::syscall(SYS_gettid)));
      writeAll(g_childFd, b);
      f();
    } else {
      RawArg a = { &f, mode == kRawAfterTid };
      pthread_t th;
      if (pthread_create(&th, NULL, rawThreadMain, &a) != 0) _exit(3);
      pthread_join(th, NULL);
    }
    writeAll(g_childFd, "E\n");
    _exit(0);
  }
  close(p[1]);
  std::string all;
  char buf[65536];
  ssize_t n;
  while ((n = ::read(p[0], buf, sizeof buf)) > 0) all.append(buf, static_cast<size_t>(n));
  close(p[0]);
  int status = 0;
  waitpid(pid, &status, 0);
  res->aborted = WIFSIGNALED(status) && WTERMSIG(status) == SIGABRT;
  if (!res->aborted && !(WIFEXITED(status) && WEXITSTATUS(status) == 0)) {
    printf("<< child ended with status 0x%x\n", status);
  }
  std::istringstream is(all);
  std::string line;
  while (std::getline(is, line)) {
    if (line.size() < 2) continue;
    if (line[0] == 'T') res->tid = strtol(line.c_str() + 2, NULL, 10);
    else if (line[0] == 'O') { std::string d; parseHex(line.substr(2), &d); res->out.push_back(d); }
    else if (line[0] == 'C') sscanf(line.c_str() + 2, "%d %" SCNd64, &res->clockCalls, &res->us);
  }
}

static void runThread(const std::function<void()>& f, Result* res) {
  muduo::Thread t([&] { runHere(f, res); }, "verif");
  t.start();
  t.join();
}

// `worker`: ONE muduo::Thread that lives for the whole run and executes every `worker` request: what a thread caches
// between two log statements (the formatted second, the zone generation, its tid text) survives from one request to
// the next, while the main thread changes the global configuration (`setzone`, `setlevel`) in between.
// (on the heap and never destroyed: the worker still waits on the condition variable when main returns)
static std::mutex& g_wm = *new std::mutex;
static std::condition_variable& g_wcv = *new std::condition_variable;
static const std::function<void()>* g_wjob = NULL;
static Result* g_wres = NULL;
static bool g_wdone = false;
static muduo::Thread* g_worker = NULL;
static void workerMain() {
  for (;;) {
    std::unique_lock<std::mutex> l(g_wm);
    g_wcv.wait(l, [] { return g_wjob != NULL; });
    const std::function<void()>* f = g_wjob;
    Result* res = g_wres;
    l.unlock();
    runHere(*f, res);
    l.lock();
    g_wjob = NULL; g_wdone = true;
    g_wcv.notify_all();
  }
}
static void runWorker(const std::function<void()>& f, Result* res) {
  if (!g_worker) { g_worker = new muduo::Thread(workerMain, "verifw"); g_worker->start(); }
  std::unique_lock<std::mutex> l(g_wm);
  g_wjob = &f; g_wres = res; g_wdone = false;
  g_wcv.notify_all();
  g_wcv.wait(l, [] { return g_wdone; });
}

static bool isWhere(const std::string& w) {
  return w == "main" || w == "thread" || w == "fork" || w == "raw0" || w == "raw1" || w == "worker";
}

static void run(const std::string& where, const std::function<void()>& f, Result* res) {
  if (where == "main") runHere(f, res);
  else if (where == "thread") runThread(f, res);
  else if (where == "worker") runWorker(f, res);
  else if (where == "raw0") runForked(f, res, kRawFirst);
  else if (where == "raw1") runForked(f, res, kRawAfterTid);
  else runForked(f, res);
}

// ------------------------------------------------------------------ LogStream state
static LogStream* g_ls = NULL;
static muduo::detail::FixedBuffer<muduo::detail::kLargeBuffer>* g_large = NULL;

static void stLine() {
  if (g_large) {
    printf("st len=%d avail=%d h=%llu\n--\n", g_large->length(), g_large->avail(),
           static_cast<unsigned long long>(fnv64(g_large->data(), static_cast<size_t>(g_large->length()))));
  } else {
    const LogStream::Buffer& b = g_ls->buffer();
    printf("st len=%d avail=%d h=%llu\n--\n", b.length(), b.avail(),
           static_cast<unsigned long long>(fnv64(b.data(), static_cast<size_t>(b.length()))));
  }
}
static void bad() { printf("bad-op\n--\n"); }
static void reject() { printf("reject\n--\n"); }

static void expect(const std::string& s) { printf("# expect=%s\n", toHex(s).c_str()); }

static bool parseI(const std::string& s, long long lo, long long hi, long long* v) {
  errno = 0; char* end = NULL;
  long long x = strtoll(s.c_str(), &end, 10);
  if (errno != 0 || end == s.c_str() || *end != 0 || x < lo || x > hi) return false;
  *v = x; return true;
}
static bool parseU(const std::string& s, unsigned long long hi, unsigned long long* v) {
  if (s.empty() || s[0] == '-') return false;
  errno = 0; char* end = NULL;
  unsigned long long x = strtoull(s.c_str(), &end, 10);
  if (errno != 0 || end == s.c_str() || *end != 0 || x > hi) return false;
  *v = x; return true;
}

template <typename T>
static std::string viaStream(T v) {
  LogStream s; s << v;
  return std::string(s.buffer().data(), static_cast<size_t>(s.buffer().length()));
}
static std::string fmt(const char* f, ...) __attribute__((format(printf, 1, 2)));
static std::string fmt(const char* f, ...) {
  char buf[128]; va_list ap; va_start(ap, f); vsnprintf(buf, sizeof buf, f, ap); va_end(ap); return buf;
}

static bool ins(const std::vector<std::string>& w) {
  const std::string& ty = w[1];
  long long v = 0; unsigned long long u = 0; std::string d;
  if (g_large) {
    if ((ty == "str" || ty == "sp" || ty == "cstr") && w.size() == 3 && parseBytes(w[2], &d)) {
      if (ty == "cstr") d = d.substr(0, strlen(d.c_str()));
      g_large->append(d.data(), d.size());
      return true;
    }
    return false;
  }
  LogStream& s = *g_ls;
  if (w.size() == 2 && ty == "cstrnull") { s << static_cast<const char*>(NULL); expect("(null)"); return true; }
  if (w.size() != 3) return false;
  const std::string& a = w[2];
  if (ty == "i16" && parseI(a, SHRT_MIN, SHRT_MAX, &v)) { s << static_cast<short>(v); expect(fmt("%hd", static_cast<short>(v))); }
  else if (ty == "u16" && parseU(a, USHRT_MAX, &u)) { s << static_cast<unsigned short>(u); expect(fmt("%hu", static_cast<unsigned short>(u))); }
  else if (ty == "i32" && parseI(a, INT_MIN, INT_MAX, &v)) { s << static_cast<int>(v); expect(fmt("%d", static_cast<int>(v))); }
  else if (ty == "u32" && parseU(a, UINT_MAX, &u)) { s << static_cast<unsigned int>(u); expect(fmt("%u", static_cast<unsigned int>(u))); }
  else if (ty == "l64" && parseI(a, LONG_MIN, LONG_MAX, &v)) { s << static_cast<long>(v); expect(fmt("%ld", static_cast<long>(v))); }
  else if (ty == "ul64" && parseU(a, ULONG_MAX, &u)) { s << static_cast<unsigned long>(u); expect(fmt("%lu", static_cast<unsigned long>(u))); }
  else if (ty == "i64" && parseI(a, LLONG_MIN, LLONG_MAX, &v)) { s << v; expect(fmt("%lld", v)); }
  else if (ty == "u64" && parseU(a, ULLONG_MAX, &u)) { s << u; expect(fmt("%llu", u)); }
  else if (ty == "ptr" && parseU(a, UINTPTR_MAX, &u)) {
    s << reinterpret_cast<const void*>(static_cast<uintptr_t>(u));
    expect(fmt("0x%" PRIXPTR, static_cast<uintptr_t>(u)));
  }
  else if (ty == "f64" && a.size() == 16) {
    uint64_t bits = strtoull(a.c_str(), NULL, 16); double x; memcpy(&x, &bits, 8);
    std::string t = fmt("%.12g", x);
    printf("< dbl %s\n", toHex(t).c_str());
    s << x; expect(t);
  }
  else if (ty == "f32" && a.size() == 8) {
    uint32_t bits = static_cast<uint32_t>(strtoul(a.c_str(), NULL, 16)); float x; memcpy(&x, &bits, 4);
    std::string t = fmt("%.12g", static_cast<double>(x));
    printf("< dbl %s\n", toHex(t).c_str());
    s << x; expect(t);
  }
  else if (ty == "bool" && (a == "0" || a == "1")) { s << (a == "1"); expect(a); }
  else if (ty == "char" && parseU(a, 255, &u)) { s << static_cast<char>(u); expect(std::string(1, static_cast<char>(u))); }
  else if (ty == "str" && parseBytes(a, &d)) { s << muduo::string(d); expect(d); }
  else if (ty == "sp" && parseBytes(a, &d)) { s << muduo::StringPiece(d.data(), static_cast<int>(d.size())); expect(d); }
  else if (ty == "cstr" && parseBytes(a, &d)) { s << d.c_str(); expect(d.substr(0, strlen(d.c_str()))); }
  else if (ty == "ucstr" && parseBytes(a, &d)) { s << reinterpret_cast<const unsigned char*>(d.c_str()); expect(d.substr(0, strlen(d.c_str()))); }
  else if (ty == "raw" && parseBytes(a, &d)) { s.append(d.data(), static_cast<int>(d.size())); expect(d); }
  else if (ty == "self" && a == "-") {
    // operator<<(const Buffer&): the content of another stream's buffer
    LogStream other; other << "buffer:" << 42;
    s << other.buffer(); expect("buffer:42");
  }
  else return false;
  return true;
}

// ------------------------------------------------------------------ sweeps (implementation vs snprintf; a test)
static long g_sweepFail = 0;
template <typename T>
static void cmp(const char* ty, T v, const char* f) {
  char want[64];
  snprintf(want, sizeof want, f, v);
  LogStream s; s << v;
  const LogStream::Buffer& b = s.buffer();
  if (static_cast<size_t>(b.length()) != strlen(want) || memcmp(b.data(), want, strlen(want)) != 0) {
    if (g_sweepFail++ < 3)
      printf("sweep FAIL %s got=%s want=%s\n", ty, toHex(std::string(b.data(), static_cast<size_t>(b.length()))).c_str(),
             toHex(want).c_str());
  }
}
#pragma GCC diagnostic push
#pragma GCC diagnostic ignored "-Wformat"
static void sweep(uint64_t lo, uint64_t hi, bool narrow) {
  g_sweepFail = 0;
  for (uint64_t x = lo; x < hi; ++x) {
    if (narrow) {
      cmp<short>("i16", static_cast<short>(x), "%hd");
      cmp<unsigned short>("u16", static_cast<unsigned short>(x), "%hu");
      cmp<long long>("i64", static_cast<long long>(x * 0x0001000100010001ULL), "%lld");
    }
    cmp<int>("i32", static_cast<int>(static_cast<uint32_t>(narrow ? x * 0x00010001ULL : x)), "%d");
    cmp<unsigned int>("u32", static_cast<unsigned int>(narrow ? x * 0x00010001ULL : x), "%u");
    if (narrow) {
      cmp<long>("l64", static_cast<long>(x) - 32768, "%ld");
      cmp<unsigned long>("ul64", static_cast<unsigned long>(x) << 48, "%lu");
      cmp<unsigned long long>("u64", ~static_cast<unsigned long long>(x), "%llu");
      char want[64]; uintptr_t p = static_cast<uintptr_t>(x) * 0x0001000000010001ULL;
      snprintf(want, sizeof want, "0x%" PRIXPTR, p);
      LogStream s; s << reinterpret_cast<const void*>(p);
      if (std::string(s.buffer().data(), static_cast<size_t>(s.buffer().length())) != want) {
        if (g_sweepFail++ < 3) printf("sweep FAIL ptr got=%s want=%s\n",
            toHex(std::string(s.buffer().data(), static_cast<size_t>(s.buffer().length()))).c_str(), toHex(want).c_str());
      }
    }
  }
  if (g_sweepFail == 0) printf("sweep ok n=%llu\n--\n", static_cast<unsigned long long>(hi - lo));
  else printf("sweep failed count=%ld\n--\n", g_sweepFail);
}
#pragma GCC diagnostic pop

// ------------------------------------------------------------------ main
static int g_zoneValid = 0;
static long g_zoneOff = 0;

static bool clockOk(const std::string& c, int64_t* us) {
  if (c == "now") { *us = realUs(); return true; }
  long long v;
  if (!parseI(c, 0, 253402300799999999LL, &v)) return false;
  *us = v; return true;
}
// the instant (shifted by the zone) must stay inside years 1970..9999: the range of `%4d` / of the asserts
static bool inDomain(int64_t us) {
  int64_t sec = us / 1000000 + (g_zoneValid ? g_zoneOff : 0);
  return us >= 0 && sec >= 0 && sec <= 253402300799LL;
}

static void report(const Result& r, bool withSrc, int errShown) {
  printf("< tid %ld\n", r.tid);
  printf("< ptid %ld\n", static_cast<long>(::syscall(SYS_gettid)));   // the driver's main thread
#ifdef NDEBUG
  printf("< asserts 0\n");
#else
  printf("< asserts 1\n");
#endif
  if (r.clockCalls > 0) printf("< now %" PRId64 "\n", r.us);
  if (r.clockCalls > 1) printf("# clock-calls=%d\n", r.clockCalls);
  if (withSrc) printf("< src %s %d %s\n", toHex(g_macroFile).c_str(), g_macroLine, toHex(g_macroFunc).c_str());
  if (errShown != 0) {
    char eb[512];
    const char* t = strerror_r(errShown, eb, sizeof eb);
    printf("< errtext %s\n", toHex(t).c_str());
  }
  if (r.out.empty()) printf("out-none\n");
  for (size_t i = 0; i < r.out.size(); ++i) printf("out %s\n", toHex(r.out[i]).c_str());
  if (r.aborted) printf("aborted\n");
  printf("--\n");
}

int main() {
  Logger::setOutput(capture);
  Logger::setFlush(noflush);
  g_ls = new LogStream;
  std::string line;
  while (std::getline(std::cin, line)) {
    std::vector<std::string> w = words(line);
    if (w.empty()) continue;
    const std::string& op = w[0];
    if (op == "reset" && w.size() == 2 && (w[1] == "small" || w[1] == "large")) {
      delete g_ls; g_ls = NULL; delete g_large; g_large = NULL;
      if (w[1] == "small") g_ls = new LogStream; else g_large = new muduo::detail::FixedBuffer<muduo::detail::kLargeBuffer>;
      stLine();
    } else if (op == "ins" && w.size() >= 2) {
      if (ins(w)) stLine(); else bad();
    } else if (op == "rst") {
      if (g_large) g_large->reset(); else g_ls->resetBuffer();
      stLine();
    } else if (op == "buf") {
      if (g_large) { stLine(); continue; }
      const LogStream::Buffer& b = g_ls->buffer();
      printf("buf %s\n--\n", toHex(std::string(b.data(), static_cast<size_t>(b.length()))).c_str());
    } else if (op == "setlevel" && w.size() == 2) {
      long long v;
      if (!parseI(w[1], 0, 5, &v)) { bad(); continue; }
      Logger::setLogLevel(static_cast<Logger::LogLevel>(v));
      printf("level %d\n--\n", static_cast<int>(Logger::logLevel()));
    } else if (op == "setzone" && w.size() == 2) {
      if (w[1] == "none") { Logger::setTimeZone(muduo::TimeZone()); g_zoneValid = 0; }
      else {
        long long v;
        if (!parseI(w[1], -86400, 86400, &v)) { bad(); continue; }
        Logger::setTimeZone(muduo::TimeZone(static_cast<int>(v), "VRF")); g_zoneValid = 1; g_zoneOff = static_cast<long>(v);
      }
      printf("ok\n--\n");
    } else if (op == "line" && w.size() == 11) {
      // line <where> <ctor> <level> <clock> <errno> <file> <lineno> <func|-> <msg>  (w[10] = msg)
      Req r; long long v; int64_t us;
      const std::string& where = w[1];
      r.ctor = w[2];
      if (!isWhere(where)) { bad(); continue; }
      if (!(r.ctor == "c2" || r.ctor == "c3" || r.ctor == "c4" || r.ctor == "cb" || r.ctor == "ct")) { bad(); continue; }
      if (!parseI(w[3], 0, 5, &v)) { bad(); continue; }
      r.level = static_cast<int>(v);
      if (!clockOk(w[4], &us)) { bad(); continue; }
      if (!parseI(w[5], 0, 4095, &v)) { bad(); continue; }
      r.err = static_cast<int>(v);
      r.lit = -1;
      if (w[6].compare(0, 4, "lit:") == 0) {
        size_t c = w[6].find(':', 4);
        if (c == std::string::npos) { bad(); continue; }
        r.lit = atoi(w[6].substr(4, c - 4).c_str());
        std::string hex = w[6].substr(c + 1), d;
        if (litText(r.lit) == NULL || !parseHex(hex, &d) || d != litText(r.lit)) { bad(); continue; }
        r.file = d;
      } else if (w[6].compare(0, 4, "dyn:") == 0) {
        if (!parseHex(w[6].substr(4), &r.file) || r.file.find('\0') != std::string::npos) { bad(); continue; }
      } else { bad(); continue; }
      if (!parseI(w[7], INT_MIN, INT_MAX, &v)) { bad(); continue; }
      r.line = static_cast<int>(v);
      if (w[8] != "-" && (!parseBytes(w[8], &r.func) || r.func.find('\0') != std::string::npos)) { bad(); continue; }
      if ((r.ctor == "c4") != (w[8] != "-")) { bad(); continue; }
      if (!parseBytes(w[10], &r.msg) || w[9] != "msg") { bad(); continue; }
      // what would abort the process is only run in a child
      bool fatal = (r.ctor == "ct") || ((r.ctor == "c3" || r.ctor == "c4") && r.level == 5);
      if (fatal && (where != "fork" || w[4] == "now")) { reject(); continue; }
      if (!inDomain(us)) { reject(); continue; }
      g_scripted = (w[4] != "now"); g_scriptedUs = us;
      int64_t t0 = realUs();
      Result res;
      run(where, [&] { doLog(r); }, &res);
      int64_t t1 = realUs();
      g_scripted = false;
      if (w[4] == "now") printf("# bracket %" PRId64 " %" PRId64 "\n", t0, t1);
      report(res, false, (r.ctor == "cb" || r.ctor == "ct") ? r.err : 0);
    } else if (op == "macro" && w.size() == 6) {
      // macro <where> <m> <clock> <errno> <msg>
      long long m, e; int64_t us; std::string msg;
      const std::string& where = w[1];
      if (!isWhere(where)) { bad(); continue; }
      if (!parseI(w[2], 0, 7, &m) || !clockOk(w[3], &us) || !parseI(w[4], 0, 4095, &e) || !parseBytes(w[5], &msg)) { bad(); continue; }
      bool fatal = (m == 5 || m == 7);
      if (fatal && (where != "fork" || w[3] == "now")) { reject(); continue; }
      if (!inDomain(us)) { reject(); continue; }
      g_scripted = (w[3] != "now"); g_scriptedUs = us;
      int64_t t0 = realUs();
      Result res;
      int mi = static_cast<int>(m), ei = static_cast<int>(e);
      run(where, [&] { macroSite(mi, ei, msg, false); }, &res);
      int64_t t1 = realUs();
      g_scripted = false;
      // file / line / func of the site do not depend on the run: take them from a dry call
      macroSite(mi, ei, msg, true);
      if (w[3] == "now") printf("# bracket %" PRId64 " %" PRId64 "\n", t0, t1);
      report(res, true, (mi >= 6) ? ei : 0);
    } else if ((op == "si" || op == "iec") && w.size() == 2) {
      long long v;
      if (!parseI(w[1], 0, LLONG_MAX, &v)) { bad(); continue; }
      muduo::string s = (op == "si") ? muduo::formatSI(v) : muduo::formatIEC(v);
      printf("%s %s\n--\n", op.c_str(), toHex(s).c_str());
    } else if (op == "sweep16" && w.size() == 1) {
      sweep(0, 65536, true);
    } else if (op == "sweep32" && w.size() == 3) {
      unsigned long long lo, hi;
      if (!parseU(w[1], 1ULL << 32, &lo) || !parseU(w[2], 1ULL << 32, &hi) || lo > hi) { bad(); continue; }
      sweep(lo, hi, false);
    } else {
      bad();
    }
  }
  fflush(stdout);
  return 0;
}
