// C++ side of `drv_pool`: the real muduo::net::EventLoopThreadPool behind the line protocol of
// lean/Driver/PoolDrv.lean.
//
//   start <n>   -> started <n>           (n <= 64) a fresh pool with n threads; the previous one is destroyed first
//   next        -> loop <base|w<i>|unknown>
//   next <k>    -> loops <r1> ... <rk>   (k <= 10000)
//   hash <h>    -> loop <r>              (h < 2^64)
//   all         -> all <r1> ...
//   spin <k>    -> spun <k> first <r|-> last <r|-> bad <b> [firstbad <i> got <r> want <r>]     (k <= 2^33)
//                  k getNextLoop() calls in a tight loop, digest only: the first and the last result, the number b of
//                  calls i >= 1 whose result is not the cyclic successor (in callback order; the base loop follows
//                  itself when n = 0) of the result of call i-1, and the first such call (0-based within this op).
//                  NOT part of the model driver's protocol (drv_pool answers bad-op): the expectation is the closed
//                  form `(calls so far + i) mod n` of the Python oracle / of theorem C05.pool_round_robin.  Meant for
//                  call counts around 2^31 and 2^32, where a cursor of the wrong width or a free-running one shows.
//   selfquit <i> -> selfquit <i> gone   the io loop with callback index i quits itself; answered when its EventLoop object
//                  has been destroyed.  NOT part of the model driver's protocol (oracle only): the pool is destroyed
//                  later with one of its loops already gone, which must touch nothing that is dead.
//   anything else, or a query before the first `start` -> bad-op
//
// A loop is named independently of getAllLoops()/loops_: by the order in which the ThreadInitCallback
// passed to start() saw it.  start() creates the threads one at a time and EventLoopThread::startLoop()
// returns only after that thread's callback has run, so callback order = creation order 0..n-1.
// With n = 0 the callback is invoked once with the base loop.
// `# cbs ...` (for the Python oracle only) lists what the callbacks saw.
#include "muduo/net/EventLoopThreadPool.h"
#include "muduo/net/EventLoop.h"
#include "muduo/base/Logging.h"
#include "muduo/base/Mutex.h"
#include "muduo/base/CountDownLatch.h"
#include <unistd.h>
#include "common.h"
#include <errno.h>
#include <memory>

using muduo::net::EventLoop;
using muduo::net::EventLoopThreadPool;
using namespace vh;

static_assert(sizeof(size_t) == 8, "the protocol passes 64-bit hash codes");
static const unsigned long long kMaxThreads = 64;
static const unsigned long long kMaxBurst = 10000;
static const unsigned long long kMaxSpin = 1ULL << 33;

static muduo::MutexLock g_mutex;
static std::vector<EventLoop*> g_seen;   // loops in callback order (guarded by g_mutex)

static void logToStderr(const char* msg, int len) { fwrite(msg, 1, static_cast<size_t>(len), stderr); }
static void flushStderr() { fflush(stderr); }

static void onThreadInit(EventLoop* loop) {
  muduo::MutexLockGuard lock(g_mutex);
  g_seen.push_back(loop);
}

// plain decimal, no sign, fits 64 bits
static bool parseU64(const std::string& s, unsigned long long* out) {
  if (s.empty()) return false;
  for (size_t i = 0; i < s.size(); ++i) if (s[i] < '0' || s[i] > '9') return false;
  errno = 0;
  char* end = NULL;
  unsigned long long v = strtoull(s.c_str(), &end, 10);
  if (errno != 0 || *end != '\0') return false;
  *out = v;
  return true;
}

static std::string nameOf(EventLoop* base, EventLoop* l) {
  if (l == base) return "base";
  muduo::MutexLockGuard lock(g_mutex);
  for (size_t i = 0; i < g_seen.size(); ++i) {
    if (g_seen[i] == l) { char buf[32]; snprintf(buf, sizeof buf, "w%zu", i); return buf; }
  }
  return "unknown";
}

static void bad() { printf("bad-op\n--\n"); }

// `spin <count>`: see the header comment
static void spin(EventLoop* base, EventLoopThreadPool* pool, unsigned long long count) {
  std::vector<EventLoop*> order;
  {
    muduo::MutexLockGuard lock(g_mutex);
    order = g_seen;
  }
  if (order.empty()) order.push_back(base);   // not reached: with n = 0 the callback saw the base loop
  const size_t n = order.size();
  EventLoop* const* ord = &order[0];
  EventLoop* first = NULL;
  EventLoop* last = NULL;
  EventLoop* badGot = NULL;
  EventLoop* badWant = NULL;
  unsigned long long nbad = 0, firstBad = 0;
  size_t idx = 0;            // position of the previous result in `order` (n: not one of them)
  for (unsigned long long i = 0; i < count; ++i) {
    EventLoop* l = pool->getNextLoop();
    if (i == 0) {
      first = l;
      idx = n;
      for (size_t j = 0; j < n; ++j) if (ord[j] == l) { idx = j; break; }
    } else {
      size_t want = idx + 1;
      if (want >= n) want = 0;     // idx == n (unknown predecessor) also lands on 0: counted as a break below unless l is ord[0]
      if (__builtin_expect(l != ord[want] || idx == n, 0)) {
        if (nbad++ == 0) { firstBad = i; badGot = l; badWant = idx == n ? NULL : ord[want]; }
        idx = n;
        for (size_t j = 0; j < n; ++j) if (ord[j] == l) { idx = j; break; }
      } else {
        idx = want;
      }
    }
    last = l;
  }
  printf("spun %llu first %s last %s bad %llu", count, count ? nameOf(base, first).c_str() : "-",
         count ? nameOf(base, last).c_str() : "-", nbad);
  if (nbad) printf(" firstbad %llu got %s want %s", firstBad, nameOf(base, badGot).c_str(),
                   badWant ? nameOf(base, badWant).c_str() : "?");
  printf("\n--\n");
}

int main() {
  muduo::Logger::setOutput(logToStderr);
  muduo::Logger::setFlush(flushStderr);
  muduo::Logger::setLogLevel(muduo::Logger::ERROR);
  EventLoop base;
  std::unique_ptr<EventLoopThreadPool> pool;
  std::string line;
  while (std::getline(std::cin, line)) {
    if (!line.empty() && line[0] == '<') continue;
    std::vector<std::string> w = words(line);
    if (w.empty()) continue;
    const std::string& op = w[0];
    unsigned long long v = 0;
    if (op == "start" && w.size() == 2 && parseU64(w[1], &v) && v <= kMaxThreads) {
      pool.reset();   // ~EventLoopThreadPool: every EventLoopThread quits its loop and joins
      {
        muduo::MutexLockGuard lock(g_mutex);
        g_seen.clear();
      }
      pool.reset(new EventLoopThreadPool(&base, "p"));
      pool->setThreadNum(static_cast<int>(v));
      pool->start(onThreadInit);
      {
        muduo::MutexLockGuard lock(g_mutex);
        printf("# cbs");
        for (size_t i = 0; i < g_seen.size(); ++i) {
          if (g_seen[i] == &base) printf(" base"); else printf(" w%zu", i);
        }
        printf("\n");
      }
      printf("started %llu\n--\n", v);
    } else if (op == "next" && w.size() == 1 && pool) {
      printf("loop %s\n--\n", nameOf(&base, pool->getNextLoop()).c_str());
    } else if (op == "next" && w.size() == 2 && pool && parseU64(w[1], &v) && v <= kMaxBurst) {
      printf("loops");
      for (unsigned long long i = 0; i < v; ++i) printf(" %s", nameOf(&base, pool->getNextLoop()).c_str());
      printf("\n--\n");
    } else if (op == "hash" && w.size() == 2 && pool && parseU64(w[1], &v)) {
      printf("loop %s\n--\n", nameOf(&base, pool->getLoopForHash(static_cast<size_t>(v))).c_str());
    } else if (op == "spin" && w.size() == 2 && pool && parseU64(w[1], &v) && v <= kMaxSpin) {
      spin(&base, pool.get(), v);
    } else if (op == "selfquit" && w.size() == 2 && pool && parseU64(w[1], &v)) {
      // the io loop with callback index v ends ON ITS OWN (a task on it calls quit()); returns when that EventLoop object
      // has been destroyed (its context, destroyed with it, counts a latch down).  NOT part of the model driver's
      // protocol.  What follows (`start`, end of input) destroys a pool one of whose loops is already gone.
      EventLoop* l = NULL;
      {
        muduo::MutexLockGuard lock(g_mutex);
        if (v < g_seen.size() && g_seen[v] != &base) l = g_seen[v];
      }
      if (!l) { bad(); fflush(stdout); continue; }
      struct Note { muduo::CountDownLatch* latch; explicit Note(muduo::CountDownLatch* x) : latch(x) {} ~Note() { latch->countDown(); } };
      muduo::CountDownLatch gone(1);
      std::shared_ptr<Note> note(new Note(&gone));
      l->runInLoop([l, note] { l->setContext(note); l->quit(); });
      note.reset();
      gone.wait();
      usleep(20000);        // let threadFunc() finish: the thread has returned from loop() and the EventLoop is destroyed
      printf("selfquit %llu gone\n--\n", v);
    } else if (op == "all" && w.size() == 1 && pool) {
      std::vector<EventLoop*> ls = pool->getAllLoops();
      printf("all");
      for (size_t i = 0; i < ls.size(); ++i) printf(" %s", nameOf(&base, ls[i]).c_str());
      printf("\n--\n");
    } else {
      bad();
    }
    fflush(stdout);
  }
  fflush(stdout);
  pool.reset();
  return 0;
}
