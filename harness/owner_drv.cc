// Deterministic differential-test driver ("T3-style correspondence") around the REAL muduo::net::TcpServer with
// L io threads (EventLoopThreadPool) and scripted raw-socket peers on loopback.  Same line protocol as the model
// driver lean/Driver/OwnerDrv.lean (its header comment IS the protocol); glue: vlib/owner_common.py.
//
// Every EventLoop thread is GATED: exactly one of {controller (the thread reading stdin), loop threads} runs at
// any time and the schedule is the input.  Gates (a loop thread stops there and waits for the controller):
//     EventLoop::loop:beforePoll, EventLoop::doPendingFunctors:afterSwap, EventLoop::doPendingFunctors:functorDone
// and, armed once by the op `holdHandover`, EventLoop::queueInLoop:appended: the BASE thread is parked right after it
// appended a functor to the queue of ANOTHER loop while it dispatches a channel event (= inside the acceptor's
// TcpServer::newConnection, immediately after the hand-over `ioLoop->runInLoop(connectEstablished)`, before wakeup() and
// before any later statement of newConnection).  `step 0` / `iter 0` return when the base thread is parked there; the
// io loops can then be advanced (the connection is theirs: connectEstablished, the peer's FIN, handleClose ..) while the
// acceptor thread has not executed another instruction - a preemption at that point; the next `step 0` / `iter 0` lets
// it go on.  With no io threads (L = 0) runInLoop runs inline, nothing is appended and the op has no effect.
// `step l` = to the next gate, `iter l` = until parked at beforePoll again.  epoll_wait/poll of loop threads are
// interposed (this TU) and never block (timeout 0).  A thread in FREE mode passes gates without stopping:
//   * the base thread after the op `quit` (until it has left loop(), destroyed the server and its own loop);
//   * io thread k from the moment its destroyer (~EventLoopThread, run by the base thread inside ~TcpServer) has
//     stored quit_ (point `EventLoop::quit:stored`, obj = that thread's loop): the destroyer then only wakes the
//     loop up and blocks in join, so still only one thread does anything observable.  (The hook at
//     `EventLoopThread::dtor:entry` would be too early: quit_ is not yet set there, and whether the released thread
//     sees it at the end of its current iteration or one iteration later would be a race.  Freed after quit_ is
//     stored, the thread finishes exactly the iteration it is in and leaves.  The loops are identified by address,
//     so the destruction order of std::vector<std::unique_ptr<EventLoopThread>> - front to back in libstdc++, as
//     the `< exit 1` `< exit 2` order of every 2-thread run shows - is not relied upon.)
//
// stdin ops / stdout blocks: see lean/Driver/OwnerDrv.lean and vlib/owner_common.py.  Per op: lines, then `--`.
//   `< ev l accept|msg c|close c`, `< fn l`, `< end l`, `< exit l`, `< destroy`, `< gone l`  schedule/environment facts (for
//                             the model); `< gone l`: the EventLoop OBJECT of thread l is destroyed (functors stranded
//                             in its queue are destroyed without being run)
//   `t <c> <kind> <thread>`   observable trace (kind: new up msg down erase destroyed dtor; thread l<k> or f)
//   `# ...`                   for the oracle / humans (not compared)
//   `st live=<ids|-> srv=<0|1>`
// Everything is observed on the implementation's own behaviour: muduo's log (TRACE level, Logger::setOutput hook),
// the user callbacks, the interposed close().  Nothing here depends on wall-clock time, port numbers or pids: the
// only clocks are safety nets that end in `# INCONCLUSIVE ...` + exit status 2.
#include "muduo/base/VerifHooks.h"
#include "muduo/base/Logging.h"
#include "muduo/net/Buffer.h"
#include "muduo/net/EventLoop.h"
#include "muduo/net/InetAddress.h"
#include "muduo/net/TcpConnection.h"
#include "muduo/net/TcpServer.h"
#include "common.h"

#include <arpa/inet.h>
#include <dlfcn.h>
#include <errno.h>
#include <netinet/in.h>
#include <netinet/tcp.h>
#include <sys/ioctl.h>
#include <poll.h>
#include <semaphore.h>
#include <signal.h>
#include <stdarg.h>
#include <string.h>
#include <sys/epoll.h>
#include <sys/socket.h>
#include <time.h>
#include <unistd.h>

#include <atomic>
#include <map>
#include <memory>
#include <mutex>
#include <thread>

#ifndef MUDUO_VERIF
#error "owner_drv needs -DMUDUO_VERIF (named points)"
#endif

using namespace muduo;
using namespace muduo::net;

// ---------------------------------------------------------------------------------------------------
// state

static const int kMaxLoops = 9;
static const int kSafetyMs = 2000;        // confirmations on loopback
static const int kGateSafetyS = 20;       // a loop thread that never comes back to a gate

static thread_local int t_thr = -1;       // 0 base loop thread, 1..L io threads (thread-init order), -1 controller/other

enum Phase { IDLE = 0, EVENT = 1, FUNCTORS = 2 };
enum Gate { G_NONE = 0, G_BEFOREPOLL, G_AFTERSWAP, G_FUNCTORDONE, G_HANDOVER };

struct LoopThread {
  sem_t go;
  std::atomic<bool> freeRun;
  std::atomic<bool> exited;      // left loop() (io thread: threadFunc is past loop(); base: everything is over)
  std::atomic<int> at;           // the gate it is parked at
  EventLoop* loop;
  int phase;
  size_t fnPos;                  // output position at which the functor now running (if any) started
  int batchRan;
  bool afterExit;
  LoopThread() : freeRun(false), exited(false), at(G_NONE), loop(NULL), phase(IDLE), fnPos(0), batchRan(0), afterExit(false) {
    sem_init(&go, 0, 0);
  }
};
static LoopThread g_lt[kMaxLoops];
static sem_t g_arrived;
static int g_L = -1;                       // -1: no `server` op yet
static std::atomic<int> g_inits(0);
static std::atomic<int> g_holdHandover(0);  // armed by `holdHandover`: the base thread's next hand-over to an io loop parks it

static std::recursive_mutex g_mu;          // output lines + every table below
static std::vector<std::string> g_out;     // lines of the current op

struct ConnRec {
  std::string name;
  TcpConnection* raw;      // from the ctor log line; valid while `alive`
  bool alive;              // ctor seen, dtor not yet
  int fd;                  // descriptor, -1 once closed
  int peerPort;
  int peer;                // index of the peer on the other side, -1 unknown
  uint64_t delivered;      // bytes handed to the message callback so far
  int holds;
  std::vector<TcpConnectionPtr> held;
  ConnRec() : raw(NULL), alive(false), fd(-1), peerPort(0), peer(-1), delivered(0), holds(0) {}
};
static std::vector<ConnRec*> g_conns;              // index c = accept order
static std::map<std::string, int> g_byName;
static std::map<const void*, int> g_byPtr;         // live objects
static std::map<int, int> g_byFd;                  // open descriptors of connections
static int g_lastAccepted = -1;
static int g_accepted = 0, g_connected = 0;   // newConnection calls / successful connect()s of the peers

static TcpServer* g_srv = NULL;
static EventLoop* g_base = NULL;
static int g_port = 0, g_listenFd = -1;
static std::thread* g_baseThread = NULL;
static bool g_quitDone = false;

struct PeerRec {
  int fd; int port;
  int conn;            // server-side connection (accept order), -1 until accepted
  uint64_t sent;       // bytes written so far
  bool fin, rst;
  PeerRec() : fd(-1), port(0), conn(-1), sent(0), fin(false), rst(false) {}
};
static std::vector<PeerRec> g_peers;

// ---------------------------------------------------------------------------------------------------
// output

static std::string thrName() {
  if (t_thr < 0) return "f";
  char b[16]; snprintf(b, sizeof b, "l%d", t_thr); return b;
}

static void emit(const std::string& s) {
  std::lock_guard<std::recursive_mutex> l(g_mu);
  g_out.push_back(s);
}
static void emitf(const char* f, ...) __attribute__((format(printf, 1, 2)));
static void emitf(const char* f, ...) {
  char b[1024]; va_list ap; va_start(ap, f); vsnprintf(b, sizeof b, f, ap); va_end(ap);
  emit(b);
}

static void writeAll(const char* p, size_t n) {
  while (n > 0) { ssize_t w = ::write(1, p, n); if (w <= 0) { if (errno == EINTR) continue; return; } p += w; n -= static_cast<size_t>(w); }
}

static void flushBlock() {
  std::string s;
  {
    std::lock_guard<std::recursive_mutex> l(g_mu);
    for (size_t i = 0; i < g_out.size(); ++i) { s += g_out[i]; s += '\n'; }
    g_out.clear();
  }
  s += "--\n";
  writeAll(s.data(), s.size());
}

static void inconclusive(const char* why) __attribute__((noreturn));
static void inconclusive(const char* why) {
  emitf("# INCONCLUSIVE %s", why);
  flushBlock();
  _exit(2);
}

static void onFatalSignal(int sig) {
  // the failing thread is the only one running; the others are parked at their gates
  for (size_t i = 0; i < g_out.size(); ++i) { writeAll(g_out[i].data(), g_out[i].size()); writeAll("\n", 1); }
  const char* m = sig == SIGABRT ? "<<abort>>\n--\n" : "<<segv>>\n--\n";
  writeAll(m, strlen(m));
  signal(sig, SIG_DFL);
  raise(sig);
}

// ---------------------------------------------------------------------------------------------------
// interposition: loop threads never block in the poller; descriptor closes are recorded

template <typename F> static F realFn(const char* name) {
  void* p = dlsym(RTLD_NEXT, name);
  if (!p) { fprintf(stderr, "owner_drv: no real %s\n", name); _exit(3); }
  return reinterpret_cast<F>(p);
}

extern "C" int epoll_wait(int epfd, struct epoll_event* events, int maxevents, int timeout) {
  typedef int (*fn)(int, struct epoll_event*, int, int);
  static fn real = realFn<fn>("epoll_wait");
  if (t_thr >= 0) timeout = 0;
  return real(epfd, events, maxevents, timeout);
}

extern "C" int poll(struct pollfd* fds, nfds_t nfds, int timeout) {
  typedef int (*fn)(struct pollfd*, nfds_t, int);
  static fn real = realFn<fn>("poll");
  if (t_thr >= 0) timeout = 0;
  return real(fds, nfds, timeout);
}

extern "C" int close(int fd) {
  typedef int (*fn)(int);
  static fn real = realFn<fn>("close");
  if (g_L >= 0) {
    std::lock_guard<std::recursive_mutex> l(g_mu);
    std::map<int, int>::iterator it = g_byFd.find(fd);
    if (it != g_byFd.end()) {
      int c = it->second;
      g_byFd.erase(it);
      g_conns[static_cast<size_t>(c)]->fd = -1;
      emitf("# close %d %s", c, thrName().c_str());
    }
  }
  return real(fd);
}

// ---------------------------------------------------------------------------------------------------
// gating

static void semWait(sem_t* s) { while (sem_wait(s) < 0 && errno == EINTR) {} }

static void waitArrived() {
  struct timespec ts; clock_gettime(CLOCK_REALTIME, &ts); ts.tv_sec += kGateSafetyS;
  for (;;) {
    if (sem_timedwait(&g_arrived, &ts) == 0) return;
    if (errno == EINTR) continue;
    inconclusive("a loop thread did not come back to a gate (safety net)");
  }
}

static size_t outPos() { std::lock_guard<std::recursive_mutex> l(g_mu); return g_out.size(); }

static void gate(LoopThread& s, Gate g) {
  if (s.freeRun.load()) return;
  s.at = g;
  sem_post(&g_arrived);
  semWait(&s.go);
  s.at = G_NONE;
}

static void pointHook(const char* name, const void* obj) {
  if (strcmp(name, "EventLoop::quit:stored") == 0) {
    // ~EventLoopThread (base thread, inside ~TcpServer) has told io loop k to quit: k runs free from here
    for (int k = 1; k <= g_L; ++k) {
      if (g_lt[k].loop == obj && !g_lt[k].freeRun.load()) {
        g_lt[k].freeRun = true;
        sem_post(&g_lt[k].go);
      }
    }
    return;
  }
  if (t_thr < 0) return;
  LoopThread& s = g_lt[t_thr];
  if (t_thr == 0 && obj != s.loop && s.phase == EVENT && strcmp(name, "EventLoop::queueInLoop:appended") == 0) {
    // the acceptor's callback (TcpServer::newConnection) has just appended a functor to an io loop's queue
    int armed = g_holdHandover.load();
    if (armed > 0 && g_holdHandover.compare_exchange_strong(armed, armed - 1)) {
      int k = -1;
      for (int i = 1; i <= g_L; ++i) if (g_lt[i].loop == obj) k = i;
      emitf("# held-after-handover l%d", k);
      gate(s, G_HANDOVER);
    }
    return;
  }
  if (strcmp(name, "EventLoopThread::threadFunc:loopReturned") == 0) {
    // threadFunc is about to return: the io thread's EventLoop object goes out of scope (on this thread)
    s.exited = true;
    emitf("< gone %d", t_thr);
    return;
  }
  if (obj != s.loop) return;
  if (strncmp(name, "EventLoop::loop:", 16) == 0) {
    const char* w = name + 16;
    if (strcmp(w, "beforePoll") == 0) { s.phase = IDLE; gate(s, G_BEFOREPOLL); }
    else if (strcmp(w, "afterPoll") == 0) s.phase = EVENT;
    else if (strcmp(w, "afterFunctors") == 0) {
      if (s.batchRan > 0) emitf("< end %d", t_thr);
      s.batchRan = 0;
      s.phase = IDLE;
    }
    else if (strcmp(w, "exit") == 0) { emitf("< exit %d", t_thr); s.afterExit = true; }
    return;
  }
  if (strncmp(name, "EventLoop::doPendingFunctors:", 29) == 0) {
    const char* w = name + 29;
    if (strcmp(w, "beforeSwap") == 0) s.phase = FUNCTORS;
    else if (strcmp(w, "afterSwap") == 0) {
      s.batchRan = 0;
      if (!s.afterExit) gate(s, G_AFTERSWAP);
      s.fnPos = outPos();
    } else if (strcmp(w, "functorDone") == 0) {
      if (!s.afterExit) {
        // placed where the functor STARTED: a functor of the base loop may be the one that destroys the server,
        // inside which the io threads run (and print) until they have exited
        std::lock_guard<std::recursive_mutex> l(g_mu);
        char b[32]; snprintf(b, sizeof b, "< fn %d", t_thr);
        size_t pos = std::min(s.fnPos, g_out.size());
        g_out.insert(g_out.begin() + static_cast<std::ptrdiff_t>(pos), b);
        // nobody else is mid-functor with a remembered position behind `pos`: the other threads are parked at
        // gates (= between functors) and take their position when they leave the gate
        s.batchRan++;
      }
      if (!s.afterExit) gate(s, G_FUNCTORDONE);
      s.fnPos = outPos();
    }
    return;
  }
}

// controller: let loop thread l run to its next gate
static bool advance(int l) {
  LoopThread& s = g_lt[l];
  if (s.exited.load() || s.freeRun.load()) return false;
  sem_post(&s.go);
  waitArrived();
  return true;
}

// ---------------------------------------------------------------------------------------------------
// observations: muduo's log

static std::string mask(const std::string& in) {
  // port numbers, pointers and thread ids differ from run to run
  std::string s = in, o;
  for (size_t i = 0; i < s.size();) {
    if (s.compare(i, 10, "127.0.0.1:") == 0) { o += "127.0.0.1:P"; i += 10; while (i < s.size() && isdigit(static_cast<unsigned char>(s[i]))) ++i; }
    else if (s.compare(i, 2, "0x") == 0) { o += "0xP"; i += 2; while (i < s.size() && isxdigit(static_cast<unsigned char>(s[i]))) ++i; }
    else if (s.compare(i, 12, "threadId_ = ") == 0) { o += "threadId_ = T"; i += 12; while (i < s.size() && isdigit(static_cast<unsigned char>(s[i]))) ++i; }
    else if (s.compare(i, 12, "thread id = ") == 0) { o += "thread id = T"; i += 12; while (i < s.size() && isdigit(static_cast<unsigned char>(s[i]))) ++i; }
    else o.push_back(s[i++]);
  }
  return o;
}

static int idOf(const std::string& name) {
  size_t h = name.rfind('#');
  if (h == std::string::npos || h + 1 >= name.size() || !isdigit(static_cast<unsigned char>(name[h + 1]))) return -1;
  return atoi(name.c_str() + h + 1);
}

static void logHook(const char* msg, int len) {
  std::string line(msg, static_cast<size_t>(len));
  while (!line.empty() && (line[line.size() - 1] == '\n' || line[line.size() - 1] == '\r')) line.erase(line.size() - 1);
  std::lock_guard<std::recursive_mutex> l(g_mu);
  size_t p;
  if ((p = line.find("TcpServer::newConnection [")) != std::string::npos) {
    size_t a = line.find("new connection [", p), f = line.find("] from ", p);
    if (a == std::string::npos || f == std::string::npos || f < a) { emitf("# name-anomaly unparsable `%s`", mask(line.substr(p)).c_str()); return; }
    std::string name = line.substr(a + 16, f - (a + 16));
    std::string from = line.substr(f + 7);
    size_t sp = from.find(' '); if (sp != std::string::npos) from = from.substr(0, sp);
    size_t colon = from.rfind(':');
    int c = static_cast<int>(g_conns.size());
    ConnRec* r = new ConnRec; r->name = name; r->peerPort = colon == std::string::npos ? 0 : atoi(from.c_str() + colon + 1);
    g_conns.push_back(r);
    if (idOf(name) - 1 != c) emitf("# name-anomaly connection %d (accept order) is called `%s`", c, mask(name).c_str());
    if (g_byName.count(name)) emitf("# name-anomaly the name `%s` of connection %d is given to connection %d as well", mask(name).c_str(), g_byName[name], c);
    g_byName[name] = c;
    g_lastAccepted = c;
    emitf("< ev %d accept", t_thr);
    emitf("t %d new %s", c, thrName().c_str());
    g_accepted++;
    for (size_t i = 0; i < g_peers.size(); ++i) {
      // (a port number may come back after an RST: the accept queue is FIFO, so it is the first peer not yet matched)
      if (g_peers[i].port == r->peerPort && r->peerPort && g_peers[i].conn < 0) { g_peers[i].conn = c; r->peer = static_cast<int>(i); emitf("# peer %zu %d", i, c); break; }
    }
    return;
  }
  if ((p = line.find("TcpConnection::ctor[")) != std::string::npos) {
    size_t at = line.find("] at ", p), fdp = line.find(" fd=", p);
    int c = g_lastAccepted;       // the constructor runs inside newConnection, right after its log line
    if (c < 0 || at == std::string::npos || fdp == std::string::npos) { emitf("# ctor-anomaly `%s`", mask(line.substr(p)).c_str()); return; }
    ConnRec* r = g_conns[static_cast<size_t>(c)];
    if (line.substr(p + 20, at - (p + 20)) != r->name) emitf("# ctor-anomaly connection %d: constructed as `%s`", c, mask(line.substr(p + 20, at - (p + 20))).c_str());
    r->raw = reinterpret_cast<TcpConnection*>(static_cast<uintptr_t>(strtoull(line.c_str() + at + 5, NULL, 16)));
    r->alive = true;
    r->fd = atoi(line.c_str() + fdp + 4);
    g_byPtr[r->raw] = c;
    g_byFd[r->fd] = c;
    return;
  }
  if ((p = line.find("TcpConnection::dtor[")) != std::string::npos) {
    size_t at = line.find("] at ", p), stp = line.find(" state=", p);
    const void* raw = at == std::string::npos ? NULL : reinterpret_cast<const void*>(static_cast<uintptr_t>(strtoull(line.c_str() + at + 5, NULL, 16)));
    std::map<const void*, int>::iterator it = g_byPtr.find(raw);
    if (it == g_byPtr.end()) { emitf("# dtor-anomaly `%s`", mask(line.substr(p)).c_str()); return; }
    int c = it->second;
    g_byPtr.erase(it);
    g_conns[static_cast<size_t>(c)]->alive = false;
    std::string st = stp == std::string::npos ? "?" : line.substr(stp + 7);
    size_t sp = st.find(' '); if (sp != std::string::npos) st = st.substr(0, sp);
    emitf("t %d dtor %s", c, thrName().c_str());
    emitf("# dtor-state %d %s", c, st.c_str());
    return;
  }
  if ((p = line.find("TcpServer::removeConnectionInLoop [")) != std::string::npos) {
    size_t a = line.find("- connection ", p);
    std::string name = a == std::string::npos ? "" : line.substr(a + 13);
    size_t sp = name.find(' '); if (sp != std::string::npos) name = name.substr(0, sp);
    std::map<std::string, int>::iterator it = g_byName.find(name);
    if (it == g_byName.end()) { emitf("# erase-anomaly `%s`", mask(line.substr(p)).c_str()); return; }
    emitf("t %d erase %s", it->second, thrName().c_str());
    return;
  }
  if ((p = line.find(" removeChannel fd = ")) != std::string::npos) {
    int fd = atoi(line.c_str() + p + 20);
    std::map<int, int>::iterator it = g_byFd.find(fd);
    if (it != g_byFd.end()) emitf("t %d destroyed %s", it->second, thrName().c_str());
    return;
  }
  const char* lv[] = { " ERROR ", " FATAL " };
  for (int i = 0; i < 2; ++i) {
    if ((p = line.find(lv[i])) != std::string::npos) { emitf("# log %s", mask(line.substr(p + 1)).c_str()); return; }
  }
}
static void logFlush() {}

// ---------------------------------------------------------------------------------------------------
// observations: callbacks

static int connOf(const TcpConnectionPtr& c) {
  std::lock_guard<std::recursive_mutex> l(g_mu);
  std::map<const void*, int>::iterator it = g_byPtr.find(c.get());
  return it == g_byPtr.end() ? -1 : it->second;
}

static void onConnection(const TcpConnectionPtr& conn) {
  int c = connOf(conn);
  if (conn->connected()) {
    emitf("t %d up %s", c, thrName().c_str());
  } else {
    if (t_thr >= 0 && g_lt[t_thr].phase == EVENT) emitf("< ev %d close %d", t_thr, c);
    emitf("t %d down %s", c, thrName().c_str());
  }
  if (c >= 0) {
    int want = -1;
    for (int k = 0; k <= g_L; ++k) if (g_lt[k].loop == conn->getLoop()) want = k;
    if (want != t_thr) emitf("# getLoop %d l%d", c, want);   // the callback did not run on the thread of conn->getLoop()
  }
}

static void onMessage(const TcpConnectionPtr& conn, Buffer* buf, Timestamp) {
  int c = connOf(conn);
  size_t n = buf->readableBytes();
  buf->retrieveAll();
  emitf("< ev %d msg %d", t_thr, c);
  emitf("t %d msg %s", c, thrName().c_str());
  emitf("# bytes %d %zu", c, n);
  if (c >= 0) { std::lock_guard<std::recursive_mutex> l(g_mu); g_conns[static_cast<size_t>(c)]->delivered += n; }
}

static void onThreadInit(EventLoop* loop) {
  if (loop == g_base) return;    // no pool: the callback is run once with the base loop
  int k = g_inits.fetch_add(1) + 1;
  t_thr = k;
  g_lt[k].loop = loop;
}

// ---------------------------------------------------------------------------------------------------
// the base thread

static void findListener() {
  for (int fd = 0; fd < 256; ++fd) {
    int v = 0; socklen_t l = sizeof v;
    if (::getsockopt(fd, SOL_SOCKET, SO_ACCEPTCONN, &v, &l) == 0 && v == 1) {
      struct sockaddr_in a; socklen_t al = sizeof a;
      if (::getsockname(fd, reinterpret_cast<struct sockaddr*>(&a), &al) == 0 && a.sin_family == AF_INET) {
        g_listenFd = fd; g_port = ntohs(a.sin_port); return;
      }
    }
  }
}

static void baseMain(int L) {
  t_thr = 0;
  {
    EventLoop base;
    g_base = &base;
    g_lt[0].loop = &base;
    g_srv = new TcpServer(&base, InetAddress("127.0.0.1", 0), "srv");   // port chosen by the kernel
    g_srv->setThreadNum(L);
    g_srv->setThreadInitCallback(onThreadInit);
    g_srv->setConnectionCallback(onConnection);
    g_srv->setMessageCallback(onMessage);
    g_srv->start();      // every io thread gets as far as its first gate (beforePoll)
    findListener();
    base.loop();         // first gate: beforePoll.  Returns after the op `quit`.
    if (g_srv) {
      emit("< destroy");
      emit("# server-destroy-begin");
      delete g_srv;      // joins the io threads (each runs free from the moment it is told to quit)
      g_srv = NULL;
    }
    // the EventLoop object goes out of scope: functors stranded in its queue are destroyed without being run
    emit("< gone 0");
  }
  g_lt[0].exited = true;
  sem_post(&g_arrived);
}

static void destroyServerFunctor() {
  if (g_srv) emit("# server-destroy-begin");
  delete g_srv;          // NULL when an earlier functor already did it
  g_srv = NULL;
}

// ---------------------------------------------------------------------------------------------------
// controller

static bool baseRunning() { return g_L >= 0 && !g_quitDone; }

static void doQuit() {
  if (!baseRunning()) return;
  g_quitDone = true;
  g_lt[0].freeRun = true;
  g_base->quit();
  sem_post(&g_lt[0].go);
  waitArrived();
  g_baseThread->join();
  g_base = NULL;
}

static TcpConnectionPtr lockConn(int c) {
  std::lock_guard<std::recursive_mutex> l(g_mu);
  if (c < 0 || static_cast<size_t>(c) >= g_conns.size() || !g_conns[static_cast<size_t>(c)]->alive) return TcpConnectionPtr();
  try { return g_conns[static_cast<size_t>(c)]->raw->shared_from_this(); } catch (const std::bad_weak_ptr&) { return TcpConnectionPtr(); }
}

// Loopback delivery is synchronous in practice (after connect()/write()/shutdown()/close() return, the server side
// sees it), but nothing guarantees it (softirq work can be deferred under load).  So before any loop thread runs, and
// after every peer action, the controller CONFIRMS on the server side's own descriptors that everything the peers
// have done so far has arrived: accept queue length of the listening socket (tcp_info.tcpi_unacked of a LISTEN
// socket), unread byte count (FIONREAD) = written - delivered, FIN (POLLRDHUP), RST (POLLERR/POLLHUP).  A safety net
// of 2 s ends the run as INCONCLUSIVE; no verdict depends on the time it took.
static bool settledOnce() {
  std::lock_guard<std::recursive_mutex> l(g_mu);
  if (g_srv && g_listenFd >= 0) {
    struct tcp_info ti; socklen_t tl = sizeof ti; memset(&ti, 0, sizeof ti);
    if (::getsockopt(g_listenFd, IPPROTO_TCP, TCP_INFO, &ti, &tl) == 0 && static_cast<int>(ti.tcpi_unacked) != g_connected - g_accepted) return false;
  }
  for (size_t p = 0; p < g_peers.size(); ++p) {
    const PeerRec& pr = g_peers[p];
    if (pr.conn < 0) continue;
    const ConnRec& cr = *g_conns[static_cast<size_t>(pr.conn)];
    if (cr.fd < 0) continue;
    struct pollfd pf; pf.fd = cr.fd; pf.events = POLLIN | POLLRDHUP; pf.revents = 0;
    ::poll(&pf, 1, 0);
    if (pr.rst) { if (!(pf.revents & (POLLERR | POLLHUP))) return false; continue; }
    int unread = 0;
    if (::ioctl(cr.fd, FIONREAD, &unread) == 0 && static_cast<uint64_t>(unread) != pr.sent - cr.delivered) return false;
    if (pr.fin && !(pf.revents & POLLRDHUP)) return false;
  }
  return true;
}

static void settle(const char* when) {
  for (int i = 0; i < kSafetyMs * 10; ++i) {
    if (settledOnce()) return;
    usleep(100);
  }
  char b[160]; snprintf(b, sizeof b, "what the peers did has not reached the server side within the safety net (%s)", when);
  inconclusive(b);
}

static void printSt() {
  std::lock_guard<std::recursive_mutex> l(g_mu);
  std::string ids;
  for (size_t c = 0; c < g_conns.size(); ++c) if (g_conns[c]->alive) { if (!ids.empty()) ids += ","; ids += std::to_string(c); }
  emitf("st live=%s srv=%d", ids.empty() ? "-" : ids.c_str(), g_srv ? 1 : 0);
}

static bool num(const std::string& s, int* v) {
  if (s.empty() || s.size() > 6) return false;
  for (size_t i = 0; i < s.size(); ++i) if (!isdigit(static_cast<unsigned char>(s[i]))) return false;
  *v = atoi(s.c_str());
  return true;
}

static void doOp(const std::vector<std::string>& w) {
  const std::string& op = w[0];
  int a = 0, b = 0;
  if (op == "server") {
    if (g_L >= 0 || w.size() < 2 || !num(w[1], &a) || a > kMaxLoops - 1 || (w.size() > 2 && !num(w[2], &b))) { emit("bad-op"); return; }
    if (b) setenv("MUDUO_USE_POLL", "1", 1); else unsetenv("MUDUO_USE_POLL");
    g_L = a;
    g_baseThread = new std::thread(&baseMain, a);
    for (int i = 0; i <= a; ++i) waitArrived();
    if (g_inits.load() != a) emitf("# pool-size %d io threads ran the thread-init callback, setThreadNum(%d)", g_inits.load(), a);
    if (!g_port) inconclusive("the listening socket was not found");
    emit("ok");
    return;
  }
  if (g_L < 0) { emit("bad-op"); return; }
  if (op == "connect" && w.size() == 1) {
    PeerRec pr;
    int fd = ::socket(AF_INET, SOCK_STREAM | SOCK_CLOEXEC, 0);
    struct timeval tv; tv.tv_sec = kSafetyMs / 1000; tv.tv_usec = 0;
    ::setsockopt(fd, SOL_SOCKET, SO_SNDTIMEO, &tv, sizeof tv);
    struct sockaddr_in sa; memset(&sa, 0, sizeof sa);
    sa.sin_family = AF_INET; sa.sin_port = htons(static_cast<uint16_t>(g_port)); sa.sin_addr.s_addr = htonl(INADDR_LOOPBACK);
    int rc;
    do { rc = ::connect(fd, reinterpret_cast<struct sockaddr*>(&sa), sizeof sa); } while (rc < 0 && errno == EINTR);
    if (rc < 0) {
      emitf("# connect-failed %s", strerror(errno));
      ::close(fd);
    } else {
      struct sockaddr_in me; socklen_t ml = sizeof me;
      ::getsockname(fd, reinterpret_cast<struct sockaddr*>(&me), &ml);
      pr.fd = fd; pr.port = ntohs(me.sin_port);
      g_connected++;
    }
    g_peers.push_back(pr);
    settle("connect");
  } else if (op == "send" && w.size() == 3 && num(w[1], &a) && num(w[2], &b)) {
    if (static_cast<size_t>(a) >= g_peers.size() || g_peers[static_cast<size_t>(a)].fd < 0 || b > 65536) emit("# no-peer");
    else {
      std::string data(static_cast<size_t>(b), 'x');
      ssize_t n = ::send(g_peers[static_cast<size_t>(a)].fd, data.data(), data.size(), MSG_NOSIGNAL);
      if (n != static_cast<ssize_t>(b)) emitf("# send-failed %s", n < 0 ? strerror(errno) : "short");
      if (n > 0) g_peers[static_cast<size_t>(a)].sent += static_cast<uint64_t>(n);
      settle("send");
    }
  } else if (op == "fin" && w.size() == 2 && num(w[1], &a)) {
    if (static_cast<size_t>(a) >= g_peers.size() || g_peers[static_cast<size_t>(a)].fd < 0) emit("# no-peer");
    else {
      ::shutdown(g_peers[static_cast<size_t>(a)].fd, SHUT_WR);
      g_peers[static_cast<size_t>(a)].fin = true;
      settle("fin");
    }
  } else if (op == "rst" && w.size() == 2 && num(w[1], &a)) {
    if (static_cast<size_t>(a) >= g_peers.size() || g_peers[static_cast<size_t>(a)].fd < 0) emit("# no-peer");
    else {
      struct linger lg; lg.l_onoff = 1; lg.l_linger = 0;
      ::setsockopt(g_peers[static_cast<size_t>(a)].fd, SOL_SOCKET, SO_LINGER, &lg, sizeof lg);
      ::close(g_peers[static_cast<size_t>(a)].fd);
      g_peers[static_cast<size_t>(a)].fd = -1;
      g_peers[static_cast<size_t>(a)].rst = true;
      settle("rst");
    }
  } else if (op == "step" && w.size() == 2 && num(w[1], &a)) {
    settle("step");
    if (a <= g_L) advance(a);
  } else if (op == "iter" && w.size() == 2 && num(w[1], &a)) {
    settle("iter");
    if (a <= g_L) {
      while (advance(a)) { if (g_lt[a].at.load() == G_BEFOREPOLL || g_lt[a].at.load() == G_HANDOVER) break; }
    }
  } else if ((op == "forceClose" || op == "shutdown") && w.size() == 2 && num(w[1], &a)) {
    TcpConnectionPtr conn = lockConn(a);
    if (conn) { if (op == "forceClose") conn->forceClose(); else conn->shutdown(); }
    conn.reset();
  } else if (op == "hold" && w.size() == 2 && num(w[1], &a)) {
    TcpConnectionPtr conn = lockConn(a);
    if (conn) g_conns[static_cast<size_t>(a)]->held.push_back(conn);
  } else if (op == "drop" && w.size() == 2 && num(w[1], &a)) {
    TcpConnectionPtr last;
    if (static_cast<size_t>(a) < g_conns.size() && !g_conns[static_cast<size_t>(a)]->held.empty()) {
      last.swap(g_conns[static_cast<size_t>(a)]->held.back());
      g_conns[static_cast<size_t>(a)]->held.pop_back();
    }
    last.reset();      // the destructor may run here, on the controller thread
  } else if (op == "holdHandover" && w.size() == 1) {
    g_holdHandover.fetch_add(1);
  } else if (op == "postDestroy" && w.size() == 1) {
    if (baseRunning() && g_srv) g_base->queueInLoop(&destroyServerFunctor);
  } else if (op == "quit" && w.size() == 1) {
    settle("quit");
    doQuit();
  } else {
    emit("bad-op");
    return;
  }
  printSt();
}

int main() {
  sem_init(&g_arrived, 0, 0);
  signal(SIGPIPE, SIG_IGN);
  signal(SIGABRT, onFatalSignal);
#if !defined(__SANITIZE_ADDRESS__) && !defined(__SANITIZE_THREAD__)
  signal(SIGSEGV, onFatalSignal);
  signal(SIGBUS, onFatalSignal);
#endif
  Logger::setOutput(logHook);
  Logger::setFlush(logFlush);
  Logger::setLogLevel(Logger::TRACE);
  muduo::verif::pointHook() = pointHook;

  std::string line;
  while (std::getline(std::cin, line)) {
    std::vector<std::string> w = vh::words(line);
    if (w.empty() || w[0][0] == '#' || w[0].compare(0, 7, "engine=") == 0) continue;
    doOp(w);
    flushBlock();
  }
  // implicit quit, silent.  References still held by the controller are abandoned: their loops are gone.
  if (g_L >= 0 && !g_quitDone) {
    doQuit();
    std::lock_guard<std::recursive_mutex> l(g_mu);
    g_out.clear();
  }
  _exit(0);
}
