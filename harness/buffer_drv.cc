// C++ side of `driver buffer`: runs the real muduo::net::Buffer on the operation lines.
#include "muduo/net/Buffer.h"
#include "common.h"
#include <sys/socket.h>
#include <unistd.h>
#include <fcntl.h>
#include <errno.h>
#include <zlib.h>
#include <atomic>
#include <thread>
#include <vector>

using muduo::net::Buffer;
using namespace vh;

static int g_sv[2];

static void stLine(const Buffer& b, const std::string& ret) {
  // for the Python oracle only (lines starting with '#' are not compared with the model)
  printf("# crc=%lu\n", crc32(0L, reinterpret_cast<const Bytef*>(b.peek()), static_cast<uInt>(b.readableBytes())));
  printf("st r=%zu w=%zu p=%zu h=%llu ret=%s\n--\n", b.readableBytes(), b.writableBytes(), b.prependableBytes(),
         static_cast<unsigned long long>(fnv64(b.peek(), b.readableBytes())), ret.c_str());
}
static void reject() { printf("reject\n--\n"); }
static void bad() { printf("bad-op\n--\n"); }

static std::string i2s(long long v) { char buf[32]; snprintf(buf, sizeof buf, "%lld", v); return buf; }

int main() {
  if (socketpair(AF_UNIX, SOCK_STREAM | SOCK_NONBLOCK, 0, g_sv) != 0) { perror("socketpair"); return 2; }
  int big = 8 << 20;
  setsockopt(g_sv[0], SOL_SOCKET, SO_SNDBUF, &big, sizeof big);
  Buffer* b = new Buffer();
  std::string line;
  while (std::getline(std::cin, line)) {
    std::vector<std::string> w = words(line);
    if (w.empty()) continue;
    const std::string& op = w[0];
    std::string d;
    if (op == "new" && w.size() == 2) {
      delete b; b = new Buffer(strtoull(w[1].c_str(), NULL, 10)); stLine(*b, "-");
    } else if (op == "append" && w.size() == 2 && parseBytes(w[1], &d)) {
      b->append(d.data(), d.size()); stLine(*b, "-");
    } else if (op == "prepend" && w.size() == 2 && parseBytes(w[1], &d)) {
      if (d.size() > b->prependableBytes()) { reject(); continue; }
      b->prepend(d.data(), d.size()); stLine(*b, "-");
    } else if (op == "retrieve" && w.size() == 2) {
      size_t n = strtoull(w[1].c_str(), NULL, 10);
      if (n > b->readableBytes()) { reject(); continue; }
      b->retrieve(n); stLine(*b, "-");
    } else if (op == "retrieveAll") {
      b->retrieveAll(); stLine(*b, "-");
    } else if (op == "retrieveAsString" && w.size() == 2) {
      size_t n = strtoull(w[1].c_str(), NULL, 10);
      if (n > b->readableBytes()) { reject(); continue; }
      muduo::string s = b->retrieveAsString(n);
      stLine(*b, std::to_string(fnv64(s.data(), s.size())));
    } else if (op == "ensure" && w.size() == 2) {
      b->ensureWritableBytes(strtoull(w[1].c_str(), NULL, 10)); stLine(*b, "-");
    } else if (op == "write" && w.size() == 2 && parseBytes(w[1], &d)) {
      if (d.size() > b->writableBytes()) { reject(); continue; }
      std::copy(d.begin(), d.end(), b->beginWrite());
      b->hasWritten(d.size()); stLine(*b, "-");
    } else if (op == "unwrite" && w.size() == 2) {
      size_t n = strtoull(w[1].c_str(), NULL, 10);
      if (n > b->readableBytes()) { reject(); continue; }
      b->unwrite(n); stLine(*b, "-");
    } else if (op == "shrink" && w.size() == 2) {
      b->shrink(strtoull(w[1].c_str(), NULL, 10)); stLine(*b, "-");
    } else if (op == "swapfresh" && w.size() == 3 && parseBytes(w[2], &d)) {
      Buffer other(strtoull(w[1].c_str(), NULL, 10));
      other.append(d.data(), d.size());
      b->swap(other); stLine(*b, "-");
    } else if ((op == "appendInt" || op == "prependInt") && w.size() == 3) {
      int n = atoi(w[1].c_str()); long long v = strtoll(w[2].c_str(), NULL, 10);
      bool pre = (op == "prependInt");
      if (pre && static_cast<size_t>(n) > b->prependableBytes()) { reject(); continue; }
      switch (n) {
        case 1: pre ? b->prependInt8(static_cast<int8_t>(v)) : b->appendInt8(static_cast<int8_t>(v)); break;
        case 2: pre ? b->prependInt16(static_cast<int16_t>(v)) : b->appendInt16(static_cast<int16_t>(v)); break;
        case 4: pre ? b->prependInt32(static_cast<int32_t>(v)) : b->appendInt32(static_cast<int32_t>(v)); break;
        case 8: pre ? b->prependInt64(v) : b->appendInt64(v); break;
        default: bad(); continue;
      }
      stLine(*b, "-");
    } else if ((op == "readInt" || op == "peekInt") && w.size() == 2) {
      int n = atoi(w[1].c_str());
      if (static_cast<size_t>(n) > b->readableBytes()) { reject(); continue; }
      bool rd = (op == "readInt"); long long v = 0;
      switch (n) {
        case 1: v = rd ? b->readInt8() : b->peekInt8(); break;
        case 2: v = rd ? b->readInt16() : b->peekInt16(); break;
        case 4: v = rd ? b->readInt32() : b->peekInt32(); break;
        case 8: v = rd ? b->readInt64() : b->peekInt64(); break;
        default: bad(); continue;
      }
      stLine(*b, i2s(v));
    } else if ((op == "findCRLF" || op == "findEOL") && w.size() == 2) {
      bool crlf = (op == "findCRLF");
      const char* r;
      if (w[1] == "-") {
        r = crlf ? b->findCRLF() : b->findEOL();
      } else {
        size_t st = strtoull(w[1].c_str(), NULL, 10);
        if (st > b->readableBytes()) { reject(); continue; }
        r = crlf ? b->findCRLF(b->peek() + st) : b->findEOL(b->peek() + st);
      }
      stLine(*b, r ? i2s(r - b->peek()) : "null");
    } else if (op == "readFd" && w.size() == 2 && parseBytes(w[1], &d)) {
      size_t off = 0;
      while (off < d.size()) {
        ssize_t k = ::write(g_sv[0], d.data() + off, d.size() - off);
        if (k <= 0) break;
        off += static_cast<size_t>(k);
      }
      if (off == 0) {
        // nothing to read: the model is not asked (readv would report EAGAIN)
        printf("< readv 0\n");
        stLine(*b, "0");
        continue;
      }
      int err = 0;
      ssize_t n = b->readFd(g_sv[1], &err);
      if (n < 0) { printf("readFd-error %d\n--\n", err); continue; }
      char sink[65536];
      while (::read(g_sv[1], sink, sizeof sink) > 0) {}
      printf("< readv %zd\n", n);
      stLine(*b, i2s(n));
    } else if (op == "mtReadFd" && w.size() == 3) {
      // oracle-only scenario: T threads, each its own socketpair + Buffer + byte value; every readFd call spills
      int T = atoi(w[1].c_str()), R = atoi(w[2].c_str());
      std::atomic<int> bad(-1), badRound(0), got(0);
      std::vector<std::thread> ts;
      for (int k = 0; k < T; ++k) ts.emplace_back([k, R, &bad, &badRound, &got] {
        int sv[2];
        if (socketpair(AF_UNIX, SOCK_STREAM | SOCK_NONBLOCK, 0, sv) != 0) return;
        int sz = 1 << 20; setsockopt(sv[0], SOL_SOCKET, SO_SNDBUF, &sz, sizeof sz);
        const char mine = static_cast<char>('A' + k);
        std::string chunk(49152, mine);
        for (int r = 0; r < R && bad.load() < 0; ++r) {
          Buffer buf(16);
          size_t off = 0;
          while (off < chunk.size()) { ssize_t n = ::write(sv[0], chunk.data() + off, chunk.size() - off); if (n <= 0) break; off += static_cast<size_t>(n); }
          size_t total = 0;
          while (total < off) {
            int err = 0;
            ssize_t n = buf.readFd(sv[1], &err);
            if (n <= 0) break;
            total += static_cast<size_t>(n);
          }
          bool ok = buf.readableBytes() == off;
          for (size_t i = 0; ok && i < buf.readableBytes(); ++i) if (buf.peek()[i] != mine) { ok = false; got = buf.peek()[i]; }
          if (!ok) { badRound = r; bad = k; }
        }
        ::close(sv[0]); ::close(sv[1]);
      });
      for (auto& t : ts) t.join();
      if (bad.load() < 0) printf("mt ok\n--\n");
      else printf("mt corrupt thread=%d round=%d wrote='%c' buffer-holds=%d\n--\n", bad.load(), badRound.load(), 'A' + bad.load(), got.load());
    } else {
      bad();
    }
  }
  fflush(stdout);
  delete b;
  return 0;
}
