// asynclog_drv — the real muduo::AsyncLogging (its real 4 MB buffers) under the deterministic scheduler
// (harness/sched/detsched.h).  Engine name "asynclog" (C16, concurrent half, T3).
//
// Line protocol (after EVERY input line: zero or more lines, then `--`):
//   log [spurious]                       new case (spurious: offer spurious wake-ups of the back-end as moves)
//   main: <ops…>                         program of T0:   start | stop | a <len>
//   thread <k>: a <len> a <len> …        appending thread k (k = 1,2,… consecutive; at least one op)
//   schedule <ints…>                     run the case in a forked child and print its events
// T0 runs its ops, then joins the appending threads, then destroys the object (the destructor stops a running
// back-end), all under the schedule.  `start`, `stop` and the destruction are preceded by a yield point.
// Threads: T0 main, T1..Tk appenders (created before the schedule starts, parked at their first lock),
// T<k+1> the back-end thread (created by start()).
//
// Every record is self-describing: record (tid, seq) of length len >= 24 is `R<tid>.<seq>.<len>\n`, filler, `\n`;
// a shorter one is len copies of the byte 0x80+id (id: number of the short record in program order).  The files the
// back-end wrote are read back from disk and parsed into whole records / drop announcements.
//
// Event lines (compared with the model):
//   T<i> append <seq> <len> cur=<bytes in currentBuffer_> queued=<buffers_.size()> next=<nextBuffer_ non-null>
//   T0 start | T0 stop-call | T0 stop-return | T0 destroy running=<0|1> | T0 destroyed
//   T<b> wait | T<b> wake notified|timeout|spurious | T<b> swapped cur=… queued=… next=…
//   T<b> wrote <items…> | T<b> exit wrote <items…>       items newly found in the files: <tid>.<seq> | note:<n>
//   done | blocked T0:… T1:…
// Oracle-only lines: `# dec <decisions>`, `# stop-file <items…>` (the files parsed from the start when stop() has
//   returned), `# file <items…>` (the same after destruction),
//   `# stderr-notes <n>` (drop announcements on stderr), `# stderr <text>` (after an abnormal end).
#include <assert.h>
#include <ctype.h>
#include <dirent.h>
#include <errno.h>
#include <fcntl.h>
#include <signal.h>
#include <stdio.h>
#include <stdlib.h>
#include <string.h>
#include <sys/mman.h>
#include <sys/stat.h>
#include <sys/types.h>
#include <sys/wait.h>
#include <unistd.h>

#include <algorithm>
#include <atomic>
#include <deque>
#include <functional>
#include <map>
#include <memory>
#include <sstream>
#include <string>
#include <vector>

#include <boost/circular_buffer.hpp>

#include "sched/detsched.h"

#include "muduo/base/Types.h"
#include "muduo/base/noncopyable.h"
#include "muduo/base/CurrentThread.h"
#include "muduo/base/Atomic.h"
#include "muduo/base/Timestamp.h"
#include "muduo/base/StringPiece.h"

#define private public
#define protected public
#include "muduo/base/Mutex.h"
#include "muduo/base/Condition.h"
#include "muduo/base/CountDownLatch.h"
#include "muduo/base/Thread.h"
#include "muduo/base/LogStream.h"
#include "muduo/base/AsyncLogging.h"
#undef private
#undef protected

namespace {

enum MainCode { M_START, M_STOP, M_APPEND };
struct MainOp { MainCode code; int len; };

struct CaseDef {
  bool valid, spurious;
  std::vector<MainOp> main;
  std::vector<std::vector<int> > threads;
  CaseDef() : valid(false), spurious(false) {}
};

const int kMaxThreads = 8;
const int kMaxOps = 400;
const int kMaxLen = 8000000;
const int kLongFormat = 24;      // shortest self-describing record

struct RecInfo { int tid, seq, len, shortId; };

const CaseDef* g_case;
muduo::AsyncLogging* g_log;
std::string g_dir;
std::map<std::pair<int, int>, RecInfo> g_recs;
std::vector<RecInfo> g_short;
int g_backend = -1;
std::vector<char> g_scratch;

// ------------------------------------------------------------------------------------------- record contents
void fill(char* dst, const RecInfo& r) {
  if (r.len < kLongFormat) { memset(dst, 0x80 + r.shortId, static_cast<size_t>(r.len)); return; }
  char blk[251];
  for (int j = 0; j < 251; ++j) blk[j] = static_cast<char>('a' + (j * 7 + r.seq * 13 + r.tid * 5) % 26);
  int h = snprintf(dst, static_cast<size_t>(kLongFormat), "R%d.%d.%d\n", r.tid, r.seq, r.len);
  int p = h;
  while (p < r.len) {
    int n = std::min(251, r.len - p);
    memcpy(dst + p, blk, static_cast<size_t>(n));
    p += n;
  }
  dst[r.len - 1] = '\n';
}

void buildTable(const CaseDef& c) {
  g_recs.clear(); g_short.clear();
  std::vector<std::vector<int> > all;
  std::vector<int> m;
  for (size_t i = 0; i < c.main.size(); ++i) if (c.main[i].code == M_APPEND) m.push_back(c.main[i].len);
  all.push_back(m);
  for (size_t k = 0; k < c.threads.size(); ++k) all.push_back(c.threads[k]);
  for (size_t t = 0; t < all.size(); ++t)
    for (size_t s = 0; s < all[t].size(); ++s) {
      RecInfo r; r.tid = static_cast<int>(t); r.seq = static_cast<int>(s); r.len = all[t][s]; r.shortId = -1;
      if (r.len < kLongFormat) { r.shortId = static_cast<int>(g_short.size()); g_short.push_back(r); }
      g_recs[std::make_pair(r.tid, r.seq)] = r;
    }
}

// ------------------------------------------------------------------------------------------- reading the files back
struct Parser {
  size_t idx; size_t off; size_t base;    // file index, offset inside it, bytes of the files before it
  bool stuck;
  Parser() : idx(0), off(0), base(0), stuck(false) {}
};

std::vector<std::string> logFiles() {
  std::vector<std::string> fs;
  DIR* d = opendir(g_dir.c_str());
  if (!d) return fs;
  while (struct dirent* e = readdir(d)) {
    std::string n = e->d_name;
    if (n.size() > 5 && n.compare(0, 5, "alog.") == 0) fs.push_back(g_dir + "/" + n);
  }
  closedir(d);
  std::sort(fs.begin(), fs.end());
  return fs;
}

// appends the complete items found from the parser's position on; `final`: report an incomplete tail too
void parseMore(Parser* ps, bool final, std::vector<std::string>* items) {
  char b[64];
  std::vector<std::string> fs = logFiles();
  while (!ps->stuck && ps->idx < fs.size()) {
    int fd = open(fs[ps->idx].c_str(), O_RDONLY);
    if (fd < 0) break;
    struct stat st;
    if (fstat(fd, &st) != 0) { close(fd); break; }
    size_t size = static_cast<size_t>(st.st_size);
    const char* data = 0;
    if (size > 0) {
      void* m = mmap(0, size, PROT_READ, MAP_PRIVATE, fd, 0);
      if (m == MAP_FAILED) { close(fd); break; }
      data = static_cast<const char*>(m);
    }
    bool partial = false;
    while (ps->off < size && !ps->stuck && !partial) {
      size_t p = ps->off, left = size - p;
      unsigned char c = static_cast<unsigned char>(data[p]);
      const RecInfo* r = 0;
      if (c == 'R') {
        size_t nl = 0;
        while (nl < left && nl < 32 && data[p + nl] != '\n') ++nl;
        if (nl == left && left < 32) { partial = true; break; }
        int tid = -1, seq = -1, len = -1;
        std::string head(data + p, nl);
        if (nl >= 32 || sscanf(head.c_str(), "R%d.%d.%d", &tid, &seq, &len) != 3) { ps->stuck = true; break; }
        std::map<std::pair<int, int>, RecInfo>::const_iterator it = g_recs.find(std::make_pair(tid, seq));
        if (it == g_recs.end() || it->second.len != len || len < kLongFormat) { ps->stuck = true; break; }
        r = &it->second;
      } else if (c >= 0x80) {
        size_t id = c - 0x80u;
        if (id >= g_short.size()) { ps->stuck = true; break; }
        r = &g_short[id];
      } else if (c == 'D') {
        static const char kPrefix[] = "Dropped log messages at ";
        size_t nl = 0;
        while (nl < left && nl < 200 && data[p + nl] != '\n') ++nl;
        if (nl == left && left < 200) { partial = true; break; }
        std::string line(data + p, nl);
        size_t comma = line.rfind(", ");
        int n = -1;
        if (nl >= 200 || line.compare(0, sizeof kPrefix - 1, kPrefix) != 0 || comma == std::string::npos ||
            sscanf(line.c_str() + comma, ", %d larger buffers", &n) != 1) { ps->stuck = true; break; }
        snprintf(b, sizeof b, "note:%d", n);
        items->push_back(b);
        ps->off += nl + 1;
        continue;
      } else { ps->stuck = true; break; }
      size_t len = static_cast<size_t>(r->len);
      if (len > left) { partial = true; break; }
      if (g_scratch.size() < len) g_scratch.resize(len);
      fill(&g_scratch[0], *r);
      if (memcmp(&g_scratch[0], data + p, len) != 0) { ps->stuck = true; break; }
      snprintf(b, sizeof b, "%d.%d", r->tid, r->seq);
      items->push_back(b);
      ps->off += len;
    }
    if (ps->stuck) { snprintf(b, sizeof b, "garbage@%zu", ps->base + ps->off); items->push_back(b); }
    else if (partial && final) { snprintf(b, sizeof b, "partial@%zu", ps->base + ps->off); items->push_back(b); ps->stuck = true; }
    if (data) munmap(const_cast<char*>(data), size);
    close(fd);
    if (ps->stuck || partial || ps->idx + 1 >= fs.size()) break;
    // this file is exhausted and a newer one exists
    ps->base += size; ps->off = 0; ++ps->idx;
  }
}

std::string joinItems(const std::vector<std::string>& v) {
  std::string s;
  for (size_t i = 0; i < v.size(); ++i) { s += " "; s += v[i]; }
  return s;
}

Parser g_live;

void frontState(char* b, size_t n) {
  long cur = g_log->currentBuffer_ ? static_cast<long>(g_log->currentBuffer_->length()) : -1;
  snprintf(b, n, "cur=%ld queued=%zu next=%d", cur, g_log->buffers_.size(), g_log->nextBuffer_ ? 1 : 0);
}

// ------------------------------------------------------------------------------------------- the threads
void doAppend(int tid, int seq, int len) {
  static __thread std::vector<char>* buf = 0;
  if (!buf) buf = new std::vector<char>;
  if (buf->size() < static_cast<size_t>(len)) buf->resize(static_cast<size_t>(len));
  fill(&(*buf)[0], g_recs[std::make_pair(tid, seq)]);
  g_log->append(&(*buf)[0], len);
  char st[96];
  frontState(st, sizeof st);
  printf("T%d append %d %d %s\n", ds::self(), seq, len, st);
}

void* appender(void* p) {
  long k = reinterpret_cast<long>(p);
  const std::vector<int>& lens = g_case->threads[static_cast<size_t>(k - 1)];
  for (size_t i = 0; i < lens.size(); ++i) doAppend(static_cast<int>(k), static_cast<int>(i), lens[i]);
  return 0;
}

void observer(const ds::Ev& e) {
  char st[96];
  if (e.kind == ds::EV_CREATE && ds::g().thr[static_cast<size_t>(e.arg)]->muduoThread) g_backend = e.arg;
  if (e.thread != g_backend || g_backend < 0) return;
  switch (e.kind) {
    case ds::EV_WAIT: if (e.name && !strcmp(e.name, "cond")) printf("T%d wait\n", e.thread); break;
    case ds::EV_WAKE:
      if (e.name && !strcmp(e.name, "cond"))
        printf("T%d wake %s\n", e.thread, e.arg == 0 ? "notified" : e.arg == 1 ? "timeout" : "spurious");
      break;
    case ds::EV_POINT:
      if (!strcmp(e.name, "AsyncLogging::threadFunc:swapped")) {
        frontState(st, sizeof st);
        printf("T%d swapped %s\n", e.thread, st);
      } else if (!strcmp(e.name, "AsyncLogging::threadFunc:beforeRetest")) {
        std::vector<std::string> items;
        parseMore(&g_live, false, &items);
        printf("T%d wrote%s\n", e.thread, joinItems(items).c_str());
      }
      break;
    case ds::EV_EXIT: {
      std::vector<std::string> items;
      parseMore(&g_live, false, &items);
      printf("T%d exit wrote%s\n", e.thread, joinItems(items).c_str());
      break;
    }
    default: break;
  }
}

void onBlocked(const std::vector<ds::ThreadState>&) {
  printf("# dec %s\n", ds::decisionsString().c_str());
  printf("blocked %s\n", ds::stateString().c_str());
  fflush(stdout);
  _exit(0);
}

int countStderrNotes() {
  fflush(stderr);
  FILE* f = fopen((g_dir + "/stderr.txt").c_str(), "r");
  if (!f) return -1;
  int n = 0;
  char* line = 0; size_t cap = 0;
  while (getline(&line, &cap, f) >= 0) if (!strncmp(line, "Dropped log messages at ", 24)) ++n;
  free(line);
  fclose(f);
  return n;
}

void runChild(const CaseDef& c, const std::vector<int>& sched, const std::string& dir) {
  setvbuf(stdout, 0, _IOLBF, 0);   // events survive an abort
  alarm(120);   // safety net only: a live-locked child is reported as `<<child status 142>>`
  g_case = &c;
  g_dir = dir;
  if (chdir(dir.c_str()) != 0) { printf("<<chdir failed>>\n"); fflush(stdout); _exit(0); }
  int efd = open("stderr.txt", O_WRONLY | O_CREAT | O_TRUNC, 0644);
  if (efd >= 0) { dup2(efd, 2); close(efd); }
  buildTable(c);
  ds::cfg().spurious = c.spurious;
  ds::blockedHandler() = &onBlocked;
  ds::observer() = &observer;
  ds::init();
  g_log = new muduo::AsyncLogging("alog", static_cast<off_t>(1) << 50, 3);
  ds::name(g_log->mutex_.getPthreadMutex(), "m");
  ds::name(&g_log->cond_.pcond_, "cond");
  ds::quiet(g_log->latch_.mutex_.getPthreadMutex());
  ds::quietCond(&g_log->latch_.condition_.pcond_);
  std::vector<pthread_t> tids(c.threads.size());
  for (size_t k = 0; k < c.threads.size(); ++k) {
    if (pthread_create(&tids[k], 0, &appender, reinterpret_cast<void*>(static_cast<long>(k + 1))) != 0) {
      printf("<<pthread_create failed>>\n"); fflush(stdout); _exit(0);
    }
  }
  ds::begin(sched);
  int seq = 0;
  for (size_t i = 0; i < c.main.size(); ++i) {
    const MainOp& op = c.main[i];
    switch (op.code) {
      case M_APPEND: doAppend(0, seq++, op.len); break;
      case M_START:
        ds::yield("op");
        g_log->start();
        printf("T0 start\n");
        break;
      case M_STOP:
        ds::yield("op");
        printf("T0 stop-call\n");
        g_log->stop();
        printf("T0 stop-return\n");
        {
          // what is in the files at the moment stop() has returned
          Parser now;
          std::vector<std::string> found;
          parseMore(&now, true, &found);
          printf("# stop-file%s\n", joinItems(found).c_str());
        }
        break;
    }
  }
  for (size_t k = 0; k < tids.size(); ++k) pthread_join(tids[k], 0);
  ds::yield("op");
  printf("T0 destroy running=%d\n", g_log->running_ ? 1 : 0);
  delete g_log;
  g_log = 0;
  printf("T0 destroyed\n");
  ds::waitAll();
  printf("# dec %s\n", ds::decisionsString().c_str());
  Parser whole;
  std::vector<std::string> items;
  parseMore(&whole, true, &items);
  printf("# file%s\n", joinItems(items).c_str());
  printf("# stderr-notes %d\n", countStderrNotes());
  printf("done\n");
  fflush(stdout);
  _exit(0);
}

// ------------------------------------------------------------------------------------------- parent
bool parseInt(const std::string& s, int lo, int hi, int* out) {
  if (s.empty() || s.size() > 9) return false;
  for (size_t i = 0; i < s.size(); ++i) if (!isdigit(static_cast<unsigned char>(s[i]))) return false;
  long v = strtol(s.c_str(), 0, 10);
  if (v < lo || v > hi) return false;
  *out = static_cast<int>(v);
  return true;
}

void words(const std::string& line, std::vector<std::string>* w) {
  std::istringstream in(line);
  std::string t;
  while (in >> t) w->push_back(t);
}

void rmTree(const std::string& dir) {
  DIR* d = opendir(dir.c_str());
  if (!d) return;
  while (struct dirent* e = readdir(d)) {
    std::string n = e->d_name;
    if (n == "." || n == "..") continue;
    std::string p = dir + "/" + n;
    struct stat st;
    if (lstat(p.c_str(), &st) == 0 && S_ISDIR(st.st_mode)) rmTree(p); else unlink(p.c_str());
  }
  closedir(d);
  rmdir(dir.c_str());
}

void mkdirs(const std::string& p) {
  for (size_t i = 1; i <= p.size(); ++i)
    if (i == p.size() || p[i] == '/') mkdir(p.substr(0, i).c_str(), 0755);
}

std::string g_root;
void cleanup() { if (!g_root.empty()) rmTree(g_root); }

}  // namespace

int main() {
  const char* root = getenv("VERIF_RUN_DIR");
  g_root = std::string(root ? root : "/verif/.build/run") + "/asynclog-" + std::to_string(getpid());
  mkdirs(g_root);
  atexit(cleanup);
  CaseDef cur;
  int runNo = 0;
  char* buf = 0;
  size_t cap = 0;
  ssize_t n;
  while ((n = getline(&buf, &cap, stdin)) >= 0) {
    std::string line(buf, static_cast<size_t>(n));
    while (!line.empty() && (line[line.size() - 1] == '\n' || line[line.size() - 1] == '\r')) line.erase(line.size() - 1);
    std::vector<std::string> w;
    words(line, &w);
    if (w.empty()) continue;
    bool ok = false;
    if (w[0] == "log") {
      cur = CaseDef();
      if (w.size() == 1) { cur.valid = true; ok = true; }
      else if (w.size() == 2 && w[1] == "spurious") { cur.valid = true; cur.spurious = true; ok = true; }
    } else if (w[0] == "main:" && cur.valid && cur.main.empty()) {
      std::vector<MainOp> ops;
      ok = true;
      int starts = 0, stops = 0;
      for (size_t i = 1; ok && i < w.size(); ++i) {
        MainOp op; op.len = 0;
        if (w[i] == "start") { op.code = M_START; if (++starts > 1 || stops) ok = false; }
        else if (w[i] == "stop") { op.code = M_STOP; if (++stops > 1 || !starts) ok = false; }
        else if (w[i] == "a" && i + 1 < w.size() && parseInt(w[i + 1], 1, kMaxLen, &op.len)) { op.code = M_APPEND; ++i; }
        else ok = false;
        ops.push_back(op);
      }
      if (ops.size() > static_cast<size_t>(kMaxOps)) ok = false;
      if (ok) cur.main = ops;
    } else if (w[0] == "thread" && cur.valid) {
      int k = 0;
      if (w.size() >= 4 && w[1].size() >= 2 && w[1][w[1].size() - 1] == ':' &&
          parseInt(w[1].substr(0, w[1].size() - 1), 1, kMaxThreads, &k) && static_cast<size_t>(k) == cur.threads.size() + 1) {
        std::vector<int> lens;
        ok = true;
        for (size_t i = 2; ok && i < w.size(); i += 2) {
          int len = 0;
          if (w[i] == "a" && i + 1 < w.size() && parseInt(w[i + 1], 1, kMaxLen, &len)) lens.push_back(len);
          else ok = false;
        }
        if (lens.empty() || lens.size() > static_cast<size_t>(kMaxOps)) ok = false;
        if (ok) cur.threads.push_back(lens);
      }
    } else if (w[0] == "schedule" && cur.valid) {
      std::vector<int> sched;
      ok = true;
      for (size_t i = 1; ok && i < w.size(); ++i) {
        int v = 0;
        if (parseInt(w[i], 0, 999999999, &v)) sched.push_back(v); else ok = false;
      }
      // more short records than one-byte ids
      size_t shorts = 0;
      for (size_t i = 0; i < cur.main.size(); ++i) if (cur.main[i].code == M_APPEND && cur.main[i].len < kLongFormat) ++shorts;
      for (size_t k = 0; k < cur.threads.size(); ++k)
        for (size_t i = 0; i < cur.threads[k].size(); ++i) if (cur.threads[k][i] < kLongFormat) ++shorts;
      if (shorts > 120) ok = false;
      if (ok) {
        std::string dir = g_root + "/" + std::to_string(++runNo);
        mkdirs(dir);
        fflush(stdout);
        pid_t pid = fork();
        if (pid == 0) { runChild(cur, sched, dir); _exit(0); }
        if (pid < 0) { printf("<<fork failed>>\n"); }
        else {
          int st = 0;
          while (waitpid(pid, &st, 0) < 0 && errno == EINTR) {}
          int code = WIFSIGNALED(st) ? 128 + WTERMSIG(st) : WEXITSTATUS(st);
          if (code != 0) {
            printf("<<child status %d>>\n", code);
            FILE* f = fopen((dir + "/stderr.txt").c_str(), "r");
            if (f) {
              char* l = 0; size_t c2 = 0; int shown = 0;
              while (getline(&l, &c2, f) >= 0 && shown < 3) {
                std::string s(l);
                while (!s.empty() && (s[s.size() - 1] == '\n' || s[s.size() - 1] == '\r')) s.erase(s.size() - 1);
                if (s.compare(0, 24, "Dropped log messages at ") == 0 || s.empty()) continue;
                printf("# stderr %s\n", s.substr(0, 300).c_str());
                ++shown;
              }
              free(l);
              fclose(f);
            }
          }
        }
        rmTree(dir);
      }
    }
    if (!ok) printf("bad-op\n");
    printf("--\n");
  }
  free(buf);
  fflush(stdout);
  return 0;
}
