// Self-test of harness/sched/detsched.h.
//   sched_selftest all                      run every scenario twice per schedule through popen(self) and check:
//                                           same schedule => byte-identical output; expected blocked reports
//   sched_selftest <scenario> [seed:<n>] [ints…]   one scenario under one schedule (trace on)
// Scenarios: bq (muduo::BlockingQueue, 2 consumers + 1 producer), nonotify (a queue whose put() forgets
// notify: lost wake-up => `blocked`), abba (two mutexes taken in opposite order), pool (muduo::ThreadPool
// start/run/stop), loop (EventLoopThread: queueInLoop from T0, epoll-blocked loop thread, quit+join),
// timed (Condition::waitForSeconds: the time-out is a schedule move).
#include "interpose.h"
#include "sched/detsched.h"

#include "muduo/base/BlockingQueue.h"
#include "muduo/base/Condition.h"
#include "muduo/base/CountDownLatch.h"
#include "muduo/base/Mutex.h"
#include "muduo/base/Thread.h"
#include "muduo/base/ThreadPool.h"
#include "muduo/net/EventLoop.h"
#include "muduo/net/EventLoopThread.h"

#include <functional>
#include <memory>
#include <string>
#include <vector>

static void say(const char* fmt, int a = 0, int b = 0) {
  char buf[128];
  snprintf(buf, sizeof buf, fmt, a, b);
  printf("T%d %s\n", ds::self(), buf);
}

// ---- a queue with the notify removed (local stub)
struct NoNotifyQueue {
  muduo::MutexLock mutex_;
  muduo::Condition notEmpty_;
  std::deque<int> queue_;
  NoNotifyQueue() : mutex_(), notEmpty_(mutex_) {}
  void put(int x) { muduo::MutexLockGuard lock(mutex_); queue_.push_back(x); }
  int take() {
    muduo::MutexLockGuard lock(mutex_);
    while (queue_.empty()) notEmpty_.wait();
    int v = queue_.front(); queue_.pop_front();
    return v;
  }
};

template <typename Q> static void consumer(Q* q, int n) {
  for (int i = 0; i < n; ++i) { ds::label("take"); int v = q->take(); say("take -> %d", v); }
}
template <typename Q> static void producer(Q* q, int base, int n) {
  for (int i = 0; i < n; ++i) { ds::label("put"); q->put(base + i); say("put %d", base + i); }
}

template <typename Q> static void scenarioQueue(const std::vector<int>& sched) {
  Q q;
  muduo::Thread c1(std::bind(&consumer<Q>, &q, 2), "c1");
  muduo::Thread c2(std::bind(&consumer<Q>, &q, 2), "c2");
  muduo::Thread p(std::bind(&producer<Q>, &q, 10, 4), "p");
  c1.start(); c2.start(); p.start();
  ds::begin(sched);
  ds::waitAll();
  c1.join(); c2.join(); p.join();
}

static pthread_mutex_t mA = PTHREAD_MUTEX_INITIALIZER, mB = PTHREAD_MUTEX_INITIALIZER;
static void* ab(void*) { pthread_mutex_lock(&mA); pthread_mutex_lock(&mB); say("got A,B"); pthread_mutex_unlock(&mB); pthread_mutex_unlock(&mA); return 0; }
static void* ba(void*) { pthread_mutex_lock(&mB); pthread_mutex_lock(&mA); say("got B,A"); pthread_mutex_unlock(&mA); pthread_mutex_unlock(&mB); return 0; }
static void scenarioAbba(const std::vector<int>& sched) {
  ds::name(&mA, "A"); ds::name(&mB, "B");
  pthread_t t1, t2;
  pthread_create(&t1, 0, &ab, 0);
  pthread_create(&t2, 0, &ba, 0);
  ds::begin(sched);
  ds::waitAll();
  pthread_join(t1, 0); pthread_join(t2, 0);
}

static void task(int id) { say("task %d", id); }
static void poolProducer(muduo::ThreadPool* pool, int base) {
  for (int i = 0; i < 3; ++i) { ds::label("run"); pool->run(std::bind(&task, base + i)); say("run %d returned", base + i); }
}
static void poolStopper(muduo::ThreadPool* pool) { ds::label("stop"); pool->stop(); say("stop returned"); }
static void scenarioPool(const std::vector<int>& sched) {
  muduo::ThreadPool pool("p");
  pool.setMaxQueueSize(1);
  pool.start(2);
  muduo::Thread p1(std::bind(&poolProducer, &pool, 10), "p1");
  muduo::Thread p2(std::bind(&poolProducer, &pool, 20), "p2");
  muduo::Thread st(std::bind(&poolStopper, &pool), "st");
  p1.start(); p2.start(); st.start();
  ds::begin(sched);
  ds::waitAll();
  p1.join(); p2.join(); st.join();
}

static void inLoop(int id) { say("functor %d", id); }
static void scenarioLoop(const std::vector<int>& sched) {
  std::unique_ptr<muduo::net::EventLoopThread> lt(new muduo::net::EventLoopThread());
  muduo::net::EventLoop* loop = lt->startLoop();
  ds::begin(sched);
  loop->queueInLoop(std::bind(&inLoop, 1));
  loop->runInLoop(std::bind(&inLoop, 2));
  say("queued");
  lt.reset();          // quit + join
  say("loop thread joined");
  ds::waitAll();
}

static muduo::MutexLock* tm;
static muduo::Condition* tc;
static void timedWaiter() {
  muduo::MutexLockGuard lock(*tm);
  bool to = tc->waitForSeconds(3600.0);
  say("waitForSeconds -> %d", to ? 1 : 0);
}
static void timedNotifier() { muduo::MutexLockGuard lock(*tm); tc->notify(); say("notified"); }
static void scenarioTimed(const std::vector<int>& sched) {
  muduo::MutexLock m; muduo::Condition c(m);
  tm = &m; tc = &c;
  muduo::Thread w(&timedWaiter, "w"), n(&timedNotifier, "n");
  w.start(); n.start();
  ds::begin(sched);
  ds::waitAll();
  w.join(); n.join();
}

static int one(int argc, char** argv) {
  std::string sc = argv[1];
  std::vector<int> sched;
  for (int i = 2; i < argc; ++i) {
    if (!strncmp(argv[i], "seed:", 5)) ds::seed(strtoull(argv[i] + 5, 0, 10));
    else sched.push_back(atoi(argv[i]));
  }
  setvbuf(stdout, 0, _IOLBF, 0);
  ds::cfg().trace = true;
  ds::init();
  if (sc == "bq") scenarioQueue<muduo::BlockingQueue<int> >(sched);
  else if (sc == "nonotify") scenarioQueue<NoNotifyQueue>(sched);
  else if (sc == "abba") scenarioAbba(sched);
  else if (sc == "pool") scenarioPool(sched);
  else if (sc == "loop") scenarioLoop(sched);
  else if (sc == "timed") scenarioTimed(sched);
  else { fprintf(stderr, "unknown scenario %s\n", sc.c_str()); return 2; }
  printf("# dec %s\n", ds::decisionsString().c_str());
  printf("done\n");
  ds::shutdown();
  return 0;
}

static std::string capture(const std::string& cmd) {
  std::string out;
  FILE* f = popen(cmd.c_str(), "r");
  if (!f) return "<popen failed>";
  char buf[4096];
  size_t n;
  while ((n = fread(buf, 1, sizeof buf, f)) > 0) out.append(buf, n);
  int rc = pclose(f);
  char tail[32]; snprintf(tail, sizeof tail, "<rc %d>", rc);
  return out + tail;
}

int main(int argc, char** argv) {
  if (argc < 2) { fprintf(stderr, "usage: %s all | <scenario> [seed:<n>] [ints…]\n", argv[0]); return 2; }
  if (strcmp(argv[1], "all") != 0) return one(argc, argv);
  const char* scen[] = { "bq", "nonotify", "abba", "pool", "loop", "timed" };
  const char* scheds[] = { "", "1 1 1 1 1 1 1 1 1 1 1 1 1 1 1 1", "2 0 1 0 3 1 0 2 2 1 0 0 1 3 2 1 0 2", "seed:1", "seed:2", "seed:3", "seed:4", "seed:5", "seed:6" };
  int fails = 0;
  for (size_t s = 0; s < sizeof scen / sizeof *scen; ++s) {
    int blocked = 0, distinct = 0;
    std::vector<std::string> seen;
    for (size_t k = 0; k < sizeof scheds / sizeof *scheds; ++k) {
      std::string cmd = std::string(argv[0]) + " " + scen[s] + " " + scheds[k] + " 2>&1";
      std::string a = capture(cmd), b = capture(cmd);
      if (a != b) { printf("FAIL %s [%s]: two runs differ\n--- first\n%s\n--- second\n%s\n", scen[s], scheds[k], a.c_str(), b.c_str()); ++fails; }
      if (a.find("\nblocked ") != std::string::npos) ++blocked;
      else if (a.find("\ndone\n<rc 0>") == std::string::npos) { printf("FAIL %s [%s]: neither done nor blocked\n%s\n", scen[s], scheds[k], a.c_str()); ++fails; }
      bool isNew = true;
      for (size_t i = 0; i < seen.size(); ++i) if (seen[i] == a) isNew = false;
      if (isNew) { seen.push_back(a); ++distinct; }
    }
    int total = static_cast<int>(sizeof scheds / sizeof *scheds);
    printf("%-9s schedules=%d deterministic distinct_traces=%d blocked=%d\n", scen[s], total, distinct, blocked);
    std::string sc = scen[s];
    if (sc == "nonotify" && blocked != total) { printf("FAIL nonotify: every schedule must end all-blocked\n"); ++fails; }
    if (sc == "abba" && (blocked == 0 || blocked == total)) { printf("FAIL abba: some schedules deadlock, some do not\n"); ++fails; }
    if ((sc == "bq" || sc == "pool" || sc == "loop" || sc == "timed") && blocked != 0) { printf("FAIL %s: unexpected blocked\n", scen[s]); ++fails; }
  }
  printf(fails ? "SELFTEST FAILED\n" : "SELFTEST PASSED\n");
  return fails ? 1 : 0;
}
