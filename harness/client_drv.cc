// C++ side of `drv_client`: a real muduo::net::TcpClient (with its Connector) in a real
// EventLoop stepped one iteration per `iter` line (harness/loopstep.h) under the virtual
// clock.  What the environment decides is scripted or recorded through link-level
// interposition (harness/interpose.h): the result of ::connect, SO_ERROR, self-connect,
// poll results, readv results on the connection.  A scripted attempt's socket is one end of
// a socketpair (so writability is real); a `real` attempt goes to a raw listening socket
// of this process on 127.0.0.1 (port chosen by the kernel).
//
// protocol (one line per operation, every line answered by event lines, `st …`, `--`):
//   connect L|F · disconnect L|F · stop L|F · enableRetry · destroy L|F · holdRef · dropRef
//   hook up|down <disconnect|stop|connect|query>: the user's connection callback performs that operation on the
//     client the next time it reports UP / DOWN (one-shot, first registered first; a callback that finds the client
//     destroyed does nothing).  `query` prints `cb QUERY self|other|none`: what client.connection() returns inside
//     the callback, compared with the connection being reported.  `# hook <cb> <op> <k>` (oracle only) marks the
//     moment the operation is performed.
//   advance <us> · iter
//   script connect <ok|real|Exxx>… · script soerr <n|Exxx>… · script self <0|1>…
//   server up|down|closeNext · peer close · pollerr
#include "interpose.h"
#include "common.h"
#include "loopstep.h"

#include "muduo/base/Logging.h"
#include "muduo/net/Channel.h"
#include "muduo/net/EventLoop.h"
#include "muduo/net/InetAddress.h"
#include "muduo/net/TcpClient.h"
#include "muduo/net/TcpConnection.h"

#include <arpa/inet.h>
#include <dirent.h>
#include <fcntl.h>
#include <netinet/in.h>
#include <netinet/tcp.h>

#include <functional>
#include <memory>
#include <thread>

using namespace muduo;
using namespace muduo::net;
using namespace vh;

static std::vector<std::string> g_out;
static void emitLine(const std::string& s) { g_out.push_back(s); }
static void flushStep() {
  for (size_t i = 0; i < g_out.size(); ++i) { fputs(g_out[i].c_str(), stdout); fputc('\n', stdout); }
  g_out.clear();
  fputs("--\n", stdout);
  fflush(stdout);
}
static void emitf(const char* fmt, ...) {
  char buf[256]; va_list ap; va_start(ap, fmt); vsnprintf(buf, sizeof buf, fmt, ap); va_end(ap); emitLine(buf);
}

VI_REAL(int, close, int);
VI_REAL(int, socket, int, int, int);
VI_REAL(int, connect, int, const struct sockaddr*, socklen_t);
VI_REAL(int, getsockopt, int, int, int, void*, socklen_t*);
VI_REAL(int, getsockname, int, struct sockaddr*, socklen_t*);
VI_REAL(int, getpeername, int, struct sockaddr*, socklen_t*);
VI_REAL(int, shutdown, int, int);
VI_REAL(int, accept4, int, struct sockaddr*, socklen_t*, int);

static EventLoop* g_loop;
static TcpClient* g_client;
static TcpConnectionPtr g_userConn;
static int64_t g_base;
static bool g_active = false;          // interposition of client sockets switched on

struct Sock {
  int k;
  bool scripted;        // socketpair end
  bool handed;
  int selfDecision;     // -1 not asked yet
  int peer;             // scripted: our end of the pair; real: accepted descriptor (or -1)
  uint16_t localPort;   // real: port of the client side
  Sock() : k(-1), scripted(true), handed(false), selfDecision(-1), peer(-1), localPort(0) {}
};
static std::map<int, Sock> g_socks;          // descriptor -> socket
static std::map<int, int> g_peerOf;          // k -> harness-side descriptor of a connection (scripted or accepted)
static std::vector<int> g_handedList;        // k of the n-th connection object
static int g_nextK = 0;
static int g_harnessFds = 0;                 // descriptors the harness itself holds beyond the baseline
static std::deque<std::string> g_connectScript, g_soerrScript, g_selfScript;

// raw server
static int g_listenFd = -1;
static uint16_t g_port = 0;
static bool g_serverUp = false, g_closeNext = false;
static std::map<uint16_t, int> g_accepted;   // client port -> accepted descriptor

static int fdCount() {
  DIR* d = opendir("/proc/self/fd");
  int n = 0;
  while (struct dirent* e = readdir(d)) if (e->d_name[0] != '.') ++n;
  closedir(d);
  return n - 1;   // the directory handle itself
}
static int g_baseline = 0;

static int64_t nowRel() { return vi::clock().nowUs - g_base; }

// ---- hooks
static int hookSocket(int domain, int type, int protocol) {
  if (!g_active || domain != AF_INET || (type & 0xf) != SOCK_STREAM) return vi::kPass;
  Sock s; s.k = g_nextK++;
  std::string mode = g_connectScript.empty() ? "EINPROGRESS" : g_connectScript.front();
  int fd;
  if (mode == "real") {
    s.scripted = false;
    fd = real_socket(domain, type, protocol);
  } else {
    int sv[2];
    if (socketpair(AF_UNIX, SOCK_STREAM | SOCK_NONBLOCK | SOCK_CLOEXEC, 0, sv) != 0) { perror("socketpair"); _exit(2); }
    fd = sv[0]; s.peer = sv[1]; ++g_harnessFds;
  }
  g_socks[fd] = s;
  emitf("sock created %d", s.k);
  return fd;
}

static int hookConnect(int fd, const struct sockaddr* addr, socklen_t len) {
  std::map<int, Sock>::iterator it = g_socks.find(fd);
  if (it == g_socks.end()) return vi::kPass;
  Sock& s = it->second;
  emitf("attempt %d at %lld", s.k, static_cast<long long>(nowRel()));
  std::string mode = "EINPROGRESS";
  if (!g_connectScript.empty()) { mode = g_connectScript.front(); g_connectScript.pop_front(); }
  int ret, err = 0;
  if (!s.scripted) {
    ret = real_connect(fd, addr, len);
    err = ret == 0 ? 0 : errno;
    struct sockaddr_in la; socklen_t ll = sizeof la; memset(&la, 0, sizeof la);
    if (real_getsockname(fd, reinterpret_cast<struct sockaddr*>(&la), &ll) == 0) s.localPort = ntohs(la.sin_port);
  } else if (mode == "ok") { ret = 0; }
  else { ret = -1; err = vi::errnoValue(mode); if (err <= 0) err = EINPROGRESS; }
  emitf("< connect %d", err);
  errno = err;
  return ret;
}

static int popNum(std::deque<std::string>& q, int dflt) {
  if (q.empty()) return dflt;
  std::string t = q.front(); q.pop_front();
  if (!t.empty() && t[0] == 'E') return vi::errnoValue(t);
  return atoi(t.c_str());
}

static int hookGetsockopt(int fd, int level, int optname, void* optval, socklen_t* optlen) {
  std::map<int, Sock>::iterator it = g_socks.find(fd);
  if (it == g_socks.end() || it->second.handed || level != SOL_SOCKET || optname != SO_ERROR) return vi::kPass;
  int v = 0, ret = 0;
  if (it->second.scripted) v = popNum(g_soerrScript, 0);
  else { socklen_t l = sizeof v; ret = real_getsockopt(fd, level, optname, &v, &l); if (ret < 0) { v = errno; } }
  // sockets::getSocketError returns errno when getsockopt fails, the option value otherwise
  emitf("< soerr %d", v);
  if (optval && optlen && *optlen >= sizeof(int)) { *static_cast<int*>(optval) = v; *optlen = sizeof(int); }
  return 0;
}

static void fillAddr(struct sockaddr* addr, socklen_t* len, uint16_t port) {
  struct sockaddr_in a; memset(&a, 0, sizeof a);
  a.sin_family = AF_INET; a.sin_port = htons(port); a.sin_addr.s_addr = htonl(INADDR_LOOPBACK);
  if (*len >= sizeof a) { memcpy(addr, &a, sizeof a); *len = sizeof a; }
}

static int hookGetsockname(int fd, struct sockaddr* addr, socklen_t* len) {
  std::map<int, Sock>::iterator it = g_socks.find(fd);
  if (it == g_socks.end()) return vi::kPass;
  Sock& s = it->second;
  if (!s.handed && s.selfDecision < 0) {
    if (s.scripted) s.selfDecision = popNum(g_selfScript, 0) ? 1 : 0;
    else {
      struct sockaddr_in la, pa; socklen_t l1 = sizeof la, l2 = sizeof pa; memset(&la, 0, sizeof la); memset(&pa, 0, sizeof pa);
      real_getsockname(fd, reinterpret_cast<struct sockaddr*>(&la), &l1);
      real_getpeername(fd, reinterpret_cast<struct sockaddr*>(&pa), &l2);
      s.selfDecision = (la.sin_port == pa.sin_port && la.sin_addr.s_addr == pa.sin_addr.s_addr) ? 1 : 0;
    }
    emitf("< self %d", s.selfDecision);
  }
  if (!s.scripted) return vi::kPass;
  fillAddr(addr, len, static_cast<uint16_t>(40000 + s.k % 20000));
  return 0;
}

static int hookGetpeername(int fd, struct sockaddr* addr, socklen_t* len) {
  std::map<int, Sock>::iterator it = g_socks.find(fd);
  if (it == g_socks.end() || !it->second.scripted) return vi::kPass;
  Sock& s = it->second;
  fillAddr(addr, len, s.selfDecision == 1 ? static_cast<uint16_t>(40000 + s.k % 20000) : static_cast<uint16_t>(9));
  return 0;
}

static void hookSetsockopt(int fd, int level, int optname) {
  std::map<int, Sock>::iterator it = g_socks.find(fd);
  if (it == g_socks.end() || level != SOL_SOCKET || optname != SO_KEEPALIVE || it->second.handed) return;
  // TcpConnection's constructor: the descriptor now belongs to a connection object
  it->second.handed = true;
  g_handedList.push_back(it->second.k);
  if (it->second.peer >= 0) g_peerOf[it->second.k] = it->second.peer;
  vi::scripts()[fd].record = true;   // readv results of the connection are recorded
  emitf("sock handedOver %d", it->second.k);
}

static void hookClose(int fd) {
  std::map<int, Sock>::iterator it = g_socks.find(fd);
  if (it == g_socks.end()) return;
  Sock s = it->second;
  g_socks.erase(it);
  vi::scripts().erase(fd);
  emitf(s.handed ? "conn closed %d" : "sock closed %d", s.k);
  if (s.scripted && s.peer >= 0 && !s.handed) { real_close(s.peer); --g_harnessFds; }
}

static bool hookShutdown(int fd, int how) {
  std::map<int, Sock>::iterator it = g_socks.find(fd);
  if (it == g_socks.end()) return false;
  if (how == SHUT_WR) emitf("sys shutdownWr %d", it->second.k);
  return true;
}

static void recordPoll(const std::vector<std::pair<int, int> >& v) {
  std::string line = "< poll";
  char buf[64];
  for (size_t i = 0; i < v.size(); ++i) {
    std::map<int, Sock>::iterator it = g_socks.find(v[i].first);
    if (it != g_socks.end()) {
      if (it->second.handed) snprintf(buf, sizeof buf, " conn:%d:%d", it->second.k, v[i].second);
      else snprintf(buf, sizeof buf, " connector:%d", v[i].second);
      line += buf;
    } else if (vi::timerfds().count(v[i].first)) line += " timer";
  }
  emitLine(line);
}
static int ptrToFd(void* p) { return static_cast<Channel*>(p)->fd(); }
static void dropLog(const char*, int) {}

extern "C" void __assert_fail(const char* assertion, const char* file, unsigned int line, const char* function) __THROW {
  (void)file; (void)line; (void)function;
  emitLine(std::string("abort ") + assertion);
  flushStep();
  _exit(0);
}

static int connIndex(const TcpConnectionPtr& c) {
  size_t p = c->name().rfind('#');
  int id = p == std::string::npos ? 0 : atoi(c->name().c_str() + p + 1);
  return (id >= 1 && static_cast<size_t>(id) <= g_handedList.size()) ? g_handedList[static_cast<size_t>(id - 1)] : -1;
}
static void userOp(const std::string op);

// operations the user's connection callback performs on the client (see `hook` in the protocol comment)
struct Hook { std::string cb, op; };
static std::vector<Hook> g_hooks;
static void runHook(const char* cb, const TcpConnectionPtr& c) {
  if (!g_client) return;
  for (size_t i = 0; i < g_hooks.size(); ++i) {
    if (g_hooks[i].cb != cb) continue;
    std::string op = g_hooks[i].op;
    g_hooks.erase(g_hooks.begin() + static_cast<long>(i));
    emitf("# hook %s %s %d", cb, op.c_str(), connIndex(c));
    if (op == "query") {
      TcpConnectionPtr cur = g_client->connection();
      emitLine(!cur ? "cb QUERY none" : (cur == c ? "cb QUERY self" : "cb QUERY other"));
    } else {
      userOp(op);
    }
    return;
  }
}
static void onConnection(const TcpConnectionPtr& c) {
  bool up = c->connected();
  emitf(up ? "cb UP %d" : "cb DOWN %d", connIndex(c));
  runHook(up ? "up" : "down", c);
}
static void onMessage(const TcpConnectionPtr&, Buffer* b, Timestamp) { b->retrieveAll(); }

// ---- raw server
static void serverAccept() {
  if (g_listenFd < 0) return;
  for (;;) {
    struct sockaddr_in pa; socklen_t l = sizeof pa;
    int fd = real_accept4(g_listenFd, reinterpret_cast<struct sockaddr*>(&pa), &l, SOCK_NONBLOCK | SOCK_CLOEXEC);
    if (fd < 0) break;
    if (g_closeNext) { g_closeNext = false; real_close(fd); continue; }
    ++g_harnessFds;
    uint16_t port = ntohs(pa.sin_port);
    g_accepted[port] = fd;
    for (std::map<int, Sock>::iterator it = g_socks.begin(); it != g_socks.end(); ++it)
      if (!it->second.scripted && it->second.localPort == port) { it->second.peer = fd; g_peerOf[it->second.k] = fd; }
  }
}

static void stLine() {
  serverAccept();
  std::string conn = "gone";
  if (g_client) {
    TcpConnectionPtr c = g_client->connection();
    conn = !c ? "none" : (c->connected() ? "C" : (c->disconnected() ? "D" : "X"));
  }
  std::string alarm = "-";
  for (std::map<int, vi::TimerFd>::iterator it = vi::timerfds().begin(); it != vi::timerfds().end(); ++it)
    if (it->second.armed) { char b[32]; snprintf(b, sizeof b, "%lld", static_cast<long long>(it->second.alarmUs - g_base)); alarm = b; }
  emitf("st conn=%s alarm=%s fds=%d", conn.c_str(), alarm.c_str(), fdCount() - g_baseline - g_harnessFds);
}

static void userOp(const std::string op) {
  if (op == "connect") g_client->connect();
  else if (op == "disconnect") g_client->disconnect();
  else if (op == "stop") g_client->stop();
  else if (op == "destroy") { TcpClient* c = g_client; g_client = NULL; delete c; }
}

static bool g_pendingIter = false;

static bool interp() {
  if (g_pendingIter) { stLine(); flushStep(); g_pendingIter = false; }
  std::string line;
  while (std::getline(std::cin, line)) {
    std::vector<std::string> w = words(line);
    if (w.empty()) continue;
    const std::string& op = w[0];
    if (op == "connect" || op == "disconnect" || op == "stop" || op == "destroy") {
      if (!g_client) emitLine("bad-op");
      else if (w.size() > 1 && w[1] == "F") { std::thread t(userOp, op); t.join(); }
      else userOp(op);
    } else if (op == "enableRetry") {
      if (g_client) g_client->enableRetry(); else emitLine("bad-op");
    } else if (op == "holdRef") {
      if (g_client && g_client->connection()) g_userConn = g_client->connection();
    } else if (op == "dropRef") {
      g_userConn.reset();
    } else if (op == "hook") {
      if (w.size() == 3 && (w[1] == "up" || w[1] == "down") &&
          (w[2] == "disconnect" || w[2] == "stop" || w[2] == "connect" || w[2] == "query")) {
        Hook h; h.cb = w[1]; h.op = w[2];
        g_hooks.push_back(h);
      } else emitLine("bad-op");
    } else if (op == "advance") {
      vi::advance(atoll(w[1].c_str()));
    } else if (op == "script" && w.size() >= 2 && w[1] == "poll") {
      // script poll EINTR…: the next poll/epoll_wait calls are interrupted (C11)
      for (size_t i = 2; i < w.size(); ++i) if (w[i] == "EINTR") ++vi::pollEintr();
    } else if (op == "script" && w.size() >= 2) {
      std::deque<std::string>& q = w[1] == "connect" ? g_connectScript : (w[1] == "soerr" ? g_soerrScript : g_selfScript);
      for (size_t i = 2; i < w.size(); ++i) q.push_back(w[i]);
    } else if (op == "server" && w.size() >= 2) {
      if (w[1] == "up" && !g_serverUp) { if (::listen(g_listenFd, 16) != 0) perror("listen"); g_serverUp = true; }
      else if (w[1] == "down" && g_serverUp) { serverAccept(); real_shutdown(g_listenFd, SHUT_RD); g_serverUp = false; }
      else if (w[1] == "closeNext") g_closeNext = true;
    } else if (op == "peer" && w.size() >= 2 && w[1] == "close") {
      serverAccept();
      // close the harness side of the most recent connection that still has one
      for (size_t i = g_handedList.size(); i-- > 0;) {
        std::map<int, int>::iterator it = g_peerOf.find(g_handedList[i]);
        if (it != g_peerOf.end()) { real_close(it->second); --g_harnessFds; g_peerOf.erase(it); break; }
      }
    } else if (op == "pollerr") {
      for (std::map<int, Sock>::iterator it = g_socks.begin(); it != g_socks.end(); ++it)
        if (!it->second.handed) vi::reventsOr()[it->first] = POLLERR;
    } else if (op == "iter") {
      serverAccept();
      g_pendingIter = true;
      return true;
    } else {
      emitLine("bad-op");
    }
    stLine();
    flushStep();
  }
  fflush(stdout);
  _exit(0);
}

int main(int argc, char** argv) {
  bool usePoll = argc > 1 && std::string(argv[1]) == "poll";
  if (usePoll) setenv("MUDUO_USE_POLL", "1", 1); else unsetenv("MUDUO_USE_POLL");
  Logger::setLogLevel(Logger::FATAL);
  Logger::setOutput(dropLog);
  vi::clock().virt = true;
  g_base = vi::clock().nowUs;
  vi::emit() = emitLine;
  vi::pollRecorder() = recordPoll;
  vi::ptrToFd() = ptrToFd;

  // the raw server: bound now (port chosen by the kernel), listening only while `up`
  g_listenFd = real_socket(AF_INET, SOCK_STREAM | SOCK_NONBLOCK | SOCK_CLOEXEC, IPPROTO_TCP);
  struct sockaddr_in a; memset(&a, 0, sizeof a);
  a.sin_family = AF_INET; a.sin_addr.s_addr = htonl(INADDR_LOOPBACK); a.sin_port = 0;
  if (g_listenFd < 0 || ::bind(g_listenFd, reinterpret_cast<struct sockaddr*>(&a), sizeof a) != 0) { perror("bind"); return 2; }
  socklen_t l = sizeof a;
  real_getsockname(g_listenFd, reinterpret_cast<struct sockaddr*>(&a), &l);
  g_port = ntohs(a.sin_port);

  EventLoop loop;
  g_loop = &loop;
  InetAddress serverAddr("127.0.0.1", g_port);
  g_client = new TcpClient(&loop, serverAddr, "client");
  g_client->setConnectionCallback(onConnection);
  g_client->setMessageCallback(onMessage);

  vi::sockHooks().socket = hookSocket;
  vi::sockHooks().connect = hookConnect;
  vi::sockHooks().getsockopt = hookGetsockopt;
  vi::sockHooks().getsockname = hookGetsockname;
  vi::sockHooks().getpeername = hookGetpeername;
  vi::sockHooks().onSetsockopt = hookSetsockopt;
  vi::sockHooks().onClose = hookClose;
  vi::sockHooks().onShutdown = hookShutdown;
  g_baseline = fdCount();
  g_active = true;

  vs::run(&loop, interp);
  fflush(stdout);
  _exit(0);
}
