// C++ side of `drv_acceptor`: a real muduo::net::Acceptor listening on 127.0.0.1 (port chosen by the
// kernel) in a real EventLoop stepped one iteration per `iter` line (harness/loopstep.h).  Raw client
// sockets of the harness connect to it.  The result of every accept call is recorded, or replaced by a
// scripted failure, through link-level interposition (harness/interpose.h); descriptor exhaustion can
// also be produced for real with RLIMIT_NOFILE (`limit` / `unlimit`).
//
// protocol (one line per operation, every line answered by event lines, `st …`, `--`):
//   config <callback:0|1> · listen · client · clientClose <j> · userClose <k> · destroy · iter
//   script accept <ok|EAGAIN|ECONNABORTED|EINTR|EMFILE|Exxx>…   (consumed by successive accept calls, the raw
//                                                                ::accept of the EMFILE branch included)
//   script poll EINTR…                                           (the next poll calls are interrupted)
//   limit · unlimit                                              (RLIMIT_NOFILE = lowest free descriptor)
// events: accepted <k> · cb newConn <k> · closed <k> · idle closed · idle opened · user closed <k> ·
//   stale close · abort fatal-log;  environment: `< poll [listen]`, `< accept ok|Exxx`;
//   oracle only: `# it <iteration()>`, `# clients <j>:<open|eof|rst>…`, `# poll EINTR`, `# fdscan <n>`,
//   `# client <j> local <ip:port>` (getsockname of the harness's own client socket after connect),
//   `# peer <k> <ip:port the callback was given> kernel <getpeername of the accepted descriptor>`
#include "interpose.h"
#include "common.h"
#include "loopstep.h"

#include "muduo/base/Logging.h"
#include "muduo/net/Acceptor.h"
#include "muduo/net/Channel.h"
#include "muduo/net/EventLoop.h"
#include "muduo/net/InetAddress.h"

#include <arpa/inet.h>
#include <fcntl.h>
#include <netinet/in.h>
#include <signal.h>
#include <sys/resource.h>

#include <functional>
#include <memory>

using namespace muduo;
using namespace muduo::net;
using namespace vh;

static std::vector<std::string> g_out;
static void emitLine(const std::string& s) { g_out.push_back(s); }
static void flushStep() {
  for (size_t i = 0; i < g_out.size(); ++i) { fputs(g_out[i].c_str(), stdout); fputc('\n', stdout); }
  g_out.clear();
  fputs("--\n", stdout);
  fflush(stdout);
}
static void emitf(const char* fmt, ...) {
  char buf[256]; va_list ap; va_start(ap, fmt); vsnprintf(buf, sizeof buf, fmt, ap); va_end(ap); emitLine(buf);
}

VI_REAL(int, close, int);
VI_REAL(int, accept4, int, struct sockaddr*, socklen_t*, int);
VI_REAL(int, accept, int, struct sockaddr*, socklen_t*);

static EventLoop* g_loop;
static Acceptor* g_acceptor;
static int g_listenFd = -1;
static uint16_t g_port = 0;
static bool g_hasCb = true;
static std::deque<std::string> g_acceptScript;
static std::map<int, int> g_accepted;     // descriptor -> k (accepted, open)
static std::map<int, int> g_held;         // k -> descriptor handed to the callback
static int g_nAccepted = 0;
static std::set<int> g_idleFds;           // descriptors on /dev/null opened by the acceptor
static std::vector<int> g_clients;        // j-1 -> client socket (or -1 when closed)
static std::set<int> g_harnessFds;        // descriptors the harness itself holds
static bool g_inAcceptor = false;         // between construction start and destruction end: opens of /dev/null belong to it
static int g_baseline = 0;
static struct rlimit g_savedLimit;
static bool g_limited = false;

// open descriptors of the process, counted without needing a descriptor
static int fdScan() {
  int n = 0;
  for (int fd = 0; fd < 1024; ++fd) if (fcntl(fd, F_GETFD) != -1) ++n;
  return n;
}
static int lowestFree() {
  for (int fd = 0; fd < 1024; ++fd) if (fcntl(fd, F_GETFD) == -1) return fd;
  return 1024;
}

// ---- hooks
static int hookAccept4(int fd, struct sockaddr* addr, socklen_t* len, int flags) {
  if (fd != g_listenFd) return vi::kPass;
  std::string mode = "ok";
  if (!g_acceptScript.empty()) { mode = g_acceptScript.front(); g_acceptScript.pop_front(); }
  if (mode != "ok") {
    int e = vi::errnoValue(mode);
    emitf("< accept %s", vi::errnoName(e));
    errno = e;
    return -1;
  }
  int r = flags ? real_accept4(fd, addr, len, flags) : real_accept(fd, addr, len);
  if (r < 0) {
    int e = errno;
    emitf("< accept %s", vi::errnoName(e));
    errno = e;
    return -1;
  }
  emitLine("< accept ok");
  int k = ++g_nAccepted;
  g_accepted[r] = k;
  emitf("accepted %d", k);
  return r;
}

static void hookClose(int fd) {
  if (fd < 0) return;
  std::map<int, int>::iterator it = g_accepted.find(fd);
  if (it != g_accepted.end()) {
    int k = it->second;
    g_accepted.erase(it);
    if (g_held.count(k)) { g_held.erase(k); emitf("user closed %d", k); }
    else emitf("closed %d", k);
    return;
  }
  if (g_idleFds.count(fd)) { g_idleFds.erase(fd); emitLine("idle closed"); return; }
  if (g_inAcceptor && fd != g_listenFd && !g_harnessFds.count(fd) && fcntl(fd, F_GETFD) == -1) emitLine("stale close");
}

extern "C" int open(const char* path, int flags, ...) {
  typedef int (*open_fn)(const char*, int, ...);
  static open_fn real_open = ::vi::real<open_fn>("open");
  mode_t mode = 0;
  if (flags & O_CREAT) { va_list ap; va_start(ap, flags); mode = static_cast<mode_t>(va_arg(ap, int)); va_end(ap); }
  int fd = real_open(path, flags, mode);
  if (g_inAcceptor && strcmp(path, "/dev/null") == 0) {
    if (fd >= 0) { g_idleFds.insert(fd); emitLine("idle opened"); }
    else emitf("idle open failed %s", vi::errnoName(errno));
  }
  return fd;
}

// `ip:port` of an IPv4 socket address, printed by the harness itself (not by the code under test)
static std::string addrText(const struct sockaddr_in& a) {
  char ip[INET_ADDRSTRLEN] = ""; inet_ntop(AF_INET, &a.sin_addr, ip, sizeof ip);
  char buf[64]; snprintf(buf, sizeof buf, "%s:%u", ip, static_cast<unsigned>(ntohs(a.sin_port)));
  return buf;
}

static void onNewConnection(int sockfd, const InetAddress& peerAddr) {
  std::map<int, int>::iterator it = g_accepted.find(sockfd);
  int k = it == g_accepted.end() ? -1 : it->second;
  emitf("cb newConn %d", k);
  // oracle only: the peer address the callback was given, and the kernel's own answer for that descriptor
  struct sockaddr_in pa; socklen_t pl = sizeof pa; memset(&pa, 0, sizeof pa);
  std::string kernel = ::getpeername(sockfd, reinterpret_cast<struct sockaddr*>(&pa), &pl) == 0 && pa.sin_family == AF_INET
                           ? addrText(pa) : std::string("?");
  emitf("# peer %d %s kernel %s", k, peerAddr.toIpPort().c_str(), kernel.c_str());
  g_held[k] = sockfd;
}

static void recordPoll(const std::vector<std::pair<int, int> >& v) {
  std::string line = "< poll";
  for (size_t i = 0; i < v.size(); ++i) if (v[i].first == g_listenFd) line += " listen";
  emitLine(line);
}
static int ptrToFd(void* p) { return static_cast<Channel*>(p)->fd(); }
static void dropLog(const char*, int) {}

static void onAbort(int) {
  emitLine("abort fatal-log");
  flushStep();
  _exit(0);
}
extern "C" void __assert_fail(const char* assertion, const char*, unsigned int, const char*) __THROW {
  emitLine(std::string("abort ") + assertion);
  flushStep();
  _exit(0);
}

static const char* clientState(int fd) {
  char c;
  ssize_t n = recv(fd, &c, 1, MSG_PEEK | MSG_DONTWAIT);
  if (n == 0) return "eof";
  if (n > 0) return "data";
  if (errno == EAGAIN || errno == EWOULDBLOCK) return "open";
  return "rst";
}

static void stLine() {
  emitf("# it %lld", static_cast<long long>(g_loop->iteration()));
  std::string cl = "# clients";
  for (size_t j = 0; j < g_clients.size(); ++j) {
    char buf[48];
    snprintf(buf, sizeof buf, " %zu:%s", j + 1, g_clients[j] < 0 ? "closed" : clientState(g_clients[j]));
    cl += buf;
  }
  emitLine(cl);
  int harness = static_cast<int>(g_harnessFds.size());
  emitf("st fds=%d listening=%d accepted=%d", fdScan() - g_baseline - harness,
        g_acceptor && g_acceptor->listening() ? 1 : 0, g_nAccepted);
}

static bool g_pendingIter = false;

static bool interp() {
  if (g_pendingIter) { stLine(); flushStep(); g_pendingIter = false; }
  std::string line;
  while (std::getline(std::cin, line)) {
    std::vector<std::string> w = words(line);
    if (w.empty()) continue;
    const std::string& op = w[0];
    if (op == "config") {
      g_hasCb = w[1] == "1";
      if (g_acceptor) g_acceptor->setNewConnectionCallback(g_hasCb ? Acceptor::NewConnectionCallback(onNewConnection) : Acceptor::NewConnectionCallback());
    } else if (op == "listen") {
      if (g_acceptor) g_acceptor->listen();
    } else if (op == "client") {
      int fd = ::socket(AF_INET, SOCK_STREAM | SOCK_CLOEXEC, 0);
      struct sockaddr_in a; memset(&a, 0, sizeof a);
      a.sin_family = AF_INET; a.sin_port = htons(g_port); a.sin_addr.s_addr = htonl(INADDR_LOOPBACK);
      if (fd < 0 || ::connect(fd, reinterpret_cast<struct sockaddr*>(&a), sizeof a) != 0) {
        emitf("# client failed %s", vi::errnoName(errno));
        if (fd >= 0) real_close(fd);
        g_clients.push_back(-1);
      } else {
        g_harnessFds.insert(fd);
        g_clients.push_back(fd);
        struct sockaddr_in me; socklen_t ml = sizeof me; memset(&me, 0, sizeof me);
        if (::getsockname(fd, reinterpret_cast<struct sockaddr*>(&me), &ml) == 0)
          emitf("# client %zu local %s", g_clients.size(), addrText(me).c_str());
      }
    } else if (op == "clientClose") {
      size_t j = static_cast<size_t>(atoi(w[1].c_str()));
      if (j >= 1 && j <= g_clients.size() && g_clients[j - 1] >= 0) {
        g_harnessFds.erase(g_clients[j - 1]);
        real_close(g_clients[j - 1]);
        g_clients[j - 1] = -1;
      }
    } else if (op == "userClose") {
      int k = atoi(w[1].c_str());
      if (g_held.count(k)) ::close(g_held[k]);
    } else if (op == "destroy") {
      if (g_acceptor) { delete g_acceptor; g_acceptor = NULL; g_inAcceptor = false; }
    } else if (op == "script") {
      if (w[1] == "accept") for (size_t i = 2; i < w.size(); ++i) g_acceptScript.push_back(w[i]);
      else if (w[1] == "poll") for (size_t i = 2; i < w.size(); ++i) { if (w[i] == "EINTR") ++vi::pollEintr(); }
      else emitLine("bad-op");
    } else if (op == "limit") {
      if (!g_limited) {
        getrlimit(RLIMIT_NOFILE, &g_savedLimit);
        struct rlimit r = g_savedLimit;
        r.rlim_cur = static_cast<rlim_t>(lowestFree());
        if (setrlimit(RLIMIT_NOFILE, &r) == 0) g_limited = true; else emitf("# limit failed %s", vi::errnoName(errno));
      }
    } else if (op == "unlimit") {
      if (g_limited) { setrlimit(RLIMIT_NOFILE, &g_savedLimit); g_limited = false; }
    } else if (op == "iter") {
      g_pendingIter = true;
      return true;
    } else {
      emitLine("bad-op");
    }
    stLine();
    flushStep();
  }
  fflush(stdout);
  _exit(0);
}

int main(int argc, char** argv) {
  bool usePoll = argc > 1 && std::string(argv[1]) == "poll";
  if (usePoll) setenv("MUDUO_USE_POLL", "1", 1); else unsetenv("MUDUO_USE_POLL");
  Logger::setLogLevel(Logger::FATAL);
  Logger::setOutput(dropLog);
  signal(SIGABRT, onAbort);
  vi::emit() = emitLine;
  vi::pollRecorder() = recordPoll;
  vi::ptrToFd() = ptrToFd;
  EventLoop loop;
  g_loop = &loop;
  g_baseline = fdScan();
  vi::sockHooks().accept4 = hookAccept4;
  vi::sockHooks().onClose = hookClose;
  g_inAcceptor = true;
  InetAddress addr(0, true);   // 127.0.0.1, port chosen by the kernel
  g_acceptor = new Acceptor(&loop, addr, false);
  g_acceptor->setNewConnectionCallback(onNewConnection);
  // the listening descriptor: the socket among the new descriptors
  for (int fd = 0; fd < 1024; ++fd) {
    if (g_idleFds.count(fd)) continue;
    struct sockaddr_in a; socklen_t l = sizeof a;
    int isListen = 0; socklen_t ol = sizeof isListen;
    (void)isListen; (void)ol;
    if (fcntl(fd, F_GETFD) != -1 && getsockname(fd, reinterpret_cast<struct sockaddr*>(&a), &l) == 0 && a.sin_family == AF_INET) {
      g_listenFd = fd; g_port = ntohs(a.sin_port);
    }
  }
  if (g_listenFd < 0 || g_port == 0) { fprintf(stderr, "acceptor_drv: listening socket not found\n"); return 2; }
  g_out.clear();   // the constructor's `idle opened`
  vs::run(&loop, interp);
  fflush(stdout);
  _exit(0);
}
