// loop_drv — schedule-controlled driver of the REAL muduo::net::EventLoop / EventLoopThread under
// harness/sched/detsched.h.  One case per process; prints a canonical log of the visible events.
//
// stdin (blank lines, `#…` and `engine=…` lines ignored):
//   mode plain | mode elt
//   task <id>: <subs>      body of task <id> (0..255)
//   dtor <id>: <subs>      what the DESTRUCTION of task <id>'s functor object does: every functor submitted for such a task
//                          (q / r) is the only owner of a shared object whose destructor prints `dtor <id>` and executes
//                          <subs> on the loop — on whatever thread the last reference dies (the vector element inside
//                          doPendingFunctors(), the by-value parameter of an inline runInLoop()).  A task started by the
//                          pipe's read callback (p<id>) is a plain function call: no functor object, no `dtor`.
//   pre: <subs>            what the loop's owner does before loop() (elt: inside the ThreadInitCallback)
//   again: <subs>          plain mode, repeatable, in order: after loop() has returned (`returned`) the owner thread executes
//                          the next segment outside loop() and calls loop() AGAIN on the same EventLoop (an empty segment:
//                          at once); every return prints `returned`
//   thread <k>: <subs>     program of thread k (plain: k >= 1 foreign threads; elt: only k = 0)
//   follow <k k k …>       directed schedule: which thread performs the next visible event
//   schedule <ints>        raw detsched schedule
//   spurious               the scheduler may wake a condition waiter that nobody notified (raw schedules only: the
//                          `follow` chooser never picks such a move)
//   subs: q<id> r<id> quit p<id> startLoop destroy qburst<first>x<count>
//         ids of q/r: 0..65535 (a task without a `task` line has an empty body), of p and `task`: 0..255;
//         qburst<first>x<count> = q<first> q<first+1> … (count calls of queueInLoop, count <= 20000): shorthand of the
//         case language only, expanded when the line is read — trace and model see the single calls
// Events: point <name> | exec <id> | dtor <id> | wakeup | wakeread | post <id> | started | started null | joined | returned |
//   destroyed | uaf   (`started null`: startLoop() returned NULL; later ops of T0 on the loop are skipped;
//   `dtor <id>`: the destructor body of task <id>'s functor object starts, printed by the thread on which the object dies)
// stdout: `T<k> <event>` lines, `# …` comments, then `done` | `blocked T0:<st> …`, then `--`.
//   comments for the trace oracle (not compared with the model): `# T<k> call q|r <id>` / `# T<k> ret q|r <id>`,
//   `# T<k> call quit|startLoop|destroy` / `# T<k> ret …` around every API call (`ret startLoop ok|null|other`), `# T<k> leave <id>` at the end of
//   a task body (its beginning is the event `T<k> exec <id>`), `# T<k> leave-dtor <id>` at the end of a destructor body
//   (its beginning is the event `T<k> dtor <id>`), `# T<k> dtor-skipped <id>`: a functor object that was still queued when
//   the EventLoop itself was destroyed died inside ~EventLoop — its body is not executed (there is no loop to talk to).
//
// Switch points of the scheduler beyond detsched's own (mutex, condition, named points, poll, create/join/exit): after
// every wake-up write (`harness:afterWakeup`) and immediately before the read of the wake-up descriptor
// (`harness:beforeWakeread`).  Both are silent — no event line, the `follow` cursor does not move — so only a raw
// `schedule` can put another thread there; the model's `wakeread` step is the two halves together.
//
// Which loop an op addresses: plain mode → the one loop; elt mode → T0 uses the pointer returned by
// startLoop() (null before: the op is skipped), every other thread (the loop thread: init callback and
// task bodies) uses the loop recorded in the init callback.
//
// This TU defines its own small link-level interposers for eventfd/write/read/close (it does NOT use
// harness/interpose.h); they forward through dlsym(RTLD_NEXT) and fall back to the raw system call while
// the real function is being resolved.
#ifndef _GNU_SOURCE
#define _GNU_SOURCE
#endif
#include "sched/detsched.h"
#include "common.h"

#include "muduo/base/Logging.h"
#include "muduo/net/Channel.h"
#include "muduo/net/EventLoop.h"
#include "muduo/net/EventLoopThread.h"

#include <assert.h>
#include <fcntl.h>
#include <signal.h>
#include <stdarg.h>
#include <sys/eventfd.h>
#include <sys/syscall.h>

#include <functional>
#include <memory>
#include <set>
#include <string>
#include <vector>

namespace {

// ------------------------------------------------------------------------------------------ state
struct Sub {
  enum Kind { Q, R, QUIT, POST, START, DESTROY } kind;
  int id;
};
typedef std::vector<Sub> Subs;

bool g_elt = false;                       // mode
Subs g_task[256];
Subs g_dtor[256];                         // destructor body of what task <id>'s functor object owns (empty: owns nothing)
Subs g_pre;
std::vector<Subs> g_again;                // plain mode: segments the owner runs after loop() returned, each followed by loop()
std::vector<Subs> g_thread;               // index = k
std::vector<int> g_follow;
bool g_haveFollow = false;
std::vector<int> g_schedule;
bool g_spurious = false;

size_t g_cursor = 0;                      // into g_follow
std::set<size_t> g_missReported;

muduo::net::EventLoop* g_loop = 0;        // the loop under test
muduo::net::EventLoop* g_loopPtr = 0;     // elt mode: what startLoop() returned to T0
muduo::net::EventLoopThread* g_elt_obj = 0;
volatile int g_wakeFd = -1;               // last fd returned by eventfd()
volatile bool g_destroyed = false;        // the wake-up fd of the loop under test was closed
volatile bool g_finished = false;         // `done` printed: interposers stay silent
__thread bool t_wakeWindow = false;       // this thread passed `quit:stored` / `queueInLoop:appended` and has not returned yet
int g_pipeR = -1, g_pipeW = -1;

// ------------------------------------------------------------------------------------------ output
// every visible event goes through here
void say(const char* fmt, ...) __attribute__((format(printf, 1, 2)));
void sayImpl(bool advance, const char* text) {
  int k = ds::self();
  if (k < 0) k = 0;
  char line[320];
  snprintf(line, sizeof line, "T%d %s\n", k, text);
  fputs(line, stdout);
  fflush(stdout);
  if (advance && g_haveFollow && g_cursor < g_follow.size() && g_follow[g_cursor] == k) ++g_cursor;
}
void say(const char* fmt, ...) {
  char text[256];
  va_list ap;
  va_start(ap, fmt);
  vsnprintf(text, sizeof text, fmt, ap);
  va_end(ap);
  sayImpl(true, text);
}
void sayUaf() { sayImpl(false, "uaf"); }   // attached to the previous event: the follow cursor stays
// for the Python oracle only (never compared with the model): which API call / task body a thread is in
void note(const char* fmt, ...) __attribute__((format(printf, 1, 2)));
void note(const char* fmt, ...) {
  if (g_finished) return;
  char text[256];
  va_list ap;
  va_start(ap, fmt);
  vsnprintf(text, sizeof text, fmt, ap);
  va_end(ap);
  int k = ds::self();
  if (k < 0) k = 0;
  fprintf(stdout, "# T%d %s\n", k, text);
  fflush(stdout);
}

void finish(const char* status) {
  fputs(status, stdout);
  fputs("\n--\n", stdout);
  fflush(stdout);
}

void fail(const std::string& what) {
  fprintf(stdout, "# error %s\n<<error>>\n--\n", what.c_str());
  fflush(stdout);
  _exit(2);
}

// ------------------------------------------------------------------------------------------ real calls
typedef ssize_t (*WriteFn)(int, const void*, size_t);
typedef ssize_t (*ReadFn)(int, void*, size_t);
typedef int (*CloseFn)(int);
typedef int (*EventfdFn)(unsigned int, int);

// Lazy resolution with a re-entrancy guard: while dlsym itself runs (or if it finds nothing) the raw system
// call is used, so the interposers work before main, before ds::init and under ASan.
__thread int t_resolving = 0;
template <typename F> F resolve(F* slot, const char* name) {
  F f = __atomic_load_n(slot, __ATOMIC_ACQUIRE);
  if (f) return f;
  if (t_resolving) return 0;
  ++t_resolving;
  void* p = dlsym(RTLD_NEXT, name);
  --t_resolving;
  f = reinterpret_cast<F>(p);
  if (f) __atomic_store_n(slot, f, __ATOMIC_RELEASE);
  return f;
}
WriteFn s_write = 0;
ReadFn s_read = 0;
CloseFn s_close = 0;
EventfdFn s_eventfd = 0;

ssize_t realWrite(int fd, const void* buf, size_t n) {
  WriteFn f = resolve(&s_write, "write");
  return f ? f(fd, buf, n) : syscall(SYS_write, fd, buf, n);
}
ssize_t realRead(int fd, void* buf, size_t n) {
  ReadFn f = resolve(&s_read, "read");
  return f ? f(fd, buf, n) : syscall(SYS_read, fd, buf, n);
}
int realClose(int fd) {
  CloseFn f = resolve(&s_close, "close");
  return f ? f(fd) : static_cast<int>(syscall(SYS_close, fd));
}
int realEventfd(unsigned int initval, int flags) {
  EventfdFn f = resolve(&s_eventfd, "eventfd");
  return f ? f(initval, flags) : static_cast<int>(syscall(SYS_eventfd2, initval, flags));
}

}  // namespace

// ------------------------------------------------------------------------------------------ interposers
extern "C" {

int eventfd(unsigned int initval, int flags) __THROW {
  int fd = realEventfd(initval, flags);
  if (fd >= 0) g_wakeFd = fd;
  return fd;
}

ssize_t write(int fd, const void* buf, size_t n) {
  // a wake-up write: to the loop's eventfd, or — when the caller read the descriptor number out of a loop that no
  // longer exists — the 8-byte write that follows the points `quit:stored` / `queueInLoop:appended` on this thread
  bool window = t_wakeWindow && n == sizeof(uint64_t) && g_destroyed;
  if (g_finished || !((fd >= 0 && fd == g_wakeFd) || window)) return realWrite(fd, buf, n);
  t_wakeWindow = false;
  say("wakeup");
  if (g_destroyed) {
    sayUaf();
    errno = EBADF;
    return -1;
  }
  ssize_t r = realWrite(fd, buf, n);
  // the eventfd write ends a step of the model: let the scheduler switch threads here as well (the code that
  // follows — e.g. a flag store placed after the wake-up — is a step of its own)
  if (ds::self() >= 0) {
    int e = errno;
    ds::yield("harness:afterWakeup");
    errno = e;
  }
  return r;
}

ssize_t read(int fd, void* buf, size_t n) {
  if (fd < 0 || fd != g_wakeFd || g_finished || g_destroyed) return realRead(fd, buf, n);
  // A switch point of its own immediately before the eventfd read: whatever handleRead() does ahead of the read
  // (nothing that another thread can see, in the code as it is) and the read itself become two steps, so that a
  // complete foreign queueInLoop()+wakeup() can be placed between them.  The point is silent (no event line, the
  // `follow` cursor stays): the model's single `wakeread` step is the composition of the two, which is exact as long
  // as the first half touches nothing shared — the loop thread could have been preempted at `loop:afterPoll` just as
  // well.  Only a raw `schedule` can choose another thread here; a `follow` chooser keeps wanting the same thread.
  if (ds::self() >= 0) ds::yield("harness:beforeWakeread");
  if (g_finished || g_destroyed) return realRead(fd, buf, n);
  say("wakeread");
  return realRead(fd, buf, n);
}

int close(int fd) {
  if (fd < 0 || fd != g_wakeFd || g_finished || g_destroyed) return realClose(fd);
  say("destroyed");
  g_destroyed = true;
  return realClose(fd);
}

}  // extern "C"

namespace {

// ------------------------------------------------------------------------------------------ program
void execTask(int id);
muduo::net::EventLoop::Functor makeFunctor(int id);

muduo::net::EventLoop* targetLoop() {
  if (g_elt && ds::self() <= 0) return g_loopPtr;
  return g_loop;
}

void initCallback(muduo::net::EventLoop* l);

void doSub(const Sub& s) {
  switch (s.kind) {
    case Sub::Q: {
      muduo::net::EventLoop* l = targetLoop();
      note("call q %d", s.id);
      if (l) l->queueInLoop(makeFunctor(s.id));
      note("ret q %d", s.id);
      break;
    }
    case Sub::R: {
      muduo::net::EventLoop* l = targetLoop();
      note("call r %d", s.id);
      if (l) l->runInLoop(makeFunctor(s.id));
      note("ret r %d", s.id);
      break;
    }
    case Sub::QUIT: {
      muduo::net::EventLoop* l = targetLoop();
      note("call quit");
      if (l) l->quit();
      note("ret quit");
      break;
    }
    case Sub::POST: {
      say("post %d", s.id);
      unsigned char b = static_cast<unsigned char>(s.id);
      ssize_t n = realWrite(g_pipeW, &b, 1);
      assert(n == 1); (void)n;
      break;
    }
    case Sub::START:
      if (g_elt && !g_elt_obj) {
        note("call startLoop");
        g_elt_obj = new muduo::net::EventLoopThread(&initCallback, "w");
        g_loopPtr = g_elt_obj->startLoop();
        say(g_loopPtr ? "started" : "started null");   // NULL: the loop had come and gone before startLoop() looked
        note("ret startLoop %s", g_loopPtr == 0 ? "null" : (g_loopPtr == g_loop ? "ok" : "other"));
      }
      break;
    case Sub::DESTROY:
      if (g_elt && g_elt_obj) {
        muduo::net::EventLoopThread* e = g_elt_obj;
        g_elt_obj = 0;
        note("call destroy");
        delete e;          // EV_JOIN prints `joined`
        g_loopPtr = 0;
        note("ret destroy");
      }
      break;
  }
}
void doSubs(const Subs& v) {
  for (size_t i = 0; i < v.size(); ++i) {
    doSub(v[i]);
    t_wakeWindow = false;
  }
}
void execTask(int id) {
  say("exec %d", id);
  if (id >= 0 && id < 256) doSubs(g_task[id]);   // ids beyond the table: empty body
  note("leave %d", id);
}

// What the functor of a task with a `dtor` line owns.  The functor is handed to the loop by move, so the copy the loop
// holds is the last owner: this destructor runs where the loop lets go of the functor object.
struct Corpse {
  int id;
  explicit Corpse(int i) : id(i) {}
  ~Corpse() {
    if (g_finished) return;
    if (g_destroyed) { note("dtor-skipped %d", id); return; }
    say("dtor %d", id);
    doSubs(g_dtor[id]);
    note("leave-dtor %d", id);
  }
};
struct TaskFunctor {
  int id;
  std::shared_ptr<Corpse> owned;
  void operator()() const { execTask(id); }
};
muduo::net::EventLoop::Functor makeFunctor(int id) {
  if (id >= 0 && id < 256 && !g_dtor[id].empty()) {
    TaskFunctor f;
    f.id = id;
    f.owned = std::make_shared<Corpse>(id);
    return muduo::net::EventLoop::Functor(std::move(f));
  }
  return std::bind(&execTask, id);
}

void onPipeReadable(muduo::Timestamp) {
  unsigned char b = 0;
  ssize_t n = realRead(g_pipeR, &b, 1);
  if (n == 1) execTask(b);
}
void registerPipe(muduo::net::EventLoop* l) {
  muduo::net::Channel* ch = new muduo::net::Channel(l, g_pipeR);   // never deleted
  ch->setReadCallback(&onPipeReadable);
  ch->enableReading();
}

void initCallback(muduo::net::EventLoop* l) {
  g_loop = l;
  g_destroyed = false;
  registerPipe(l);
  doSubs(g_pre);
}

void* foreignMain(void* p) {
  size_t k = reinterpret_cast<size_t>(p);
  ds::yield("start");
  doSubs(g_thread[k]);
  return 0;
}

// ------------------------------------------------------------------------------------------ detsched hooks
bool startsWith(const char* s, const char* p) { return strncmp(s, p, strlen(p)) == 0; }

void observer(const ds::Ev& e) {
  if (e.kind == ds::EV_POINT) {
    const char* nm = e.name;
    if (!nm) return;
    const char* shortName = 0;
    if (startsWith(nm, "EventLoopThread::")) shortName = nm + strlen("EventLoopThread::");
    else if (startsWith(nm, "EventLoop::")) shortName = nm + strlen("EventLoop::");
    if (!shortName) return;
    say("point %s", shortName);
    if ((strcmp(nm, "EventLoop::quit:stored") == 0 || strcmp(nm, "EventLoop::queueInLoop:appended") == 0) &&
        e.obj == g_loop && g_loop) {
      t_wakeWindow = true;
      if (g_destroyed) sayUaf();
    }
  } else if (e.kind == ds::EV_JOIN) {
    t_wakeWindow = false;
    if (g_elt) say("joined");
  }
}

int chooser(const ds::Move* mv, int n, int kind) {
  if (kind != 0) return 0;
  if (g_cursor >= g_follow.size()) return 0;
  int want = g_follow[g_cursor];
  for (int j = 0; j < n; ++j)
    if (mv[j].thread == want && mv[j].kind == ds::MV_RUN) return j;
  if (g_missReported.insert(g_cursor).second) {
    fprintf(stdout, "# follow-miss at %zu wanted T%d\n", g_cursor, want);
    fflush(stdout);
  }
  return 0;
}

const char* stName(ds::St st) {
  switch (st) {
    case ds::ST_RUN: return "run";
    case ds::ST_MUTEX: return "mutex";
    case ds::ST_WAIT: return "wait";
    case ds::ST_SIG: return "wait";
    case ds::ST_JOIN: return "join";
    case ds::ST_POLL: return "poll";
    case ds::ST_WAITALL: return "fin";
    case ds::ST_FIN: return "fin";
  }
  return "?";
}
void printDecisions() {
  fprintf(stdout, "# dec %s\n", ds::decisionsString().c_str());
  if (g_haveFollow) fprintf(stdout, "# follow-used %zu of %zu\n", g_cursor, g_follow.size());
}
void blocked(const std::vector<ds::ThreadState>& v) {
  printDecisions();
  std::string s = "blocked";
  char b[32];
  for (size_t i = 0; i < v.size(); ++i) {
    snprintf(b, sizeof b, " T%d:%s", v[i].thread, stName(v[i].st));
    s += b;
  }
  g_finished = true;
  finish(s.c_str());
  _exit(0);
}

// ------------------------------------------------------------------------------------------ watchdog, log
void onAlarm(int) {
  static const char msg[] = "# watchdog\n<<timeout>>\n--\n";
  syscall(SYS_write, 1, msg, sizeof msg - 1);
  _exit(3);
}
void logNowhere(const char*, int) {}
void flushNowhere() {}

// ------------------------------------------------------------------------------------------ input
const long kMaxTaskId = 65535;    // q / r
const long kMaxBurst = 20000;
bool parseId(const std::string& t, size_t from, int* id, long maxv = 255, size_t to = std::string::npos) {
  if (to == std::string::npos) to = t.size();
  if (from >= to) return false;
  long v = 0;
  for (size_t i = from; i < to; ++i) {
    if (t[i] < '0' || t[i] > '9') return false;
    v = v * 10 + (t[i] - '0');
    if (v > maxv) return false;
  }
  *id = static_cast<int>(v);
  return true;
}
Subs parseSubs(const std::string& text) {
  Subs r;
  std::vector<std::string> w = vh::words(text);
  for (size_t i = 0; i < w.size(); ++i) {
    const std::string& t = w[i];
    Sub s; s.id = 0;
    if (t == "quit") s.kind = Sub::QUIT;
    else if (t == "startLoop") s.kind = Sub::START;
    else if (t == "destroy") s.kind = Sub::DESTROY;
    else if (t.compare(0, 6, "qburst") == 0) {
      size_t x = t.find('x', 6);
      int first = 0, count = 0;
      if (x == std::string::npos || !parseId(t, 6, &first, kMaxTaskId, x) || !parseId(t, x + 1, &count, kMaxBurst) ||
          first + count - 1 > kMaxTaskId)
        fail("bad token '" + t + "'");
      s.kind = Sub::Q;
      for (int j = 0; j < count; ++j) { s.id = first + j; r.push_back(s); }
      continue;
    }
    else if (t[0] == 'q' && parseId(t, 1, &s.id, kMaxTaskId)) s.kind = Sub::Q;
    else if (t[0] == 'r' && parseId(t, 1, &s.id, kMaxTaskId)) s.kind = Sub::R;
    else if (t[0] == 'p' && parseId(t, 1, &s.id)) s.kind = Sub::POST;
    else fail("bad token '" + t + "'");
    r.push_back(s);
  }
  return r;
}
std::vector<int> parseInts(const std::vector<std::string>& w, size_t from) {
  std::vector<int> r;
  for (size_t i = from; i < w.size(); ++i) {
    char* end = 0;
    long v = strtol(w[i].c_str(), &end, 10);
    if (!end || *end || w[i].empty()) fail("bad integer '" + w[i] + "'");
    r.push_back(static_cast<int>(v));
  }
  return r;
}
void readInput() {
  std::string line;
  bool haveMode = false;
  while (std::getline(std::cin, line)) {
    if (!line.empty() && line[line.size() - 1] == '\r') line.erase(line.size() - 1);
    std::vector<std::string> w = vh::words(line);
    if (w.empty() || w[0][0] == '#' || w[0].compare(0, 7, "engine=") == 0) continue;
    std::string head = w[0];
    size_t c = head.find(':');
    if (c != std::string::npos) head.erase(c);
    if (head == "mode") {
      if (w.size() != 2 || (w[1] != "plain" && w[1] != "elt")) fail("bad mode line");
      g_elt = (w[1] == "elt");
      haveMode = true;
    } else if (head == "follow") {
      g_follow = parseInts(w, 1);
      g_haveFollow = true;
    } else if (head == "schedule") {
      g_schedule = parseInts(w, 1);
    } else if (head == "spurious") {
      g_spurious = true;
    } else if (head == "task" || head == "dtor" || head == "pre" || head == "again" || head == "thread") {
      size_t colon = line.find(':');
      if (colon == std::string::npos) fail("missing ':' in '" + line + "'");
      std::vector<std::string> hw = vh::words(line.substr(0, colon));
      Subs body = parseSubs(line.substr(colon + 1));
      if (head == "pre") {
        if (hw.size() != 1) fail("bad pre line");
        g_pre = body;
      } else if (head == "again") {
        if (hw.size() != 1) fail("bad again line");
        g_again.push_back(body);
      } else {
        int id = 0;
        if (hw.size() != 2 || !parseId(hw[1], 0, &id)) fail("bad header '" + line.substr(0, colon) + "'");
        if (head == "task") g_task[id] = body;
        else if (head == "dtor") g_dtor[id] = body;
        else {
          if (g_thread.size() <= static_cast<size_t>(id)) g_thread.resize(static_cast<size_t>(id) + 1);
          g_thread[static_cast<size_t>(id)] = body;
        }
      }
    } else {
      fail("unknown line '" + line + "'");
    }
  }
  if (!haveMode) fail("no mode line");
}

}  // namespace

int main() {
  setenv("MUDUO_USE_POLL", "1", 1);
  signal(SIGALRM, &onAlarm);
  alarm(20);
  muduo::Logger::setOutput(&logNowhere);
  muduo::Logger::setFlush(&flushNowhere);
  muduo::Logger::setLogLevel(muduo::Logger::ERROR);

  readInput();
  if (g_thread.empty()) g_thread.resize(1);

  int fds[2];
  if (pipe2(fds, O_NONBLOCK | O_CLOEXEC) != 0) fail("pipe2");
  g_pipeR = fds[0]; g_pipeW = fds[1];

  ds::init();
  ds::observer() = &observer;
  ds::blockedHandler() = &blocked;
  if (g_haveFollow) ds::chooser() = &chooser;
  ds::cfg().spurious = g_spurious;

  if (!g_elt) {
    muduo::net::EventLoop* loop = new muduo::net::EventLoop;   // stays alive until _exit
    g_loop = loop;
    g_destroyed = false;
    registerPipe(loop);
    // SETUP phase: every foreign thread parks at its "start" point
    std::vector<pthread_t> tids(g_thread.size());
    for (size_t k = 1; k < g_thread.size(); ++k) {
      int rc = pthread_create(&tids[k], 0, &foreignMain, reinterpret_cast<void*>(k));
      if (rc != 0) fail("pthread_create");
    }
    ds::begin(g_schedule);
    doSubs(g_pre);
    loop->loop();
    say("returned");
    for (size_t i = 0; i < g_again.size(); ++i) {
      doSubs(g_again[i]);
      loop->loop();
      say("returned");
    }
    ds::waitAll();
  } else {
    ds::begin(g_schedule);
    doSubs(g_thread[0]);
    ds::waitAll();
  }

  printDecisions();
  g_finished = true;
  finish("done");
  ds::shutdown();
  _exit(0);
}
