// C++ side of `drv_codec`: the real ProtobufCodecLite / RpcCodec (and the example ProtobufCodec when
// built with -DWITH_EXAMPLE_CODEC) fed through a real muduo::net::Buffer.
//
// ops:
//   new rpc <rawmode>          RpcCodec's template ProtobufCodecLiteT<RpcMessage, rpctag, Codec> (tag "RPC0")
//   new lite <tag> <rawmode>   ProtobufCodecLite with an arbitrary tag; prototype ListRpcRequest (no required field)
//   new ex                     examples/protobuf/codec ProtobufCodec (type-name field); built with -DWITH_EXAMPLE_CODEC.
//                              encode <q|a|e> <id> <text> = muduo.Query / muduo.Answer / muduo.Empty through
//                              ProtobufCodec::fillEmptyBuffer (text bytes are mapped to letters: proto2 `string`).
//                              ProtobufCodec has no hook for protobuf's verdicts, so before each onMessage() the driver
//                              walks the complete frames in the buffer BY THEIR LENGTH FIELDS ONLY and asks protobuf itself
//                              (not the codec): `< known <fnv> <len> <0|1>` is the type name registered,
//                              `< verdict <fnv of name NUL payload> <len> <0|1>` does the payload parse as that type.
//                              Messages: `msg <type name hex> <payload len> <payload fnv>` (+ `# ser <len> <fnv>`: the decoded
//                              message serialised again, for the round-trip oracle).
//   reset                      fresh Buffer, connection alive again
//   encode <fields...>         build a message, fillEmptyBuffer; prints `< payload <bytes>` and `frame <hex>`
//   feed <bytes>               append to the Buffer; onMessage unless an error was reported earlier
//   poke                       onMessage once more even after an error (what the code itself does then)
//   bigframe <n>               C++ only: encode a message with an n-byte field, decode it; `# big ...`
// outputs per op: `msg <len> <fnv64>` / `err <name>` in callback order, `st left=<readable> dead=<0|1>`.
// The message callback KEEPS the shared_ptr it is handed (as RpcCodec_test.cc and any server that queues requests to a
// worker pool do).  After onMessage() has returned, from the kept pointers, per message k of this call:
//   `# fields ...`                               its fields as protobuf reports them now (for the oracle)
//   `kept <k> obj=<i> <len> <fnv64>`             object identity (numbered by first appearance in this call) and the payload
//                                                it was delivered with - when it still serialises as it did in the callback
//   `kept <k> obj=<i> changed <len> <fnv64>`     it does not: the payload of the message of this call it equals now (`? ?`: none)
// and `distinct <0|1> n=<count>`: whether all pointers handed out by this call are distinct objects.
// rawmode: 0 = no raw callback, 1 = raw callback that lets every frame through, 2 = raw callback that drops
// frames whose last byte is odd.
#include "muduo/net/Buffer.h"
#include "muduo/net/TcpConnection.h"
#include "muduo/net/protobuf/ProtobufCodecLite.h"
#include "muduo/net/protorpc/RpcCodec.h"
#include "muduo/net/protorpc/rpc.pb.h"
#include "muduo/net/protorpc/rpcservice.pb.h"
#ifdef WITH_EXAMPLE_CODEC
#include "examples/protobuf/codec/codec.h"
#include "query.pb.h"
#include <google/protobuf/descriptor.h>
#include <google/protobuf/message.h>
#endif
#include "common.h"
#include <memory>
#include <map>

using namespace muduo;
using namespace muduo::net;
using namespace vh;

static bool g_dead = false;
static std::string g_lastPayload;

// what a consumer that keeps the messages holds: the pointer, and what it looked like when it was handed over
struct Kept {
  muduo::net::MessagePtr m;
  std::string ser;       // m->SerializeAsString() inside the callback
  std::string payload;   // the payload it was parsed from
};
static std::vector<Kept> g_kept;

// the only instrumentation: see (and log) every payload handed to protobuf, with protobuf's verdict
class Codec : public ProtobufCodecLite {
 public:
  Codec(const ::google::protobuf::Message* prototype, StringPiece tagArg, const ProtobufMessageCallback& messageCb,
        const RawMessageCallback& rawCb = RawMessageCallback(), const ErrorCallback& errorCb = defaultErrorCallback)
    : ProtobufCodecLite(prototype, tagArg, messageCb, rawCb, errorCb) {}
  virtual bool parseFromBuffer(StringPiece buf, google::protobuf::Message* message) {
    bool ok = ProtobufCodecLite::parseFromBuffer(buf, message);
    std::string p(buf.data(), buf.size());
    // the verdict the model and the reference decoder work with is protobuf's own on the WHOLE payload (a fresh message
    // of the same type, ParseFromArray: everything must be consumed) - not the answer of the codec's function, which is
    // code under test; a difference is reported to the oracle
    std::unique_ptr<google::protobuf::Message> ref(message->New());
    bool refOk = ref->ParseFromArray(buf.data(), static_cast<int>(buf.size()));
    if (refOk != ok) printf("# libverdict %d protobuf %d len %zu\n", ok ? 1 : 0, refOk ? 1 : 0, p.size());
    printf("< verdict %llu %zu %d\n", static_cast<unsigned long long>(fnv64(p)), p.size(), refOk ? 1 : 0);
    if (ok) g_lastPayload = p;
    return ok;
  }
};

static std::string hexOrDash(const std::string& s, bool has) { return has ? "h:" + toHex(s) : "-"; }

static void printRpcFields(const RpcMessage& m) {
  printf("# fields rpc t=%d id=%llu s=%s m=%s rq=%s rs=%s e=%s\n", static_cast<int>(m.type()),
         static_cast<unsigned long long>(m.id()), hexOrDash(m.service(), m.has_service()).c_str(),
         hexOrDash(m.method(), m.has_method()).c_str(), hexOrDash(m.request(), m.has_request()).c_str(),
         hexOrDash(m.response(), m.has_response()).c_str(),
         m.has_error() ? std::to_string(static_cast<int>(m.error())).c_str() : "-");
}
static void printListFields(const ListRpcRequest& m) {
  printf("# fields list n=%s l=%s\n", hexOrDash(m.service_name(), m.has_service_name()).c_str(),
         m.has_list_method() ? (m.list_method() ? "1" : "0") : "-");
}

static void onError(const TcpConnectionPtr&, Buffer*, Timestamp, ProtobufCodecLite::ErrorCode e) {
  printf("err %s\n", ProtobufCodecLite::errorCodeToString(e).c_str());
  g_dead = true;
}
static void keep(const muduo::net::MessagePtr& m) {
  Kept k; k.m = m; k.ser = m->SerializeAsString(); k.payload = g_lastPayload;
  g_kept.push_back(k);
  printf("msg %zu %llu\n", g_lastPayload.size(), static_cast<unsigned long long>(fnv64(g_lastPayload)));
}
static void onRpc(const TcpConnectionPtr&, const RpcMessagePtr& m, Timestamp) { keep(m); }
static void onLite(const TcpConnectionPtr&, const muduo::net::MessagePtr& m, Timestamp) { keep(m); }

// after onMessage() has returned: what the kept pointers refer to now
static void reportKept() {
  std::vector<const void*> firsts;
  for (size_t k = 0; k < g_kept.size(); ++k) {
    const google::protobuf::Message* p = g_kept[k].m.get();
    const RpcMessage* r = dynamic_cast<const RpcMessage*>(p);
    const ListRpcRequest* l = dynamic_cast<const ListRpcRequest*>(p);
    if (r) printRpcFields(*r); else if (l) printListFields(*l); else printf("# fields ?\n");
    size_t idx = 0;
    while (idx < firsts.size() && firsts[idx] != p) ++idx;
    if (idx == firsts.size()) firsts.push_back(p);
    std::string now = p->SerializeAsString();
    if (now == g_kept[k].ser) {
      printf("kept %zu obj=%zu %zu %llu\n", k, idx, g_kept[k].payload.size(),
             static_cast<unsigned long long>(fnv64(g_kept[k].payload)));
    } else {
      size_t j = g_kept.size();
      while (j > 0 && g_kept[j - 1].ser != now) --j;   // the latest message of this call that looked like this
      if (j > 0) printf("kept %zu obj=%zu changed %zu %llu\n", k, idx, g_kept[j - 1].payload.size(),
                        static_cast<unsigned long long>(fnv64(g_kept[j - 1].payload)));
      else printf("kept %zu obj=%zu changed ? ?\n", k, idx);
    }
  }
  printf("distinct %d n=%zu\n", firsts.size() == g_kept.size() ? 1 : 0, g_kept.size());
  g_kept.clear();
}
static bool rawAll(const TcpConnectionPtr&, StringPiece, Timestamp) { return true; }
static bool rawOdd(const TcpConnectionPtr&, StringPiece f, Timestamp) {
  return !(f.size() > 0 && (static_cast<unsigned char>(f.data()[f.size() - 1]) & 1));
}

typedef ProtobufCodecLiteT<RpcMessage, rpctag, Codec> InstrumentedRpcCodec;

#ifdef WITH_EXAMPLE_CODEC
static void exError(const TcpConnectionPtr&, Buffer*, Timestamp, ProtobufCodec::ErrorCode e) {
  printf("err %s\n", ProtobufCodec::errorCodeToString(e).c_str());
  g_dead = true;
}
// the payloads of the complete frames in the buffer, in order (filled by exScan before onMessage): the i-th message
// callback of one call belongs to the i-th frame
static std::vector<std::string> g_exPayloads;
static size_t g_exNext = 0;
static void exMessage(const TcpConnectionPtr&, const ::MessagePtr& m, Timestamp) {
  std::string tn = m->GetTypeName();
  std::string ser = m->SerializeAsString();
  std::string pay = g_exNext < g_exPayloads.size() ? g_exPayloads[g_exNext] : std::string("?");
  ++g_exNext;
  printf("# ser %zu %llu\n", ser.size(), static_cast<unsigned long long>(fnv64(ser)));
  printf("msg %s %zu %llu\n", toHex(tn).c_str(), pay.size(), static_cast<unsigned long long>(fnv64(pay)));
}
static int32_t be32At(const char* p) {
  const unsigned char* u = reinterpret_cast<const unsigned char*>(p);
  return static_cast<int32_t>((static_cast<uint32_t>(u[0]) << 24) | (static_cast<uint32_t>(u[1]) << 16) |
                              (static_cast<uint32_t>(u[2]) << 8) | static_cast<uint32_t>(u[3]));
}
// environment answers for the model: protobuf's registry and parser, asked directly.  The walk uses the wire format
// of codec.h (int32 len; int32 nameLen; char typeName[nameLen]; payload; int32 checksum) and checks nothing.
static void exScan(const Buffer& buf) {
  g_exPayloads.clear(); g_exNext = 0;
  const char* p = buf.peek();
  size_t n = buf.readableBytes(), pos = 0;
  while (n - pos >= 4) {
    int32_t len = be32At(p + pos);
    if (len < 10 || len > 64 * 1024 * 1024 || n - pos < 4 + static_cast<size_t>(len)) break;
    const char* body = p + pos + 4;
    int32_t nameLen = be32At(body);
    std::string pay;
    if (nameLen >= 2 && nameLen <= len - 8) {
      std::string tn(body + 4, body + 4 + nameLen - 1);
      pay.assign(body + 4 + nameLen, body + len - 4);
      const google::protobuf::Descriptor* d = google::protobuf::DescriptorPool::generated_pool()->FindMessageTypeByName(tn);
      const google::protobuf::Message* proto = d ? google::protobuf::MessageFactory::generated_factory()->GetPrototype(d) : NULL;
      printf("< known %llu %zu %d\n", static_cast<unsigned long long>(fnv64(tn)), tn.size(), proto ? 1 : 0);
      if (proto) {
        std::unique_ptr<google::protobuf::Message> m(proto->New());
        bool ok = m->ParseFromArray(pay.data(), static_cast<int>(pay.size()));
        std::string key = tn + std::string(1, '\0') + pay;
        printf("< verdict %llu %zu %d\n", static_cast<unsigned long long>(fnv64(key)), key.size(), ok ? 1 : 0);
      }
    }
    g_exPayloads.push_back(pay);
    pos += 4 + static_cast<size_t>(len);
  }
}
static std::string letters(const std::string& s) {
  std::string r(s);
  for (size_t i = 0; i < r.size(); ++i) r[i] = static_cast<char>('a' + static_cast<unsigned char>(r[i]) % 26);
  return r;
}
#endif

static ProtobufCodecLite::RawMessageCallback rawOf(int mode) {
  if (mode == 1) return rawAll;
  if (mode == 2) return rawOdd;
  return ProtobufCodecLite::RawMessageCallback();
}

static bool optBytes(const std::string& tok, std::string* out) {   // "-" = absent
  if (tok == "-") return false;
  if (!parseBytes(tok, out)) { out->clear(); }
  return true;
}

int main() {
  std::unique_ptr<Buffer> buf(new Buffer());
  std::unique_ptr<InstrumentedRpcCodec> rpc;
  std::unique_ptr<Codec> lite;
#ifdef WITH_EXAMPLE_CODEC
  std::unique_ptr<ProtobufCodec> ex;
#endif
  TcpConnectionPtr conn;   // null: onMessage only hands it to the callbacks
  std::string line;
  while (std::getline(std::cin, line)) {
    std::vector<std::string> w = words(line);
    if (w.empty()) continue;
    const std::string& op = w[0];
    std::string d;
    if (op == "new" && w.size() >= 2) {
      rpc.reset(); lite.reset();
#ifdef WITH_EXAMPLE_CODEC
      ex.reset();
#endif
      buf.reset(new Buffer()); g_dead = false;
      if (w[1] == "rpc" && w.size() == 3) {
        rpc.reset(new InstrumentedRpcCodec(onRpc, rawOf(atoi(w[2].c_str())), onError));
        printf("ok tag=%s\n--\n", toHex(rpc->tag()).c_str());
      } else if (w[1] == "lite" && w.size() == 4 && parseBytes(w[2], &d)) {
        lite.reset(new Codec(&ListRpcRequest::default_instance(), d, onLite, rawOf(atoi(w[3].c_str())), onError));
        printf("ok tag=%s\n--\n", toHex(lite->tag()).c_str());
#ifdef WITH_EXAMPLE_CODEC
      } else if (w[1] == "ex") {
        ex.reset(new ProtobufCodec(exMessage, exError));
        printf("ok tag=\n--\n");
#endif
      } else {
        printf("bad-op\n--\n");
      }
    } else if (op == "reset") {
      buf.reset(new Buffer()); g_dead = false;
      printf("ok\n--\n");
    } else if (op == "encode") {
      Buffer out;
      std::string payload;
      if (rpc && w.size() == 8) {
        RpcMessage m;
        m.set_type(static_cast<MessageType>(atoi(w[1].c_str())));
        m.set_id(strtoull(w[2].c_str(), NULL, 10));
        std::string s;
        if (optBytes(w[3], &s)) m.set_service(s);
        if (optBytes(w[4], &s)) m.set_method(s);
        if (optBytes(w[5], &s)) m.set_request(s);
        if (optBytes(w[6], &s)) m.set_response(s);
        if (w[7] != "-") m.set_error(static_cast<ErrorCode>(atoi(w[7].c_str())));
        payload = m.SerializeAsString();
        rpc->fillEmptyBuffer(&out, m);
      } else if (lite && w.size() == 3) {
        ListRpcRequest m;
        std::string s;
        if (optBytes(w[1], &s)) m.set_service_name(s);
        if (w[2] != "-") m.set_list_method(w[2] == "1");
        payload = m.SerializeAsString();
        lite->fillEmptyBuffer(&out, m);
#ifdef WITH_EXAMPLE_CODEC
      } else if (ex && w.size() == 4) {
        // encode <q|a|e> <id> <text>
        std::string s; parseBytes(w[3], &s); s = letters(s);
        if (w[1] == "q") { muduo::Query m; m.set_id(atoll(w[2].c_str())); m.set_questioner(s); payload = m.SerializeAsString(); ProtobufCodec::fillEmptyBuffer(&out, m); }
        else if (w[1] == "a") { muduo::Answer m; m.set_id(atoll(w[2].c_str())); m.set_questioner(s); m.set_answerer(s); payload = m.SerializeAsString(); ProtobufCodec::fillEmptyBuffer(&out, m); }
        else { muduo::Empty m; if (w[2] != "-") m.set_id(atoi(w[2].c_str())); payload = m.SerializeAsString(); ProtobufCodec::fillEmptyBuffer(&out, m); }
        std::string tn = (w[1] == "q") ? "muduo.Query" : (w[1] == "a") ? "muduo.Answer" : "muduo.Empty";
        printf("< typename h:%s\n", toHex(tn).c_str());
#endif
      } else { printf("bad-op\n--\n"); continue; }
      printf("< payload h:%s\n", toHex(payload).c_str());
      printf("frame %s\n--\n", toHex(std::string(out.peek(), out.readableBytes())).c_str());
    } else if ((op == "feed" && w.size() == 2 && parseBytes(w[1], &d)) || op == "poke") {
      if (op == "feed") buf->append(d.data(), d.size());
      g_kept.clear();
      if (!g_dead || op == "poke") {
        Timestamp now;
        if (rpc) rpc->onMessage(conn, buf.get(), now);
        else if (lite) lite->onMessage(conn, buf.get(), now);
#ifdef WITH_EXAMPLE_CODEC
        else if (ex) { exScan(*buf); ex->onMessage(conn, buf.get(), now); }
#endif
      }
#ifdef WITH_EXAMPLE_CODEC
      if (!ex)
#endif
      reportKept();
      printf("st left=%zu dead=%d\n--\n", buf->readableBytes(), g_dead ? 1 : 0);
    } else if (op == "bigframe" && w.size() == 2) {
      // the encoder has no size limit; the decoder has one: C++-only observation (the frame is too big to ship
      // to the model as text)
      size_t n = strtoull(w[1].c_str(), NULL, 10);
      Buffer out, in;
      bool saveDead = g_dead; g_dead = false;
      size_t bodyLen = 0;
      // plain (uninstrumented) codecs whose callbacks only remember the last event
      struct Cap {
        static void err(const TcpConnectionPtr&, Buffer*, Timestamp, ProtobufCodecLite::ErrorCode e) {
          last() = std::string("err ") + ProtobufCodecLite::errorCodeToString(e);
        }
        static void msgR(const TcpConnectionPtr&, const RpcMessagePtr& m, Timestamp) {
          last() = "msg " + std::to_string(m->request().size());
        }
        static void msgL(const TcpConnectionPtr&, const MessagePtr& m, Timestamp) {
          const ListRpcRequest* l = dynamic_cast<const ListRpcRequest*>(m.get());
          last() = "msg " + std::to_string(l ? l->service_name().size() : 0);
        }
        static std::string& last() { static std::string s; return s; }
      };
      Cap::last() = "none";
      if (rpc) {
        RpcMessage m; m.set_type(REQUEST); m.set_id(1); m.set_request(std::string(n, 'x'));
        RpcCodec plain(Cap::msgR, ProtobufCodecLite::RawMessageCallback(), Cap::err);
        plain.fillEmptyBuffer(&out, m);
        bodyLen = out.readableBytes() - 4;
        in.append(out.peek(), out.readableBytes());
        plain.onMessage(conn, &in, Timestamp());
      } else if (lite) {
        ListRpcRequest m; m.set_service_name(std::string(n, 'x'));
        ProtobufCodecLite plain(&ListRpcRequest::default_instance(), lite->tag(), Cap::msgL,
                                ProtobufCodecLite::RawMessageCallback(), Cap::err);
        plain.fillEmptyBuffer(&out, m);
        bodyLen = out.readableBytes() - 4;
        in.append(out.peek(), out.readableBytes());
        plain.onMessage(conn, &in, Timestamp());
      } else { printf("bad-op\n--\n"); g_dead = saveDead; continue; }
      g_dead = saveDead;
      printf("# big field=%zu body=%zu left=%zu result=%s\n--\n", n, bodyLen, in.readableBytes(), Cap::last().c_str());
    } else {
      printf("bad-op\n--\n");
    }
  }
  fflush(stdout);
  return 0;
}
