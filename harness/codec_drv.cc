// C++ side of `drv_codec`: the real ProtobufCodecLite / RpcCodec (and the example ProtobufCodec when
// built with -DWITH_EXAMPLE_CODEC) fed through a real muduo::net::Buffer.
//
// ops:
//   new rpc <rawmode>          RpcCodec's template ProtobufCodecLiteT<RpcMessage, rpctag, Codec> (tag "RPC0")
//   new lite <tag> <rawmode>   ProtobufCodecLite with an arbitrary tag; prototype ListRpcRequest (no required field)
//   new ex                     examples/protobuf/codec ProtobufCodec (type-name field)
//   reset                      fresh Buffer, connection alive again
//   encode <fields...>         build a message, fillEmptyBuffer; prints `< payload <bytes>` and `frame <hex>`
//   feed <bytes>               append to the Buffer; onMessage unless an error was reported earlier
//   poke                       onMessage once more even after an error (what the code itself does then)
//   bigframe <n>               C++ only: encode a message with an n-byte field, decode it; `# big ...`
// outputs per op: `msg <len> <fnv64>` / `err <name>` in callback order, `st left=<readable> dead=<0|1>`.
// rawmode: 0 = no raw callback, 1 = raw callback that lets every frame through, 2 = raw callback that drops
// frames whose last byte is odd.
#include "muduo/net/Buffer.h"
#include "muduo/net/TcpConnection.h"
#include "muduo/net/protobuf/ProtobufCodecLite.h"
#include "muduo/net/protorpc/RpcCodec.h"
#include "muduo/net/protorpc/rpc.pb.h"
#include "muduo/net/protorpc/rpcservice.pb.h"
#ifdef WITH_EXAMPLE_CODEC
#include "examples/protobuf/codec/codec.h"
#include "query.pb.h"
#endif
#include "common.h"
#include <memory>
#include <map>

using namespace muduo;
using namespace muduo::net;
using namespace vh;

static bool g_dead = false;
static std::string g_lastPayload;

// the only instrumentation: see (and log) every payload handed to protobuf, with protobuf's verdict
class Codec : public ProtobufCodecLite {
 public:
  Codec(const ::google::protobuf::Message* prototype, StringPiece tagArg, const ProtobufMessageCallback& messageCb,
        const RawMessageCallback& rawCb = RawMessageCallback(), const ErrorCallback& errorCb = defaultErrorCallback)
    : ProtobufCodecLite(prototype, tagArg, messageCb, rawCb, errorCb) {}
  virtual bool parseFromBuffer(StringPiece buf, google::protobuf::Message* message) {
    bool ok = ProtobufCodecLite::parseFromBuffer(buf, message);
    std::string p(buf.data(), buf.size());
    printf("< verdict %llu %zu %d\n", static_cast<unsigned long long>(fnv64(p)), p.size(), ok ? 1 : 0);
    if (ok) g_lastPayload = p;
    return ok;
  }
};

static std::string hexOrDash(const std::string& s, bool has) { return has ? "h:" + toHex(s) : "-"; }

static void printRpcFields(const RpcMessage& m) {
  printf("# fields rpc t=%d id=%llu s=%s m=%s rq=%s rs=%s e=%s\n", static_cast<int>(m.type()),
         static_cast<unsigned long long>(m.id()), hexOrDash(m.service(), m.has_service()).c_str(),
         hexOrDash(m.method(), m.has_method()).c_str(), hexOrDash(m.request(), m.has_request()).c_str(),
         hexOrDash(m.response(), m.has_response()).c_str(),
         m.has_error() ? std::to_string(static_cast<int>(m.error())).c_str() : "-");
}
static void printListFields(const ListRpcRequest& m) {
  printf("# fields list n=%s l=%s\n", hexOrDash(m.service_name(), m.has_service_name()).c_str(),
         m.has_list_method() ? (m.list_method() ? "1" : "0") : "-");
}

static void onError(const TcpConnectionPtr&, Buffer*, Timestamp, ProtobufCodecLite::ErrorCode e) {
  printf("err %s\n", ProtobufCodecLite::errorCodeToString(e).c_str());
  g_dead = true;
}
static void onRpc(const TcpConnectionPtr&, const RpcMessagePtr& m, Timestamp) {
  printRpcFields(*m);
  printf("msg %zu %llu\n", g_lastPayload.size(), static_cast<unsigned long long>(fnv64(g_lastPayload)));
}
static void onLite(const TcpConnectionPtr&, const MessagePtr& m, Timestamp) {
  const ListRpcRequest* l = dynamic_cast<const ListRpcRequest*>(m.get());
  if (l) printListFields(*l); else printf("# fields ?\n");
  printf("msg %zu %llu\n", g_lastPayload.size(), static_cast<unsigned long long>(fnv64(g_lastPayload)));
}
static bool rawAll(const TcpConnectionPtr&, StringPiece, Timestamp) { return true; }
static bool rawOdd(const TcpConnectionPtr&, StringPiece f, Timestamp) {
  return !(f.size() > 0 && (static_cast<unsigned char>(f.data()[f.size() - 1]) & 1));
}

typedef ProtobufCodecLiteT<RpcMessage, rpctag, Codec> InstrumentedRpcCodec;

#ifdef WITH_EXAMPLE_CODEC
static void exError(const TcpConnectionPtr&, Buffer*, Timestamp, ProtobufCodec::ErrorCode e) {
  printf("err %s\n", ProtobufCodec::errorCodeToString(e).c_str());
  g_dead = true;
}
static void exMessage(const TcpConnectionPtr&, const ::MessagePtr& m, Timestamp) {
  std::string tn = m->GetTypeName();
  std::string p = m->SerializeAsString();
  printf("# fields ex type=%s\n", tn.c_str());
  printf("msg %s %zu %llu\n", toHex(tn).c_str(), p.size(), static_cast<unsigned long long>(fnv64(p)));
}
#endif

static ProtobufCodecLite::RawMessageCallback rawOf(int mode) {
  if (mode == 1) return rawAll;
  if (mode == 2) return rawOdd;
  return ProtobufCodecLite::RawMessageCallback();
}

static bool optBytes(const std::string& tok, std::string* out) {   // "-" = absent
  if (tok == "-") return false;
  if (!parseBytes(tok, out)) { out->clear(); }
  return true;
}

int main() {
  std::unique_ptr<Buffer> buf(new Buffer());
  std::unique_ptr<InstrumentedRpcCodec> rpc;
  std::unique_ptr<Codec> lite;
#ifdef WITH_EXAMPLE_CODEC
  std::unique_ptr<ProtobufCodec> ex;
#endif
  TcpConnectionPtr conn;   // null: onMessage only hands it to the callbacks
  std::string line;
  while (std::getline(std::cin, line)) {
    std::vector<std::string> w = words(line);
    if (w.empty()) continue;
    const std::string& op = w[0];
    std::string d;
    if (op == "new" && w.size() >= 2) {
      rpc.reset(); lite.reset();
#ifdef WITH_EXAMPLE_CODEC
      ex.reset();
#endif
      buf.reset(new Buffer()); g_dead = false;
      if (w[1] == "rpc" && w.size() == 3) {
        rpc.reset(new InstrumentedRpcCodec(onRpc, rawOf(atoi(w[2].c_str())), onError));
        printf("ok tag=%s\n--\n", toHex(rpc->tag()).c_str());
      } else if (w[1] == "lite" && w.size() == 4 && parseBytes(w[2], &d)) {
        lite.reset(new Codec(&ListRpcRequest::default_instance(), d, onLite, rawOf(atoi(w[3].c_str())), onError));
        printf("ok tag=%s\n--\n", toHex(lite->tag()).c_str());
#ifdef WITH_EXAMPLE_CODEC
      } else if (w[1] == "ex") {
        ex.reset(new ProtobufCodec(exMessage, exError));
        printf("ok tag=\n--\n");
#endif
      } else {
        printf("bad-op\n--\n");
      }
    } else if (op == "reset") {
      buf.reset(new Buffer()); g_dead = false;
      printf("ok\n--\n");
    } else if (op == "encode") {
      Buffer out;
      std::string payload;
      if (rpc && w.size() == 8) {
        RpcMessage m;
        m.set_type(static_cast<MessageType>(atoi(w[1].c_str())));
        m.set_id(strtoull(w[2].c_str(), NULL, 10));
        std::string s;
        if (optBytes(w[3], &s)) m.set_service(s);
        if (optBytes(w[4], &s)) m.set_method(s);
        if (optBytes(w[5], &s)) m.set_request(s);
        if (optBytes(w[6], &s)) m.set_response(s);
        if (w[7] != "-") m.set_error(static_cast<ErrorCode>(atoi(w[7].c_str())));
        payload = m.SerializeAsString();
        rpc->fillEmptyBuffer(&out, m);
      } else if (lite && w.size() == 3) {
        ListRpcRequest m;
        std::string s;
        if (optBytes(w[1], &s)) m.set_service_name(s);
        if (w[2] != "-") m.set_list_method(w[2] == "1");
        payload = m.SerializeAsString();
        lite->fillEmptyBuffer(&out, m);
#ifdef WITH_EXAMPLE_CODEC
      } else if (ex && w.size() == 4) {
        // encode <q|a|e> <id> <text>
        std::string s; parseBytes(w[3], &s);
        if (w[1] == "q") { muduo::Query m; m.set_id(atoll(w[2].c_str())); m.set_questioner(s); payload = m.SerializeAsString(); ProtobufCodec::fillEmptyBuffer(&out, m); }
        else if (w[1] == "a") { muduo::Answer m; m.set_id(atoll(w[2].c_str())); m.set_questioner(s); m.set_answerer(s); payload = m.SerializeAsString(); ProtobufCodec::fillEmptyBuffer(&out, m); }
        else { muduo::Empty m; if (w[2] != "-") m.set_id(atoi(w[2].c_str())); payload = m.SerializeAsString(); ProtobufCodec::fillEmptyBuffer(&out, m); }
        std::string tn = (w[1] == "q") ? "muduo.Query" : (w[1] == "a") ? "muduo.Answer" : "muduo.Empty";
        printf("< typename h:%s\n", toHex(tn).c_str());
#endif
      } else { printf("bad-op\n--\n"); continue; }
      printf("< payload h:%s\n", toHex(payload).c_str());
      printf("frame %s\n--\n", toHex(std::string(out.peek(), out.readableBytes())).c_str());
    } else if ((op == "feed" && w.size() == 2 && parseBytes(w[1], &d)) || op == "poke") {
      if (op == "feed") buf->append(d.data(), d.size());
      if (!g_dead || op == "poke") {
        Timestamp now;
        if (rpc) rpc->onMessage(conn, buf.get(), now);
        else if (lite) lite->onMessage(conn, buf.get(), now);
#ifdef WITH_EXAMPLE_CODEC
        else if (ex) ex->onMessage(conn, buf.get(), now);
#endif
      }
      printf("st left=%zu dead=%d\n--\n", buf->readableBytes(), g_dead ? 1 : 0);
    } else if (op == "bigframe" && w.size() == 2) {
      // the encoder has no size limit; the decoder has one: C++-only observation (the frame is too big to ship
      // to the model as text)
      size_t n = strtoull(w[1].c_str(), NULL, 10);
      Buffer out, in;
      bool saveDead = g_dead; g_dead = false;
      size_t bodyLen = 0;
      // plain (uninstrumented) codecs whose callbacks only remember the last event
      struct Cap {
        static void err(const TcpConnectionPtr&, Buffer*, Timestamp, ProtobufCodecLite::ErrorCode e) {
          last() = std::string("err ") + ProtobufCodecLite::errorCodeToString(e);
        }
        static void msgR(const TcpConnectionPtr&, const RpcMessagePtr& m, Timestamp) {
          last() = "msg " + std::to_string(m->request().size());
        }
        static void msgL(const TcpConnectionPtr&, const MessagePtr& m, Timestamp) {
          const ListRpcRequest* l = dynamic_cast<const ListRpcRequest*>(m.get());
          last() = "msg " + std::to_string(l ? l->service_name().size() : 0);
        }
        static std::string& last() { static std::string s; return s; }
      };
      Cap::last() = "none";
      if (rpc) {
        RpcMessage m; m.set_type(REQUEST); m.set_id(1); m.set_request(std::string(n, 'x'));
        RpcCodec plain(Cap::msgR, ProtobufCodecLite::RawMessageCallback(), Cap::err);
        plain.fillEmptyBuffer(&out, m);
        bodyLen = out.readableBytes() - 4;
        in.append(out.peek(), out.readableBytes());
        plain.onMessage(conn, &in, Timestamp());
      } else if (lite) {
        ListRpcRequest m; m.set_service_name(std::string(n, 'x'));
        ProtobufCodecLite plain(&ListRpcRequest::default_instance(), lite->tag(), Cap::msgL,
                                ProtobufCodecLite::RawMessageCallback(), Cap::err);
        plain.fillEmptyBuffer(&out, m);
        bodyLen = out.readableBytes() - 4;
        in.append(out.peek(), out.readableBytes());
        plain.onMessage(conn, &in, Timestamp());
      } else { printf("bad-op\n--\n"); g_dead = saveDead; continue; }
      g_dead = saveDead;
      printf("# big field=%zu body=%zu left=%zu result=%s\n--\n", n, bodyLen, in.readableBytes(), Cap::last().c_str());
    } else {
      printf("bad-op\n--\n");
    }
  }
  fflush(stdout);
  return 0;
}
