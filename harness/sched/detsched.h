// detsched — deterministic, schedule-controlled execution of real pthread programs (T3).
//
// Link-level interposition only: no hook in muduo's Mutex/Condition/Thread.  Include this header in
// exactly ONE translation unit of a driver.  If the driver also uses harness/interpose.h, include
// interpose.h FIRST: detsched then plugs into interpose.h's `poll`/`epoll_wait` through the optional
// hooks vi::pollHook()/vi::epollHook(); without interpose.h it defines `poll`/`epoll_wait` itself.
//
// Interposed: pthread_mutex_lock/trylock/unlock/destroy, pthread_cond_wait/timedwait/signal/broadcast/
// destroy, pthread_create/join, poll, epoll_wait; it installs muduo::verif::pointHook() (when built with
// -DMUDUO_VERIF) and chains to a hook that was installed before ds::init().  Before ds::init() and for
// threads the scheduler does not know, every call goes straight to libc.
//
// ---------------------------------------------------------------------------------------------------
// SEMANTICS
//  * Registered threads: T0 = the thread that called ds::init(); every thread created by a registered
//    thread through pthread_create (hence muduo::Thread) gets the next index 1,2,… in creation order.
//    Exactly one registered thread runs at any time; all others are parked on their own semaphore.
//  * A thread gives up control ONLY at a yield point:
//      (a) before acquiring a mutex (pthread_mutex_lock);          state  mutex(m)
//      (b) when it waits on a condition (wait / timedwait);        state  wait(c) → sig(c) once notified
//      (c) at a named point (MUDUO_VERIF_POINT, ds::yield(name));  state  run
//      (d) when it creates a thread, joins, or exits;              state  run / join(Tk) / fin
//      (e) when it calls poll/epoll_wait with a non-zero timeout;  state  poll
//    unlock, notify, notifyAll, trylock, poll with timeout 0 never yield.  The code between two yield
//    points of a thread is one atomic step.
//  * pthread_create: the child runs FIRST, up to its first yield point (its "birth prefix"); then a
//    normal decision is taken in which the creator counts as the current thread.  The start handshake of
//    muduo::Thread (CountDownLatch in Thread::start / ThreadData::runInThread) is made invisible: the
//    first mutex a muduo::Thread child locks in its birth prefix is marked quiet (see below), so
//    Thread::start() costs no yield, no schedule entry and prints nothing.
//  * Enabled: run → always; mutex(m)/sig(c) → m is free; wait(c) → never (but see timeout/spurious);
//    join(Tk) → Tk finished; poll → the scheduler's own probe (libc poll with timeout 0 on a copy of the
//    pollfd array, or on the epoll descriptor itself) reports something ready; waitall → every other
//    thread finished.
//  * Decision = pick one MOVE from the canonical list
//        [current thread, if enabled] ++ [other enabled threads by increasing index]
//        ++ [timeout moves by index] ++ [spurious moves by index]
//    timeout move: a thread in a TIMED wait whose mutex is free (it returns ETIMEDOUT), or — only with
//    cfg().pollTimeouts — a thread in poll with a positive timeout (poll returns 0).  A finite poll
//    timeout (kPollTimeMs) therefore never fires by itself.  spurious move: only with cfg().spurious; an
//    unsignalled waiter whose mutex is free returns 0 from wait without having been notified.  Spurious
//    moves are offered only next to at least one run/timeout move: a state whose only moves would be
//    spurious is all-blocked.
//    With n ≥ 2 moves ONE schedule entry e is consumed and move (e mod n) is taken; with n = 1 nothing is
//    consumed.  An exhausted schedule yields 0 (= "no preemption: continue the current thread, else the
//    lowest enabled index"), unless ds::seed(s) was given: then entries come from a xorshift PRNG.
//    ds::chooser() (optional) overrides list and PRNG.
//  * notify with ≥ 2 unsignalled waiters consumes one entry too: waiter (e mod n) in ARRIVAL order;
//    notifyAll signals all.  A signalled waiter must reacquire the mutex (state sig).
//  * Phases.  After ds::init() the scheduler is in the SETUP phase: same rules, but every decision takes
//    the lowest enabled thread index (notify: first waiter), consumes nothing and records nothing — so
//    T0 can build objects, start pools/loop threads and create the program's threads deterministically
//    (a created thread stops at its first yield point).  ds::begin(schedule) enters the RUN phase (the
//    caller is the current thread); ds::waitAll() parks the caller (state waitall) until every other
//    registered thread has finished, then returns in the SETUP phase again.
//  * No move and not everybody finished  ⇒  all-blocked: ds::blockedHandler() is called with the state
//    of every thread; the default prints  `blocked T0:waitall T1:wait(c0) T2:mutex(m0) T3:fin`  (plus
//    `[label]` after a state when the thread set one with ds::label()), flushes stdout and _exit(0)s.
//    A handler must not return (if it does: fflush + _exit(0)).
//  * Same program + same schedule ⇒ same sequence of steps ⇒ byte-identical output.  Output never
//    contains tids or addresses: threads are T<index>; mutexes/conditions carry the name given with
//    ds::name(ptr, "notEmpty") or else m0,m1,…/c0,c1,… in order of first use.
//  * Quiet mutexes (ds::quiet(ptr), and the muduo::Thread start latch): locking a FREE quiet mutex is not
//    a yield point and nothing about it is traced; a held one still blocks correctly.
//
// API (namespace ds)
//    ds::init();                          register caller as T0, activate, SETUP phase
//    ds::begin(std::vector<int> sched);   RUN phase with this schedule (ds::seed(s) for PRNG tail)
//    ds::waitAll();                       wait for all other threads; back to SETUP
//    ds::self()                           index of the calling thread (-1: not registered)
//    ds::name(ptr, "x"); ds::quiet(ptr);  name / hide a pthread_mutex_t* or pthread_cond_t*
//    ds::label("take");                   annotate the calling thread (shown in the blocked report)
//    ds::yield("name");                   a driver's own named point
//    ds::cfg().spurious / .pollTimeouts / .trace / .pointFilter
//    ds::observer()   = void(*)(const ds::Ev&)    called for every action (see EvKind), in scheduler order
//    ds::chooser()    = int(*)(const ds::Move*, int n, int kind)   kind: 0 scheduling, 1 notify pick
//    ds::blockedHandler() = void(*)(const std::vector<ds::ThreadState>&)
//    ds::emit()       = void(*)(const std::string&)   where detsched prints (default: stdout + '\n')
//    ds::decisions()  every RUN-phase decision with n ≥ 2: kind, n, k, curEnabled (k≠0 ∧ curEnabled =
//                     preemption); ds::decisionsString() renders them as `s3.1c n2.0 …`
//                     (s = scheduling, n = notify pick; <n>.<k>; trailing c = current thread was enabled)
//    ds::stateString() the `T0:… T1:…` text of the current state
//    ds::shutdown()   stop interposing (call before leaving main if threads are still parked)
//  With cfg().trace the default observer prints one `# T<k> <action> <object>` line per action.
//
// Typical driver:
//    ds::init(); ds::name(q.mutexPtr, "m"); create threads (each stops at its first yield);
//    ds::begin(schedule); ds::waitAll(); print "# dec " + ds::decisionsString();
// ---------------------------------------------------------------------------------------------------
#ifndef VERIF_HARNESS_SCHED_DETSCHED_H
#define VERIF_HARNESS_SCHED_DETSCHED_H

#ifndef _GNU_SOURCE
#define _GNU_SOURCE
#endif
#include <dlfcn.h>
#include <errno.h>
#include <poll.h>
#include <pthread.h>
#include <semaphore.h>
#include <stdint.h>
#include <stdio.h>
#include <stdlib.h>
#include <string.h>
#include <sys/epoll.h>
#include <unistd.h>

#include <map>
#include <string>
#include <vector>

#ifdef MUDUO_VERIF
#include "muduo/base/VerifHooks.h"
#endif

namespace muduo { namespace detail { void* startThread(void*); } }

namespace ds {

enum St { ST_RUN, ST_MUTEX, ST_WAIT, ST_SIG, ST_JOIN, ST_POLL, ST_WAITALL, ST_FIN };
enum MoveKind { MV_RUN, MV_TIMEOUT, MV_SPURIOUS };
struct Move { int thread; MoveKind kind; };

enum EvKind {
  EV_LOCK,        // mutex granted               obj/name = mutex
  EV_UNLOCK,      //                              obj/name = mutex
  EV_WAIT,        // entered the wait-set         obj/name = condition
  EV_WAKE,        // left wait, mutex reacquired  obj/name = condition, arg: 0 notified, 1 timeout, 2 spurious
  EV_NOTIFY,      // arg = thread picked, -1 none
  EV_NOTIFYALL,   // arg = number of waiters released
  EV_POINT,       // name = point name, obj = its object (reported when the point is reached)
  EV_POLL_BLOCK,  // about to block in poll/epoll_wait
  EV_POLL_RETURN, // arg = return value of poll/epoll_wait
  EV_CREATE,      // arg = child index
  EV_EXIT,        // thread function returned
  EV_JOIN         // arg = joined thread (reported when join returns)
};
struct Ev { EvKind kind; int thread; const void* obj; const char* name; int arg; };

struct ThreadState { int thread; St st; std::string text; };   // text e.g. "wait(notEmpty)[take]"
struct Decision { int kind; int n; int k; bool curEnabled; };

struct Cfg {
  bool spurious;        // offer spurious wake-ups as moves
  bool pollTimeouts;    // offer time-outs of poll/epoll_wait with a positive timeout as moves
  bool trace;           // print `# T<k> …` lines for every action
  bool (*pointFilter)(const char* name, const void* obj);   // false = this point does not yield
  Cfg() : spurious(false), pollTimeouts(false), trace(false), pointFilter(0) {}
};

struct Thr {
  int idx;
  sem_t sem;
  St st;
  const void* obj;          // mutex (ST_MUTEX) or condition (ST_WAIT/ST_SIG)
  pthread_mutex_t* mtx;     // mutex to reacquire (ST_WAIT/ST_SIG)
  bool timed;
  int wake;                 // 0 notified, 1 timeout, 2 spurious
  int joinTarget;
  const char* point;
  pthread_t real;
  void* (*fn)(void*);
  void* arg;
  bool birth;               // still in its birth prefix
  int creator;
  bool muduoThread, latchSeen;
  struct pollfd* pfds; nfds_t npfds; int epfd; int pollTimeout;
  std::string label;
  Thr() : idx(0), st(ST_RUN), obj(0), mtx(0), timed(false), wake(0), joinTarget(-1), point(0), real(),
          fn(0), arg(0), birth(false), creator(-1), muduoThread(false), latchSeen(false),
          pfds(0), npfds(0), epfd(-1), pollTimeout(0) {}
};

struct Mtx { int owner; bool quiet; std::string name; Mtx() : owner(-1), quiet(false) {} };
struct Cnd { std::vector<int> waiters; std::string name; bool quiet; Cnd() : quiet(false) {} };

typedef int (*PollFn)(struct pollfd*, nfds_t, int);
typedef int (*EpollFn)(int, struct epoll_event*, int, int);

struct Reals {
  int (*mutex_lock)(pthread_mutex_t*);
  int (*mutex_trylock)(pthread_mutex_t*);
  int (*mutex_unlock)(pthread_mutex_t*);
  int (*mutex_destroy)(pthread_mutex_t*);
  int (*cond_wait)(pthread_cond_t*, pthread_mutex_t*);
  int (*cond_timedwait)(pthread_cond_t*, pthread_mutex_t*, const struct timespec*);
  int (*cond_signal)(pthread_cond_t*);
  int (*cond_broadcast)(pthread_cond_t*);
  int (*cond_destroy)(pthread_cond_t*);
  int (*create)(pthread_t*, const pthread_attr_t*, void* (*)(void*), void*);
  int (*join)(pthread_t, void**);
  PollFn poll;
  EpollFn epoll_wait;
};

inline void* sym(const char* name, const char* ver) {
  void* p = 0;
  if (ver) p = dlvsym(RTLD_NEXT, name, ver);
  if (!p) p = dlsym(RTLD_NEXT, name);
  if (!p) { fprintf(stderr, "detsched: no real %s\n", name); _exit(3); }
  return p;
}
inline void* symSan(const char* interceptor, const char* name) {
  // under ASan/TSan the sanitizer's interceptor must see thread creation and joins
  void* p = dlsym(RTLD_DEFAULT, interceptor);
  return p ? p : sym(name, 0);
}
inline Reals& R() {
  static Reals r;
  static bool done = false;
  if (!done) {
    r.mutex_lock = reinterpret_cast<int (*)(pthread_mutex_t*)>(sym("pthread_mutex_lock", 0));
    r.mutex_trylock = reinterpret_cast<int (*)(pthread_mutex_t*)>(sym("pthread_mutex_trylock", 0));
    r.mutex_unlock = reinterpret_cast<int (*)(pthread_mutex_t*)>(sym("pthread_mutex_unlock", 0));
    r.mutex_destroy = reinterpret_cast<int (*)(pthread_mutex_t*)>(sym("pthread_mutex_destroy", 0));
    r.cond_wait = reinterpret_cast<int (*)(pthread_cond_t*, pthread_mutex_t*)>(sym("pthread_cond_wait", "GLIBC_2.3.2"));
    r.cond_timedwait = reinterpret_cast<int (*)(pthread_cond_t*, pthread_mutex_t*, const struct timespec*)>(sym("pthread_cond_timedwait", "GLIBC_2.3.2"));
    r.cond_signal = reinterpret_cast<int (*)(pthread_cond_t*)>(sym("pthread_cond_signal", "GLIBC_2.3.2"));
    r.cond_broadcast = reinterpret_cast<int (*)(pthread_cond_t*)>(sym("pthread_cond_broadcast", "GLIBC_2.3.2"));
    r.cond_destroy = reinterpret_cast<int (*)(pthread_cond_t*)>(sym("pthread_cond_destroy", "GLIBC_2.3.2"));
    r.create = reinterpret_cast<int (*)(pthread_t*, const pthread_attr_t*, void* (*)(void*), void*)>(symSan("__interceptor_pthread_create", "pthread_create"));
    r.join = reinterpret_cast<int (*)(pthread_t, void**)>(symSan("__interceptor_pthread_join", "pthread_join"));
    r.poll = reinterpret_cast<PollFn>(sym("poll", 0));
    r.epoll_wait = reinterpret_cast<EpollFn>(sym("epoll_wait", 0));
    done = true;
  }
  return r;
}

struct G {
  volatile bool active;
  bool run;                       // RUN phase (else SETUP)
  std::vector<Thr*> thr;
  int cur;
  std::map<const void*, Mtx> mtx;
  std::map<const void*, Cnd> cnd;
  std::map<const void*, std::string> names;
  int nextM, nextC;
  std::vector<int> schedule;
  size_t pos;
  bool seeded; uint64_t prng;
  std::vector<Decision> decisions;
  std::vector<int> choices;
  Cfg cfg;
  void (*observer)(const Ev&);
  int (*chooser)(const Move*, int, int);
  void (*blockedHandler)(const std::vector<ThreadState>&);
  void (*emit)(const std::string&);
#ifdef MUDUO_VERIF
  muduo::verif::PointHook prevPoint;
#endif
  G() : active(false), run(false), cur(0), nextM(0), nextC(0), pos(0), seeded(false), prng(0),
        observer(0), chooser(0), blockedHandler(0), emit(0) {}
};
inline G& g() { static G* s = new G; return *s; }   // never destroyed: parked threads may outlive main

inline Thr*& selfPtr() { static __thread Thr* s = 0; return s; }
inline Thr* me() { return g().active ? selfPtr() : 0; }
inline int self() { Thr* t = selfPtr(); return t ? t->idx : -1; }

inline Cfg& cfg() { return g().cfg; }
inline void (*&observer())(const Ev&) { return g().observer; }
inline int (*&chooser())(const Move*, int, int) { return g().chooser; }
inline void (*&blockedHandler())(const std::vector<ThreadState>&) { return g().blockedHandler; }
inline void (*&emit())(const std::string&) { return g().emit; }

inline void out(const std::string& s) {
  if (g().emit) g().emit(s);
  else { fputs(s.c_str(), stdout); fputc('\n', stdout); }
}

inline void name(const void* p, const std::string& n) {
  g().names[p] = n;
  std::map<const void*, Mtx>::iterator m = g().mtx.find(p);
  if (m != g().mtx.end()) m->second.name = n;
  std::map<const void*, Cnd>::iterator c = g().cnd.find(p);
  if (c != g().cnd.end()) c->second.name = n;
}
inline Mtx& mtxOf(const void* p) { return g().mtx[p]; }
inline Cnd& cndOf(const void* p) { return g().cnd[p]; }
inline void quiet(const void* p) { mtxOf(p).quiet = true; }
inline void quietCond(const void* p) { cndOf(p).quiet = true; }
inline const std::string& mtxName(const void* p) {
  Mtx& x = mtxOf(p);
  if (x.name.empty()) {
    std::map<const void*, std::string>::iterator it = g().names.find(p);
    if (it != g().names.end()) x.name = it->second;
    else { char b[24]; snprintf(b, sizeof b, "m%d", g().nextM++); x.name = b; }
  }
  return x.name;
}
inline const std::string& cndName(const void* p) {
  Cnd& x = cndOf(p);
  if (x.name.empty()) {
    std::map<const void*, std::string>::iterator it = g().names.find(p);
    if (it != g().names.end()) x.name = it->second;
    else { char b[24]; snprintf(b, sizeof b, "c%d", g().nextC++); x.name = b; }
  }
  return x.name;
}
inline void label(const std::string& s) { Thr* t = selfPtr(); if (t) t->label = s; }

inline void defaultTrace(const Ev& e) {
  static const char* const kNames[] = { "lock", "unlock", "wait", "wake", "notify", "notifyAll", "point",
                                        "pollBlock", "pollReturn", "create", "exit", "join" };
  char b[256];
  switch (e.kind) {
    case EV_WAKE:
      snprintf(b, sizeof b, "# T%d wake %s %s", e.thread, e.name, e.arg == 0 ? "notified" : e.arg == 1 ? "timeout" : "spurious"); break;
    case EV_NOTIFY:
      if (e.arg >= 0) snprintf(b, sizeof b, "# T%d notify %s -> T%d", e.thread, e.name, e.arg);
      else snprintf(b, sizeof b, "# T%d notify %s -> none", e.thread, e.name);
      break;
    case EV_NOTIFYALL: case EV_POLL_RETURN:
      snprintf(b, sizeof b, "# T%d %s %s %d", e.thread, kNames[e.kind], e.name ? e.name : "-", e.arg); break;
    case EV_CREATE: case EV_JOIN:
      snprintf(b, sizeof b, "# T%d %s T%d", e.thread, kNames[e.kind], e.arg); break;
    default:
      snprintf(b, sizeof b, "# T%d %s%s%s", e.thread, kNames[e.kind], e.name ? " " : "", e.name ? e.name : ""); break;
  }
  out(b);
}
inline void observe(EvKind k, Thr* t, const void* obj, const char* nm, int arg) {
  G& s = g();
  if (!s.observer && !s.cfg.trace) return;
  Ev e; e.kind = k; e.thread = t->idx; e.obj = obj; e.name = nm; e.arg = arg;
  if (s.cfg.trace) defaultTrace(e);
  if (s.observer) s.observer(e);
}

inline bool mutexFree(const void* m) { return mtxOf(m).owner < 0; }
inline bool pollReady(Thr* t) {
  if (t->epfd >= 0) {
    struct pollfd p; p.fd = t->epfd; p.events = POLLIN; p.revents = 0;
    return R().poll(&p, 1, 0) > 0;
  }
  std::vector<struct pollfd> copy(t->pfds, t->pfds + t->npfds);
  for (size_t i = 0; i < copy.size(); ++i) copy[i].revents = 0;
  return R().poll(copy.empty() ? 0 : &copy[0], copy.size(), 0) > 0;
}
inline bool enabledRun(Thr* t) {
  G& s = g();
  switch (t->st) {
    case ST_RUN: return true;
    case ST_MUTEX: return mutexFree(t->obj);
    case ST_SIG: return mutexFree(t->mtx);
    case ST_JOIN: return s.thr[static_cast<size_t>(t->joinTarget)]->st == ST_FIN;
    case ST_POLL: return pollReady(t);
    case ST_WAITALL:
      for (size_t i = 0; i < s.thr.size(); ++i) if (s.thr[i] != t && s.thr[i]->st != ST_FIN) return false;
      return true;
    default: return false;
  }
}
inline void moves(std::vector<Move>& mv) {
  G& s = g();
  Move m;
  if (s.run && s.cur >= 0 && enabledRun(s.thr[static_cast<size_t>(s.cur)])) { m.thread = s.cur; m.kind = MV_RUN; mv.push_back(m); }
  for (size_t i = 0; i < s.thr.size(); ++i) {
    if (s.run && static_cast<int>(i) == s.cur) continue;
    if (enabledRun(s.thr[i])) { m.thread = static_cast<int>(i); m.kind = MV_RUN; mv.push_back(m); }
  }
  for (size_t i = 0; i < s.thr.size(); ++i) {
    Thr* t = s.thr[i];
    bool to = (t->st == ST_WAIT && t->timed && mutexFree(t->mtx)) ||
              (t->st == ST_POLL && s.cfg.pollTimeouts && t->pollTimeout > 0 && !pollReady(t));
    if (to) { m.thread = static_cast<int>(i); m.kind = MV_TIMEOUT; mv.push_back(m); }
  }
  if (s.cfg.spurious)
    for (size_t i = 0; i < s.thr.size(); ++i) {
      Thr* t = s.thr[i];
      if (t->st == ST_WAIT && mutexFree(t->mtx)) { m.thread = static_cast<int>(i); m.kind = MV_SPURIOUS; mv.push_back(m); }
    }
}

inline std::string stateText(Thr* t) {
  char b[32];
  std::string r;
  switch (t->st) {
    case ST_RUN: r = t->point ? std::string("run(") + t->point + ")" : std::string("run"); break;
    case ST_MUTEX: r = "mutex(" + mtxName(t->obj) + ")"; break;
    case ST_WAIT: r = std::string(t->timed ? "timedwait(" : "wait(") + cndName(t->obj) + ")"; break;
    case ST_SIG: r = "sig(" + cndName(t->obj) + ")"; break;
    case ST_JOIN: snprintf(b, sizeof b, "join(T%d)", t->joinTarget); r = b; break;
    case ST_POLL: r = "poll"; break;
    case ST_WAITALL: r = "waitall"; break;
    case ST_FIN: r = "fin"; break;
  }
  if (!t->label.empty() && t->st != ST_FIN) r += "[" + t->label + "]";
  return r;
}
inline std::string stateString() {
  G& s = g();
  std::string r;
  char b[16];
  for (size_t i = 0; i < s.thr.size(); ++i) {
    snprintf(b, sizeof b, "%sT%d:", i ? " " : "", static_cast<int>(i));
    r += b; r += stateText(s.thr[i]);
  }
  return r;
}
inline void reportBlocked() {
  G& s = g();
  std::vector<ThreadState> v;
  for (size_t i = 0; i < s.thr.size(); ++i) {
    ThreadState ts; ts.thread = static_cast<int>(i); ts.st = s.thr[i]->st; ts.text = stateText(s.thr[i]);
    v.push_back(ts);
  }
  if (s.blockedHandler) s.blockedHandler(v);
  else out("blocked " + stateString());
  fflush(stdout); fflush(stderr);
  _exit(0);
}

inline int nextEntry() {
  G& s = g();
  if (s.pos < s.schedule.size()) return s.schedule[s.pos++];
  if (s.seeded) {
    s.prng ^= s.prng << 13; s.prng ^= s.prng >> 7; s.prng ^= s.prng << 17;
    return static_cast<int>((s.prng >> 11) & 0xffff);
  }
  return 0;
}
// kind 0: scheduling decision over mv; kind 1: notify pick among n waiters (mv = waiters as MV_RUN moves)
inline int choose(int kind, const std::vector<Move>& mv, bool curEnabled) {
  G& s = g();
  int n = static_cast<int>(mv.size());
  if (n <= 1 || !s.run) return 0;
  int k;
  if (s.chooser) k = s.chooser(&mv[0], n, kind);
  else k = nextEntry();
  k %= n; if (k < 0) k += n;
  Decision d; d.kind = kind; d.n = n; d.k = k; d.curEnabled = curEnabled;
  s.decisions.push_back(d);
  s.choices.push_back(k);
  return k;
}

inline void semWait(Thr* t) { while (sem_wait(&t->sem) != 0 && errno == EINTR) {} }

// The calling thread has set its own state; pick who runs next.  Returns when the caller is picked
// (immediately if it picks itself); a finished caller returns right after handing over.
inline void reschedule(Thr* self) {
  G& s = g();
  if (self->birth) {
    self->birth = false;
    if (self->creator >= 0 && s.thr[static_cast<size_t>(self->creator)]->st != ST_FIN) s.cur = self->creator;
  }
  std::vector<Move> mv;
  moves(mv);
  // spurious wake-ups alone never count as progress: a state whose only moves are spurious is all-blocked
  bool progress = false;
  for (size_t i = 0; i < mv.size(); ++i) if (mv[i].kind != MV_SPURIOUS) progress = true;
  if (!progress) reportBlocked();
  bool curEnabled = s.run && mv[0].kind == MV_RUN && mv[0].thread == s.cur;
  int k = choose(0, mv, curEnabled);
  Move m = mv[static_cast<size_t>(k)];
  Thr* t = s.thr[static_cast<size_t>(m.thread)];
  if (m.kind != MV_RUN) {
    if (t->st == ST_WAIT) {
      std::vector<int>& w = cndOf(t->obj).waiters;
      for (size_t i = 0; i < w.size(); ++i) if (w[i] == t->idx) { w.erase(w.begin() + static_cast<long>(i)); break; }
      t->st = ST_SIG;
    }
    t->wake = (m.kind == MV_TIMEOUT) ? 1 : 2;
  }
  s.cur = t->idx;
  if (t != self) {
    sem_post(&t->sem);
    if (self->st != ST_FIN) semWait(self);
  }
}

inline int lock(Thr* t, pthread_mutex_t* m) {
  Mtx& x = mtxOf(m);
  if (t->birth && t->muduoThread && !t->latchSeen) { t->latchSeen = true; x.quiet = true; }
  bool q = x.quiet;
  if (!(q && x.owner < 0)) {
    t->st = ST_MUTEX; t->obj = m;
    reschedule(t);
    t->st = ST_RUN;
  }
  mtxOf(m).owner = t->idx;
  int rc = R().mutex_lock(m);
  if (!q) observe(EV_LOCK, t, m, mtxName(m).c_str(), 0);
  return rc;
}
inline int unlock(Thr* t, pthread_mutex_t* m) {
  Mtx& x = mtxOf(m);
  x.owner = -1;
  if (!x.quiet) observe(EV_UNLOCK, t, m, mtxName(m).c_str(), 0);
  return R().mutex_unlock(m);
}
inline int condWait(Thr* t, pthread_cond_t* c, pthread_mutex_t* m, bool timed) {
  bool q = mtxOf(m).quiet;
  if (q) cndOf(c).quiet = true;
  mtxOf(m).owner = -1;
  R().mutex_unlock(m);
  t->st = ST_WAIT; t->obj = c; t->mtx = m; t->timed = timed; t->wake = 0;
  cndOf(c).waiters.push_back(t->idx);
  if (!q) observe(EV_WAIT, t, c, cndName(c).c_str(), 0);
  reschedule(t);
  t->st = ST_RUN;
  mtxOf(m).owner = t->idx;
  R().mutex_lock(m);
  int w = t->wake;
  if (!q) observe(EV_WAKE, t, c, cndName(c).c_str(), w);
  return w == 1 ? ETIMEDOUT : 0;
}
inline int condSignal(Thr* t, pthread_cond_t* c) {
  G& s = g();
  Cnd& cv = cndOf(c);
  if (t->birth && t->muduoThread) cv.quiet = true;
  if (cv.waiters.empty()) { if (!cv.quiet) observe(EV_NOTIFY, t, c, cndName(c).c_str(), -1); return 0; }
  std::vector<Move> mv;
  for (size_t i = 0; i < cv.waiters.size(); ++i) { Move m; m.thread = cv.waiters[i]; m.kind = MV_RUN; mv.push_back(m); }
  int k = choose(1, mv, false);
  int w = cv.waiters[static_cast<size_t>(k)];
  cv.waiters.erase(cv.waiters.begin() + k);
  Thr* wt = s.thr[static_cast<size_t>(w)];
  wt->st = ST_SIG; wt->wake = 0;
  if (!cv.quiet) observe(EV_NOTIFY, t, c, cndName(c).c_str(), w);
  return 0;
}
inline int condBroadcast(Thr* t, pthread_cond_t* c) {
  G& s = g();
  Cnd& cv = cndOf(c);
  int n = static_cast<int>(cv.waiters.size());
  if (t->birth && t->muduoThread) cv.quiet = true;
  for (size_t i = 0; i < cv.waiters.size(); ++i) {
    Thr* wt = s.thr[static_cast<size_t>(cv.waiters[i])];
    wt->st = ST_SIG; wt->wake = 0;
  }
  cv.waiters.clear();
  if (!cv.quiet) observe(EV_NOTIFYALL, t, c, cndName(c).c_str(), n);
  return 0;
}

inline void yield(const char* nm, const void* obj = 0) {
  Thr* t = me();
  if (!t) return;
  t->st = ST_RUN; t->point = nm;
  observe(EV_POINT, t, obj, nm, 0);
  reschedule(t);
  t->point = 0;
}
inline void pointFn(const char* nm, const void* obj) {
#ifdef MUDUO_VERIF
  if (g().prevPoint) g().prevPoint(nm, obj);
#endif
  if (!me()) return;
  if (g().cfg.pointFilter && !g().cfg.pointFilter(nm, obj)) return;
  yield(nm, obj);
}

inline void* trampoline(void* p) {
  Thr* t = static_cast<Thr*>(p);
  selfPtr() = t;
  semWait(t);
  void* r = t->fn(t->arg);
  t->st = ST_FIN;
  observe(EV_EXIT, t, 0, 0, 0);
  reschedule(t);
  return r;
}
inline int create(Thr* t, pthread_t* tid, const pthread_attr_t* attr, void* (*fn)(void*), void* arg) {
  G& s = g();
  Thr* c = new Thr;
  c->idx = static_cast<int>(s.thr.size());
  sem_init(&c->sem, 0, 0);
  c->fn = fn; c->arg = arg; c->birth = true; c->creator = t->idx;
  c->muduoThread = (fn == &muduo::detail::startThread);
  c->st = ST_RUN;
  s.thr.push_back(c);
  int rc = R().create(tid, attr, &trampoline, c);
  if (rc != 0) { s.thr.pop_back(); delete c; return rc; }
  c->real = *tid;
  observe(EV_CREATE, t, 0, 0, c->idx);
  t->st = ST_RUN;
  s.cur = c->idx;
  sem_post(&c->sem);
  semWait(t);
  return 0;
}
inline int join(Thr* t, pthread_t th, void** ret) {
  G& s = g();
  int target = -1;
  for (size_t i = 1; i < s.thr.size(); ++i) if (pthread_equal(s.thr[i]->real, th)) target = static_cast<int>(i);
  if (target < 0) return R().join(th, ret);
  t->st = ST_JOIN; t->joinTarget = target;
  reschedule(t);
  t->st = ST_RUN;
  int rc = R().join(th, ret);
  observe(EV_JOIN, t, 0, 0, target);
  return rc;
}

inline int pollImpl(struct pollfd* fds, nfds_t n, int timeout, PollFn rp) {
  Thr* t = me();
  if (!t || timeout == 0) return rp(fds, n, timeout);
  t->st = ST_POLL; t->pfds = fds; t->npfds = n; t->epfd = -1; t->pollTimeout = timeout; t->wake = 0;
  observe(EV_POLL_BLOCK, t, 0, 0, 0);
  reschedule(t);
  t->st = ST_RUN;
  int r = 0;
  if (t->wake == 1) { for (nfds_t i = 0; i < n; ++i) fds[i].revents = 0; }
  else r = rp(fds, n, 0);
  observe(EV_POLL_RETURN, t, 0, 0, r);
  return r;
}
inline int epollImpl(int epfd, struct epoll_event* evs, int maxev, int timeout, EpollFn rp) {
  Thr* t = me();
  if (!t || timeout == 0) return rp(epfd, evs, maxev, timeout);
  t->st = ST_POLL; t->pfds = 0; t->npfds = 0; t->epfd = epfd; t->pollTimeout = timeout; t->wake = 0;
  observe(EV_POLL_BLOCK, t, 0, 0, 0);
  reschedule(t);
  t->st = ST_RUN;
  int r = (t->wake == 1) ? 0 : rp(epfd, evs, maxev, 0);
  observe(EV_POLL_RETURN, t, 0, 0, r);
  return r;
}

inline void init() {
  G& s = g();
  R();
  if (s.active) return;
  Thr* t = new Thr;
  t->idx = 0;
  sem_init(&t->sem, 0, 0);
  t->real = pthread_self();
  s.thr.clear();
  s.thr.push_back(t);
  selfPtr() = t;
  s.cur = 0;
  s.run = false;
#ifdef MUDUO_VERIF
  s.prevPoint = muduo::verif::pointHook();
  if (s.prevPoint == &pointFn) s.prevPoint = 0;
  muduo::verif::pointHook() = &pointFn;
#endif
#ifdef VERIF_HARNESS_INTERPOSE_H
  vi::pollHook() = &pollImpl;
  vi::epollHook() = &epollImpl;
#endif
  s.active = true;
}
inline void seed(uint64_t v) { g().seeded = true; g().prng = v * 0x9E3779B97F4A7C15ULL + 0x1234567ULL; if (!g().prng) g().prng = 1; }
inline void begin(const std::vector<int>& schedule) {
  G& s = g();
  s.schedule = schedule; s.pos = 0; s.decisions.clear(); s.choices.clear();
  s.run = true;
  s.cur = self() >= 0 ? self() : 0;
}
inline void waitAll() {
  Thr* t = me();
  if (!t) return;
  t->st = ST_WAITALL;
  reschedule(t);
  t->st = ST_RUN;
  g().run = false;
}
inline void shutdown() { g().active = false; }
inline const std::vector<Decision>& decisions() { return g().decisions; }
inline const std::vector<int>& choices() { return g().choices; }
inline size_t consumed() { return g().pos; }
inline std::string decisionsString() {
  std::string r;
  char b[48];
  const std::vector<Decision>& d = g().decisions;
  for (size_t i = 0; i < d.size(); ++i) {
    snprintf(b, sizeof b, "%s%c%d.%d%s", i ? " " : "", d[i].kind == 0 ? 's' : 'n', d[i].n, d[i].k, d[i].curEnabled ? "c" : "");
    r += b;
  }
  return r;
}

}  // namespace ds

extern "C" {

int pthread_mutex_lock(pthread_mutex_t* m) {
  ds::Thr* t = ds::me();
  return t ? ds::lock(t, m) : ds::R().mutex_lock(m);
}
int pthread_mutex_trylock(pthread_mutex_t* m) {
  ds::Thr* t = ds::me();
  if (!t) return ds::R().mutex_trylock(m);
  ds::Mtx& x = ds::mtxOf(m);
  if (x.owner >= 0) return EBUSY;
  int rc = ds::R().mutex_trylock(m);
  if (rc == 0) { x.owner = t->idx; if (!x.quiet) ds::observe(ds::EV_LOCK, t, m, ds::mtxName(m).c_str(), 1); }
  return rc;
}
int pthread_mutex_unlock(pthread_mutex_t* m) {
  ds::Thr* t = ds::me();
  return t ? ds::unlock(t, m) : ds::R().mutex_unlock(m);
}
int pthread_mutex_destroy(pthread_mutex_t* m) {
  if (ds::me()) ds::g().mtx.erase(m);
  return ds::R().mutex_destroy(m);
}
int pthread_cond_wait(pthread_cond_t* c, pthread_mutex_t* m) {
  ds::Thr* t = ds::me();
  return t ? ds::condWait(t, c, m, false) : ds::R().cond_wait(c, m);
}
int pthread_cond_timedwait(pthread_cond_t* c, pthread_mutex_t* m, const struct timespec* ts) {
  ds::Thr* t = ds::me();
  return t ? ds::condWait(t, c, m, true) : ds::R().cond_timedwait(c, m, ts);
}
int pthread_cond_signal(pthread_cond_t* c) {
  ds::Thr* t = ds::me();
  return t ? ds::condSignal(t, c) : ds::R().cond_signal(c);
}
int pthread_cond_broadcast(pthread_cond_t* c) {
  ds::Thr* t = ds::me();
  return t ? ds::condBroadcast(t, c) : ds::R().cond_broadcast(c);
}
int pthread_cond_destroy(pthread_cond_t* c) {
  if (ds::me()) ds::g().cnd.erase(c);
  return ds::R().cond_destroy(c);
}
int pthread_create(pthread_t* tid, const pthread_attr_t* attr, void* (*fn)(void*), void* arg) {
  ds::Thr* t = ds::me();
  return t ? ds::create(t, tid, attr, fn, arg) : ds::R().create(tid, attr, fn, arg);
}
int pthread_join(pthread_t th, void** ret) {
  ds::Thr* t = ds::me();
  return t ? ds::join(t, th, ret) : ds::R().join(th, ret);
}

#ifndef VERIF_HARNESS_INTERPOSE_H
#define VERIF_DETSCHED_OWNS_POLL 1
int poll(struct pollfd* fds, nfds_t nfds, int timeout) {
  return ds::pollImpl(fds, nfds, timeout, ds::R().poll);
}
int epoll_wait(int epfd, struct epoll_event* events, int maxevents, int timeout) {
  return ds::epollImpl(epfd, events, maxevents, timeout, ds::R().epoll_wait);
}
#endif

}  // extern "C"

#endif  // VERIF_HARNESS_SCHED_DETSCHED_H
