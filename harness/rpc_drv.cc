// C++ side of `drv_rpc` (property C19): real muduo::net::RpcChannel objects, each on one end of a
// socketpair-backed TcpConnection inside one real EventLoop that is single-stepped (loopstep.h).
// The harness is the scripted raw peer on the other end of every socketpair and speaks the wire
// format itself (own encoder / decoder: length, "RPC0", RpcMessage, adler32): it acts as server for
// client channels (answers in any order, duplicates, unknown ids, omissions, malformed RESPONSEs)
// and as client for server channels (requests to existing / missing services and methods,
// unparsable payloads).  Server channels are created by the real RpcServer::onConnection and serve
// the real generated veriftest::EchoService.
//
// protocol (one op per line; `c` = channel index):
//   chan <c> client|server          create channel c (must be the next index)
//   call <c> [<d>]                  CallMethod on the loop thread; the call gets the next tag of c.  d (default 0) =
//                                   chain depth: when the completion closure of this call runs it issues, from inside
//                                   Run(), a new CallMethod on the same channel (next tag of c, depth d-1) - chained
//                                   RPCs as examples/protobuf/rpcbench does them
//   callmt <c> <n> [<d>]            n threads do one CallMethod each (tags next..next+n-1, each with chain depth d), are
//                                   joined, then ONE loop iteration runs (their sends are queued to the loop)
//   peerResponse <c> <id> ok:<p>|garbage|err:<e>|both:<p>:<e>|bare
//   peerRequest <c> <id> echo|nosvc Echo|Defer|nometh ok:<p>|garbage
//   peerError <c> <id>              message of type ERROR
//   fireDone <c> <p>                the service invokes the kept done-callback of the Defer request with payload p
//   idstress <c> <n> <k>            n threads x k CallMethod each on client channel c, concurrently (oracle only: ids distinct)
//   reconn <c>                      client channel: a new connection is handed to the SAME channel object (setConnection)
//   destroy <c>                     client channel: drop the channel object (~RpcChannel)
//   iter                            one loop iteration
// events per block, grouped by channel: callback events in order (`c<i> done <tag> view=<p|->`,
// `c<i> chained <tag'> by <tag>` = the CallMethod issued inside the closure of <tag> returned,
// `c<i> free resp|done <tag>`, `c<i> dispatch p=<p>`, `c<i> uaf ...`), then what the peer read from the
// wire: replies in order (`c<i> reply id=<id> payload=<p|-> error=<NAME|->`), then requests sorted by id
// (`c<i> sent id=<id> tag=<tag>`).  `< order <c> <tag>...` (tags of a callmt in id order) is an
// environment line.  `abort` = an assertion of the library failed (the block shows only that).
// `hang` = a thread can never proceed (the block shows only that; the run ends): pthread_mutex_lock is interposed
// at link level and reports a thread that locks a non-recursive mutex it already holds - what the real call does
// is block forever; this is decided from the lock state, not from a clock.  A SIGALRM watchdog (re-armed per
// operation, far above any operation's duration) turns any other standstill into the same line.
#include "common.h"
#include "loopstep.h"

#include "muduo/base/Logging.h"
#include "muduo/net/EventLoop.h"
#include "muduo/net/InetAddress.h"
#include "muduo/net/TcpConnection.h"
#include "muduo/net/protorpc/RpcChannel.h"
#include "muduo/net/protorpc/RpcServer.h"
#include "muduo/net/protorpc/rpc.pb.h"
#include "rpc_test.pb.h"

#include <google/protobuf/stubs/logging.h>
#include <algorithm>
#include <atomic>
#include <new>
#include <functional>
#include <map>
#include <memory>
#include <thread>
#include <dlfcn.h>
#include <pthread.h>
#include <signal.h>
#include <sys/socket.h>
#include <unistd.h>
#include <zlib.h>

using namespace muduo;
using namespace muduo::net;
using namespace vh;

struct Chan;
static std::vector<Chan*> g_chans;
static EventLoop* g_loop;
static bool g_aborting = false;

struct Chan {
  int idx;
  bool server;
  int fds[2];
  TcpConnectionPtr conn;
  RpcChannelPtr channel;          // client: owned here; server: the connection's context
  std::unique_ptr<veriftest::EchoService::Stub> stub;
  int nextTag;
  std::string inbuf;               // bytes the peer has read, not yet decoded
  std::vector<std::string> cb, replies;
  std::vector<std::pair<unsigned long long, std::string> > sents;   // (id, line)
  std::vector<std::pair<unsigned long long, int> > sentIds;          // (id, tag) of this block
  Chan() : idx(0), server(false), nextTag(0) { fds[0] = fds[1] = -1; }
};

static std::string pfx(int c) { char b[16]; snprintf(b, sizeof b, "c%d ", c); return b; }
static std::vector<std::string> g_env, g_misc;

static void flushStep() {
  if (!g_aborting) {
    for (size_t i = 0; i < g_env.size(); ++i) puts(g_env[i].c_str());
    for (size_t i = 0; i < g_misc.size(); ++i) puts(g_misc[i].c_str());
    for (size_t c = 0; c < g_chans.size(); ++c) {
      Chan& ch = *g_chans[c];
      for (size_t i = 0; i < ch.cb.size(); ++i) puts(ch.cb[i].c_str());
      for (size_t i = 0; i < ch.replies.size(); ++i) puts(ch.replies[i].c_str());
      std::stable_sort(ch.sents.begin(), ch.sents.end());
      for (size_t i = 0; i < ch.sents.size(); ++i) puts(ch.sents[i].second.c_str());
    }
  }
  g_env.clear(); g_misc.clear();
  for (size_t c = 0; c < g_chans.size(); ++c) { g_chans[c]->cb.clear(); g_chans[c]->replies.clear(); g_chans[c]->sents.clear(); g_chans[c]->sentIds.clear(); }
  puts("--");
  fflush(stdout);
}

extern "C" void __assert_fail(const char* assertion, const char* file, unsigned int line, const char* function) __THROW {
  (void)file; (void)line; (void)function;
  g_aborting = true;
  printf("abort\n# assertion: %s\n--\n", assertion);
  fflush(stdout);
  _exit(0);
}

// ---- a thread that can never proceed is an observable result, not a lost process
static void reportHang(const char* why) {
  // async-signal-safe: the block of the current operation shows only this (everything before it was flushed)
  g_aborting = true;
  char b[256];
  int n = snprintf(b, sizeof b, "hang\n# %s\n--\n", why);
  ssize_t w = ::write(1, b, static_cast<size_t>(n)); (void)w;
  _exit(0);
}
static void onAlarm(int) { reportHang("watchdog: the current operation did not finish"); }
static const unsigned kWatchdogSeconds = 60;

// link-level interposition of the mutex entry points (the sanitizers' interceptors stay in the chain): every thread
// keeps the set of normal (non-recursive, non-error-checking) mutexes it holds; locking one of them again is the
// self-deadlock that the real pthread_mutex_lock answers by never returning
typedef int (*MtxFn)(pthread_mutex_t*);
static MtxFn realMtx(const char* interceptor, const char* name) {
  void* p = dlsym(RTLD_DEFAULT, interceptor);
  if (!p) p = dlsym(RTLD_NEXT, name);
  if (!p) _exit(3);
  return reinterpret_cast<MtxFn>(p);
}
static MtxFn g_realLock, g_realUnlock;
static __thread pthread_mutex_t* t_held[64];
static __thread int t_nheld;
extern "C" int pthread_mutex_lock(pthread_mutex_t* m) {
  if (!g_realLock) g_realLock = realMtx("__interceptor_pthread_mutex_lock", "pthread_mutex_lock");
  if ((m->__data.__kind & 127) == PTHREAD_MUTEX_TIMED_NP)
    for (int i = 0; i < t_nheld; ++i)
      if (t_held[i] == m) reportHang("self-deadlock: a thread locks a non-recursive mutex it already holds");
  int r = g_realLock(m);
  if (r == 0 && t_nheld < 64) t_held[t_nheld++] = m;
  return r;
}
extern "C" int pthread_mutex_unlock(pthread_mutex_t* m) {
  if (!g_realUnlock) g_realUnlock = realMtx("__interceptor_pthread_mutex_unlock", "pthread_mutex_unlock");
  for (int i = t_nheld - 1; i >= 0; --i)
    if (t_held[i] == m) { t_held[i] = t_held[--t_nheld]; break; }
  return g_realUnlock(m);
}

// ---- objects handed to CallMethod: destruction and use are observable, memory is never reused
struct Tracked { bool respDead, doneDead; Tracked() : respDead(false), doneDead(false) {} };
static std::map<std::pair<int, int>, Tracked> g_tracked;

// response objects are the generated (final) veriftest::EchoResponse; their deallocation is observed
// through the replaced global operator delete below: a registered object is never really freed
struct Reg { std::atomic<void*> p; int c, tag; };
static Reg g_reg[1 << 16];
static std::atomic<int> g_nreg(0);
typedef veriftest::EchoResponse TrackedResponse;
static TrackedResponse* newResponse(int c, int tag) {
  TrackedResponse* r = new TrackedResponse;
  int i = g_nreg.fetch_add(1);
  if (i >= (1 << 16)) _exit(4);
  g_reg[i].c = c; g_reg[i].tag = tag; g_reg[i].p.store(r, std::memory_order_release);
  return r;
}
static bool noteDelete(void* p) {
  int n = g_nreg.load();
  for (int i = 0; i < n && i < (1 << 16); ++i) {
    if (g_reg[i].p.load(std::memory_order_acquire) == p) {
      Tracked& t = g_tracked[std::make_pair(g_reg[i].c, g_reg[i].tag)];
      char b[64]; snprintf(b, sizeof b, "%s resp %d", t.respDead ? "doublefree" : "free", g_reg[i].tag);
      g_chans[static_cast<size_t>(g_reg[i].c)]->cb.push_back(pfx(g_reg[i].c) + b);
      t.respDead = true;
      return true;
    }
  }
  return false;
}
void* operator new(size_t n) { void* p = malloc(n ? n : 1); if (!p) throw std::bad_alloc(); return p; }
void* operator new[](size_t n) { void* p = malloc(n ? n : 1); if (!p) throw std::bad_alloc(); return p; }
void operator delete(void* p) noexcept { if (p && g_nreg.load() > 0 && noteDelete(p)) return; free(p); }
void operator delete[](void* p) noexcept { free(p); }
// the sized and nothrow variants are replaced too (the aligned ones are left alone as a consistent pair): with a
// sanitizer runtime a variant left to the runtime would pair the runtime's allocator with the malloc/free used
// above (libprotobuf calls the sized delete: alloc-dealloc-mismatch in its static initialisers, ASan aborts at start-up)
void operator delete(void* p, size_t) noexcept { operator delete(p); }
void operator delete[](void* p, size_t) noexcept { operator delete[](p); }
void* operator new(size_t n, const std::nothrow_t&) noexcept { return malloc(n ? n : 1); }
void* operator new[](size_t n, const std::nothrow_t&) noexcept { return malloc(n ? n : 1); }
void operator delete(void* p, const std::nothrow_t&) noexcept { operator delete(p); }
void operator delete[](void* p, const std::nothrow_t&) noexcept { operator delete[](p); }

static void oneCall(Chan* ch, int tag, int depth);

class TagClosure : public google::protobuf::Closure {
 public:
  TagClosure(int c, int tag, TrackedResponse* r, int depth) : c_(c), tag_(tag), depth_(depth), resp_(r) {}
  ~TagClosure() override {
    Tracked& t = g_tracked[std::make_pair(c_, tag_)];
    char b[64]; snprintf(b, sizeof b, "%s done %d", t.doneDead ? "doublefree" : "free", tag_);
    g_chans[static_cast<size_t>(c_)]->cb.push_back(pfx(c_) + b);
    t.doneDead = true;
  }
  static void operator delete(void*) {}
  void Run() override {
    Tracked& t = g_tracked[std::make_pair(c_, tag_)];
    char b[96];
    if (t.doneDead) { snprintf(b, sizeof b, "uaf done %d", tag_); g_chans[static_cast<size_t>(c_)]->cb.push_back(pfx(c_) + b); }
    if (t.respDead) { snprintf(b, sizeof b, "uaf resp %d", tag_); g_chans[static_cast<size_t>(c_)]->cb.push_back(pfx(c_) + b); }
    if (!t.respDead && resp_->has_payload()) snprintf(b, sizeof b, "done %d view=%llu", tag_, static_cast<unsigned long long>(resp_->payload()));
    else snprintf(b, sizeof b, "done %d view=-", tag_);
    g_chans[static_cast<size_t>(c_)]->cb.push_back(pfx(c_) + b);
    if (depth_ > 0 && !t.doneDead) {
      // the completion closure calls back into its own channel (chained RPC): a new CallMethod from inside Run()
      Chan* ch = g_chans[static_cast<size_t>(c_)];
      int next = ch->nextTag++;
      oneCall(ch, next, depth_ - 1);
      snprintf(b, sizeof b, "chained %d by %d", next, tag_);
      ch->cb.push_back(pfx(c_) + b);
    }
    // (protobuf's NewCallback closures delete themselves here; this one stays so that a second Run is an event)
  }
 private:
  int c_, tag_, depth_;
  TrackedResponse* resp_;
};

// ---- the served test service
struct Kept { google::protobuf::Closure* done; veriftest::EchoResponse* resp; unsigned long long p; };
static std::vector<Kept> g_kept;

class EchoImpl : public veriftest::EchoService {
 public:
  void Echo(google::protobuf::RpcController*, const veriftest::EchoRequest* req, veriftest::EchoResponse* resp,
            google::protobuf::Closure* done) override {
    note(req->payload());
    resp->set_payload(req->payload());
    done->Run();
  }
  void Defer(google::protobuf::RpcController*, const veriftest::EchoRequest* req, veriftest::EchoResponse* resp,
             google::protobuf::Closure* done) override {
    note(req->payload());
    Kept k; k.done = done; k.resp = resp; k.p = req->payload();
    g_kept.push_back(k);
  }
 private:
  void note(unsigned long long p) {
    char b[64]; snprintf(b, sizeof b, "dispatch p=%llu", p);
    // which channel: the request payloads of one case are unique, the driver knows where it wrote p
    std::map<unsigned long long, int>::iterator it = where_.find(p);
    int c = it == where_.end() ? 0 : it->second;
    g_chans[static_cast<size_t>(c)]->cb.push_back(pfx(c) + b);
  }
 public:
  std::map<unsigned long long, int> where_;
};
static EchoImpl* g_service;
static RpcServer* g_server;

// ---- wire format, written independently of the library
static std::string frame(const RpcMessage& m) {
  std::string body = "RPC0";
  std::string pl;
  m.SerializePartialToString(&pl);
  body += pl;
  uint32_t ck = static_cast<uint32_t>(adler32(1, reinterpret_cast<const Bytef*>(body.data()), static_cast<uInt>(body.size())));
  uint32_t len = static_cast<uint32_t>(body.size() + 4);
  std::string out;
  for (int s = 24; s >= 0; s -= 8) out.push_back(static_cast<char>((len >> s) & 255));
  out += body;
  for (int s = 24; s >= 0; s -= 8) out.push_back(static_cast<char>((ck >> s) & 255));
  return out;
}

static void peerWrite(Chan& ch, const std::string& d) {
  size_t off = 0;
  while (off < d.size()) {
    ssize_t k = ::write(ch.fds[1], d.data() + off, d.size() - off);
    if (k <= 0) break;
    off += static_cast<size_t>(k);
  }
}

static const char* errName(int e) {
  const google::protobuf::EnumValueDescriptor* v = ErrorCode_descriptor()->FindValueByNumber(e);
  return v ? v->name().c_str() : "?";
}

static void drainPeer(Chan& ch) {
  char buf[65536];
  for (;;) {
    ssize_t n = ::read(ch.fds[1], buf, sizeof buf);
    if (n > 0) ch.inbuf.append(buf, static_cast<size_t>(n)); else break;
  }
  while (ch.inbuf.size() >= 4) {
    uint32_t len = 0;
    for (int i = 0; i < 4; ++i) len = (len << 8) | static_cast<unsigned char>(ch.inbuf[static_cast<size_t>(i)]);
    if (ch.inbuf.size() < 4 + static_cast<size_t>(len)) break;
    std::string body = ch.inbuf.substr(4, len);
    ch.inbuf.erase(0, 4 + static_cast<size_t>(len));
    char line[192];
    if (len < 8 || body.compare(0, 4, "RPC0") != 0) { ch.replies.push_back(pfx(ch.idx) + "wire badframe"); continue; }
    uint32_t ck = 0;
    for (size_t i = body.size() - 4; i < body.size(); ++i) ck = (ck << 8) | static_cast<unsigned char>(body[i]);
    if (ck != static_cast<uint32_t>(adler32(1, reinterpret_cast<const Bytef*>(body.data()), static_cast<uInt>(body.size() - 4)))) {
      ch.replies.push_back(pfx(ch.idx) + "wire badchecksum"); continue;
    }
    RpcMessage m;
    if (!m.ParsePartialFromArray(body.data() + 4, static_cast<int>(body.size() - 8)) || !m.has_type()) {
      ch.replies.push_back(pfx(ch.idx) + "wire unparsable"); continue;
    }
    unsigned long long id = m.has_id() ? m.id() : 0;
    if (m.type() == REQUEST) {
      veriftest::EchoRequest rq;
      long long tag = -1;
      if (m.has_request() && rq.ParseFromString(m.request())) tag = static_cast<long long>(rq.payload());
      snprintf(line, sizeof line, "sent id=%llu%s tag=%lld", id, m.has_id() ? "" : "(unset)", tag);
      if (m.service() != "veriftest.EchoService" || m.method() != "Echo") strncat(line, " wrong-target", sizeof line - strlen(line) - 1);
      ch.sents.push_back(std::make_pair(id, pfx(ch.idx) + line));
      ch.sentIds.push_back(std::make_pair(id, static_cast<int>(tag)));
    } else if (m.type() == RESPONSE) {
      std::string pl = "-";
      if (m.has_response()) {
        veriftest::EchoResponse rs;
        if (rs.ParseFromString(m.response()) && rs.has_payload()) { char b[32]; snprintf(b, sizeof b, "%llu", static_cast<unsigned long long>(rs.payload())); pl = b; }
        else pl = "?";
      }
      snprintf(line, sizeof line, "reply id=%llu%s payload=%s error=%s", id, m.has_id() ? "" : "(unset)", pl.c_str(),
               m.has_error() ? errName(m.error()) : "-");
      ch.replies.push_back(pfx(ch.idx) + line);
    } else {
      snprintf(line, sizeof line, "wire type=%d id=%llu", static_cast<int>(m.type()), id);
      ch.replies.push_back(pfx(ch.idx) + line);
    }
  }
}
static void drainAll() { for (size_t c = 0; c < g_chans.size(); ++c) drainPeer(*g_chans[c]); }

static void dropLog(const char*, int) {}
static void onCloseNoop(const TcpConnectionPtr&) {}

static void clientOnConnection(Chan* ch, const TcpConnectionPtr& conn) {
  // what examples/protobuf/rpc/client.cc does
  if (conn->connected()) ch->channel->setConnection(conn);
}

static bool makeChan(size_t c, const std::string& kind) {
  if (c != g_chans.size() || (kind != "client" && kind != "server")) return false;
  Chan* ch = new Chan;
  ch->idx = static_cast<int>(c);
  ch->server = kind == "server";
  if (socketpair(AF_UNIX, SOCK_STREAM | SOCK_NONBLOCK | SOCK_CLOEXEC, 0, ch->fds) != 0) { perror("socketpair"); _exit(2); }
  InetAddress a(static_cast<uint16_t>(1000 + c)), b(static_cast<uint16_t>(2000 + c));
  char name[32]; snprintf(name, sizeof name, "conn%zu", c);
  ch->conn.reset(new TcpConnection(g_loop, name, ch->fds[0], a, b));
  ch->conn->setCloseCallback(onCloseNoop);
  g_chans.push_back(ch);
  if (ch->server) {
    // TcpServer::newConnection installs the server's connection callback; RpcServer's is onConnection
    ch->conn->setConnectionCallback(std::bind(&RpcServer::onConnection, g_server, _1));
    ch->conn->setMessageCallback(defaultMessageCallback);
    ch->conn->connectEstablished();
  } else {
    ch->channel.reset(new RpcChannel);
    ch->conn->setConnectionCallback(std::bind(clientOnConnection, ch, _1));
    ch->conn->setMessageCallback(std::bind(&RpcChannel::onMessage, get_pointer(ch->channel), _1, _2, _3));
    ch->conn->connectEstablished();
    ch->stub.reset(new veriftest::EchoService::Stub(get_pointer(ch->channel)));
  }
  return true;
}

// `reconn <c>`: the client channel c gets a NEW connection (a fresh socketpair-backed TcpConnection whose connection
// callback calls channel->setConnection(conn), as examples/protobuf/rpc/client.cc does after a reconnect of a TcpClient
// with retry on).  The channel object - its id source and its table of outstanding calls - lives on; the old connection
// is kept open but cut off from the channel (unread bytes of the peer are lost).  Calls made afterwards travel on the new connection and must still get fresh ids.
static std::vector<TcpConnectionPtr> g_oldConns;
static bool reconnChan(Chan* ch) {
  if (ch->server || !ch->channel) return false;
  int fds[2];
  if (socketpair(AF_UNIX, SOCK_STREAM | SOCK_NONBLOCK | SOCK_CLOEXEC, 0, fds) != 0) { perror("socketpair"); _exit(2); }
  InetAddress a(static_cast<uint16_t>(3000 + ch->idx)), b(static_cast<uint16_t>(4000 + ch->idx));
  char name[48]; snprintf(name, sizeof name, "conn%d-r%zu", ch->idx, g_oldConns.size());
  TcpConnectionPtr conn(new TcpConnection(g_loop, name, fds[0], a, b));
  conn->setCloseCallback(onCloseNoop);
  conn->setConnectionCallback(std::bind(clientOnConnection, ch, _1));
  conn->setMessageCallback(std::bind(&RpcChannel::onMessage, get_pointer(ch->channel), _1, _2, _3));
  // the old connection is gone as far as the channel is concerned: what the peer wrote to it and the loop has not read
  // yet is lost (its bytes are discarded by the default message callback; RpcChannel::onMessage asserts that a message
  // comes from the channel's CURRENT connection)
  ch->conn->setMessageCallback(defaultMessageCallback);
  g_oldConns.push_back(ch->conn);
  ch->conn = conn;
  ch->fds[0] = fds[0]; ch->fds[1] = fds[1];      // the peer now reads and writes the new pair (the old one stays open)
  ch->inbuf.clear();
  conn->connectEstablished();
  return true;
}

static RpcChannel* channelOf(Chan& ch) {
  if (!ch.server) return get_pointer(ch.channel);
  if (ch.conn->getContext().empty()) return NULL;
  return get_pointer(*boost::any_cast<RpcChannelPtr>(ch.conn->getMutableContext()));
}

static void oneCall(Chan* ch, int tag, int depth) {
  RpcChannel* rc = channelOf(*ch);
  veriftest::EchoService::Stub stub(rc);
  veriftest::EchoRequest req;
  req.set_payload(static_cast<uint64_t>(tag));
  TrackedResponse* resp = newResponse(ch->idx, tag);
  stub.Echo(NULL, &req, resp, new TagClosure(ch->idx, tag, resp, depth));
}

static bool parsePayloadSpec(const std::string& s, bool response, RpcMessage* m) {
  // ok:<p> | garbage | err:<e> | both:<p>:<e> | bare
  std::vector<std::string> parts;
  size_t st = 0;
  for (;;) { size_t p = s.find(':', st); parts.push_back(s.substr(st, p == std::string::npos ? p : p - st)); if (p == std::string::npos) break; st = p + 1; }
  std::string ser;
  if (parts[0] == "ok" || parts[0] == "both") {
    if (parts.size() < 2) return false;
    unsigned long long p = strtoull(parts[1].c_str(), NULL, 10);
    if (response) { veriftest::EchoResponse r; r.set_payload(p); r.SerializeToString(&ser); m->set_response(ser); }
    else { veriftest::EchoRequest r; r.set_payload(p); r.SerializeToString(&ser); m->set_request(ser); }
    if (parts[0] == "both") { if (parts.size() < 3 || !response) return false; m->set_error(static_cast<ErrorCode>(atoi(parts[2].c_str()))); }
    return true;
  }
  if (parts[0] == "garbage") { if (response) m->set_response("\x0f"); else m->set_request("\x0f"); return true; }
  if (parts[0] == "err" && response && parts.size() == 2) { m->set_error(static_cast<ErrorCode>(atoi(parts[1].c_str()))); return true; }
  if (parts[0] == "bare" && response) return true;
  return false;
}

static bool g_pendingIter = false;
static int g_mtChan = -1, g_mtFirst = 0, g_mtCount = 0;

static void endIter() {
  drainAll();
  if (g_mtChan >= 0) {
    Chan& ch = *g_chans[static_cast<size_t>(g_mtChan)];
    std::vector<std::pair<unsigned long long, int> > v = ch.sentIds;
    std::stable_sort(v.begin(), v.end());
    std::string line = "< order " + std::to_string(g_mtChan);
    // only the threads' own calls: a closure run in this iteration may have chained further calls (later ids)
    for (size_t i = 0; i < v.size(); ++i)
      if (v[i].second >= g_mtFirst && v[i].second < g_mtFirst + g_mtCount) line += " " + std::to_string(v[i].second);
    g_env.push_back(line);
    g_mtChan = -1;
  }
  flushStep();
  g_pendingIter = false;
}

static bool interp() {
  if (g_pendingIter) endIter();
  std::string line;
  while (std::getline(std::cin, line)) {
    std::vector<std::string> w = words(line);
    if (w.empty()) continue;
    const std::string& op = w[0];
    bool ok = false;
    alarm(kWatchdogSeconds);
    if (op == "iter" && w.size() == 1) { g_pendingIter = true; return true; }
    size_t c = w.size() > 1 ? static_cast<size_t>(atoi(w[1].c_str())) : 0;
    Chan* ch = (op != "chan" && c < g_chans.size()) ? g_chans[c] : NULL;
    RpcChannel* rc = ch ? channelOf(*ch) : NULL;
    if (op == "flavour") ok = true;   // for the model only: which build flavour this binary is
    else if (op == "chan" && w.size() == 3) ok = makeChan(c, w[2]);
    else if (op == "reconn" && w.size() == 2 && ch) { drainPeer(*ch); ok = reconnChan(ch); }
    else if (op == "call" && (w.size() == 2 || w.size() == 3) && rc) {
      int d = w.size() == 3 ? atoi(w[2].c_str()) : 0;
      if (d >= 0 && d <= 16) { int tag = ch->nextTag++; oneCall(ch, tag, d); ok = true; }
    }
    else if (op == "callmt" && (w.size() == 3 || w.size() == 4) && rc) {
      int n = atoi(w[2].c_str());
      int d = w.size() == 4 ? atoi(w[3].c_str()) : 0;
      if (n >= 1 && n <= 8 && d >= 0 && d <= 16) {
        std::vector<std::thread> ts;
        for (int i = 0; i < n; ++i) ts.push_back(std::thread(oneCall, ch, ch->nextTag + i, d));
        for (size_t i = 0; i < ts.size(); ++i) ts[i].join();
        g_mtFirst = ch->nextTag; g_mtCount = n;
        ch->nextTag += n;
        g_mtChan = static_cast<int>(c);
        g_pendingIter = true;
        return true;
      }
    } else if (op == "idstress" && w.size() == 4 && rc && !ch->server) {
      // oracle only (not part of the model driver's protocol): n threads issue k calls each, concurrently, on ONE channel;
      // nothing answers them.  The `iter` lines that follow carry the frames to the peer; every id on the wire must be
      // distinct ("call ids on a channel are unique even when calls are issued from several threads").
      int n = atoi(w[2].c_str()), k = atoi(w[3].c_str());
      if (n >= 1 && n <= 16 && k >= 1 && k <= 100000 && g_nreg.load() + n * k <= 60000) {   // (the response registry holds 65536)
        std::vector<std::thread> ts;
        int first = ch->nextTag;
        for (int i = 0; i < n; ++i) ts.push_back(std::thread([ch, first, i, k] { for (int j = 0; j < k; ++j) oneCall(ch, first + i * k + j, 0); }));
        for (size_t i = 0; i < ts.size(); ++i) ts[i].join();
        ch->nextTag += n * k;
        ok = true;
      }
    } else if (op == "peerResponse" && w.size() == 4 && ch) {
      RpcMessage m; m.set_type(RESPONSE); m.set_id(strtoull(w[2].c_str(), NULL, 10));
      if (parsePayloadSpec(w[3], true, &m)) { peerWrite(*ch, frame(m)); ok = true; }
    } else if (op == "peerRequest" && w.size() == 6 && ch) {
      RpcMessage m; m.set_type(REQUEST); m.set_id(strtoull(w[2].c_str(), NULL, 10));
      m.set_service(w[3] == "echo" ? "veriftest.EchoService" : "veriftest.NoSuchService");
      m.set_method(w[4] == "nometh" ? "NoSuchMethod" : w[4]);
      if ((w[3] == "echo" || w[3] == "nosvc") && (w[4] == "Echo" || w[4] == "Defer" || w[4] == "nometh") && parsePayloadSpec(w[5], false, &m)) {
        if (w[5].compare(0, 3, "ok:") == 0) g_service->where_[strtoull(w[5].c_str() + 3, NULL, 10)] = static_cast<int>(c);
        peerWrite(*ch, frame(m)); ok = true;
      }
    } else if (op == "peerError" && w.size() == 3 && ch) {
      RpcMessage m; m.set_type(ERROR); m.set_id(strtoull(w[2].c_str(), NULL, 10));
      peerWrite(*ch, frame(m)); ok = true;
    } else if (op == "fireDone" && w.size() == 3 && ch) {
      unsigned long long p = strtoull(w[2].c_str(), NULL, 10);
      for (size_t i = 0; i < g_kept.size(); ++i) {
        std::map<unsigned long long, int>::iterator it = g_service->where_.find(p);
        if (g_kept[i].p == p && it != g_service->where_.end() && it->second == static_cast<int>(c)) {
          Kept k = g_kept[i];
          g_kept.erase(g_kept.begin() + static_cast<long>(i));
          k.resp->set_payload(k.p);
          k.done->Run();
          ok = true;
          break;
        }
      }
    } else if (op == "destroy" && w.size() == 2 && ch && !ch->server && ch->channel) {
      ch->stub.reset();
      // the connection's message callback holds a raw pointer: park it first (as a user must)
      ch->conn->setMessageCallback(defaultMessageCallback);
      size_t before = ch->cb.size();
      ch->channel.reset();
      std::sort(ch->cb.begin() + static_cast<long>(before), ch->cb.end());   // map order -> canonical order
      ok = true;
    }
    if (!ok) g_misc.push_back("bad-op");
    drainAll();
    flushStep();
  }
  fflush(stdout);
  _exit(0);
}

int main() {
  signal(SIGALRM, onAlarm);
  alarm(kWatchdogSeconds);
  Logger::setLogLevel(Logger::FATAL);
  Logger::setOutput(dropLog);
  google::protobuf::SetLogHandler(NULL);
  EventLoop loop;
  g_loop = &loop;
  EchoImpl service;
  g_service = &service;
  RpcServer server(&loop, InetAddress("127.0.0.1", 0));   // bound, never listening: connections are handed in directly
  server.registerService(&service);
  g_server = &server;
  vs::run(&loop, interp);
  fflush(stdout);
  _exit(0);
}
