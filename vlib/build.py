"""Build /repo's current working tree (hooks on) and the C++ harness drivers.

Everything is rebuilt from the sources as they are now; `make` + `-MMD` only skips a
translation unit when neither it nor any header it includes changed.
"""
import glob
import os

from .common import BUILD, GUARD, HARNESS, NCPU, REPO, flock, log, sh, write_if_changed

FLAVOURS = {
    # asserts on (what the quick tier runs)
    "dbg": "-O1 -g -D%s" % GUARD,
    # the way the baseline is built (asserts compiled out)
    "ndebug": "-O1 -g -DNDEBUG -D%s" % GUARD,
    "asan": "-O1 -g -fsanitize=address,undefined -fno-sanitize-recover=all -fno-omit-frame-pointer -D%s" % GUARD,
    "asan-ndebug": "-O1 -g -DNDEBUG -fsanitize=address,undefined -fno-sanitize-recover=all -fno-omit-frame-pointer -D%s" % GUARD,
    "tsan": "-O1 -g -fsanitize=thread -D%s" % GUARD,
    # guard off: what a user of the library gets
    "plain": "-O1 -g",
}

CXX = "g++"
STD = "-std=c++11 -pthread -Wall -Wextra -Wno-unused-parameter -DCHECK_PTHREAD_RETURN_VALUE -D_FILE_OFFSET_BITS=64"

BASE_SRCS = ["AsyncLogging", "Condition", "CountDownLatch", "CurrentThread", "Date", "Exception", "FileUtil",
             "LogFile", "Logging", "LogStream", "ProcessInfo", "Timestamp", "Thread", "ThreadPool", "TimeZone"]
NET_SRCS = ["Acceptor", "Buffer", "Channel", "Connector", "EventLoop", "EventLoopThread", "EventLoopThreadPool",
            "InetAddress", "Poller", "poller/DefaultPoller", "poller/EPollPoller", "poller/PollPoller", "Socket",
            "SocketsOps", "TcpClient", "TcpConnection", "TcpServer", "Timer", "TimerQueue"]
HTTP_SRCS = ["http/HttpContext", "http/HttpResponse", "http/HttpServer"]
PB_SRCS = ["protobuf/ProtobufCodecLite", "protorpc/RpcChannel", "protorpc/RpcCodec", "protorpc/RpcServer"]


class BuildError(Exception):
    def __init__(self, what, output):
        Exception.__init__(self, what)
        self.what, self.output = what, output


def _protoc(gen):
    """generate rpc.pb.{h,cc} etc. from the current .proto files"""
    os.makedirs(gen, exist_ok=True)
    outs = []
    for proto, sub in (("muduo/net/protorpc/rpc.proto", "muduo/net/protorpc"),
                       ("muduo/net/protorpc/rpcservice.proto", "muduo/net/protorpc")):
        src = os.path.join(REPO, proto)
        stamp = os.path.join(gen, proto.replace("/", "_") + ".stamp")
        want = open(src).read()
        if not os.path.exists(stamp) or open(stamp).read() != want:
            # the way muduo's CMakeLists does it: the proto's own directory is the import root
            # (rpcservice.proto says `import "rpc.proto"`), output next to where the sources expect the headers
            os.makedirs(os.path.join(gen, sub), exist_ok=True)
            rc, o, e = sh(["protoc", "--cpp_out=" + os.path.join(gen, sub), "-I" + os.path.dirname(src), src])
            if rc != 0:
                raise BuildError("protoc " + proto, o + e)
            with open(stamp, "w") as f:
                f.write(want)
        outs.append(os.path.join(gen, proto.replace(".proto", ".pb.cc")))
    return outs


def muduo_lib(flavour="dbg", with_pb=False):
    """compile muduo base+net(+http)(+protobuf/protorpc) from /repo into a static library"""
    flags = FLAVOURS[flavour]
    out = os.path.join(BUILD, "muduo-" + flavour)
    os.makedirs(out, exist_ok=True)
    with flock("build-" + flavour):
        srcs = [("muduo/base/%s.cc" % s) for s in BASE_SRCS] + [("muduo/net/%s.cc" % s) for s in NET_SRCS + HTTP_SRCS]
        extra_inc = ""
        gen_srcs = []
        if with_pb:
            gen = os.path.join(out, "gen")
            gen_srcs = _protoc(gen)
            srcs += [("muduo/net/%s.cc" % s) for s in PB_SRCS]
            extra_inc = " -I" + gen
        lib = os.path.join(out, "libmuduo_pb.a" if with_pb else "libmuduo.a")
        rules, objs = [], []
        for s in srcs:
            o = os.path.join(out, s.replace("/", "_").replace(".cc", ".o"))
            objs.append(o)
            rules.append("%s: %s\n\t@$(CXX) $(CXXFLAGS) -MMD -MP -c $< -o $@\n" % (o, os.path.join(REPO, s)))
        for g in gen_srcs:
            o = os.path.join(out, "gen_" + os.path.basename(g).replace(".cc", ".o"))
            objs.append(o)
            rules.append("%s: %s\n\t@$(CXX) $(CXXFLAGS) -Wno-shadow -MMD -MP -c $< -o $@\n" % (o, g))
        mk = "CXX=%s\nCXXFLAGS=%s %s -I%s%s\n\n%s: %s\n\t@rm -f $@ && ar rcs $@ $^\n\n%s\n-include %s\n" % (
            CXX, STD, flags, REPO, extra_inc, lib, " ".join(objs), "\n".join(rules),
            " ".join(o.replace(".o", ".d") for o in objs))
        mkpath = os.path.join(out, "Makefile.pb" if with_pb else "Makefile")
        write_if_changed(mkpath, mk)
        rc, o, e = sh(["make", "-f", mkpath, "-j%d" % NCPU, lib], cwd=out)
        if rc != 0:
            raise BuildError("muduo library (%s) does not build from /repo" % flavour, (o + e)[-6000:])
        return lib, extra_inc


def harness(name, flavour="dbg", with_pb=False, extra_srcs=(), libs="", extra_protos=(), cxxflags=""):
    """build harness/<name>.cc against the freshly built library; returns the binary path.
    `extra_protos`: .proto files under harness/ compiled with protoc (C++ output in
    .build/harness-<flavour>/gen-<name>, added to the sources and the include path);
    `cxxflags`: extra compiler flags for this driver only."""
    lib, extra_inc = muduo_lib(flavour, with_pb)
    out = os.path.join(BUILD, "harness-" + flavour)
    os.makedirs(out, exist_ok=True)
    exe = os.path.join(out, name)
    srcs = [os.path.join(HARNESS, name + ".cc")] + [os.path.join(HARNESS, s) for s in extra_srcs]
    if extra_protos:
        pgen = os.path.join(out, "gen-" + name)
        os.makedirs(pgen, exist_ok=True)
        with flock("harness-%s-%s" % (flavour, name)):
            for proto in extra_protos:
                src = os.path.join(HARNESS, proto)
                stamp = os.path.join(pgen, proto.replace("/", "_") + ".stamp")
                want = open(src).read()
                if not os.path.exists(stamp) or open(stamp).read() != want:
                    rc, o, e = sh(["protoc", "--cpp_out=" + pgen, "-I" + HARNESS, src])
                    if rc != 0:
                        raise BuildError("protoc " + proto, o + e)
                    with open(stamp, "w") as f:
                        f.write(want)
                srcs.append(os.path.join(pgen, proto.replace(".proto", ".pb.cc")))
        extra_inc += " -I" + pgen
    if cxxflags:
        extra_inc += " " + cxxflags
    with flock("harness-%s-%s" % (flavour, name)):
        deps = " ".join(srcs + glob.glob(os.path.join(HARNESS, "*.h")) + glob.glob(os.path.join(HARNESS, "sched/*.h")) + [lib])
        mk = "%s: %s\n\t@%s %s %s -I%s -I%s%s %s %s %s -lz -lrt -o $@\n" % (
            exe, deps, CXX, STD, FLAVOURS[flavour], REPO, HARNESS, extra_inc, " ".join(srcs), lib,
            ("-lprotobuf " if with_pb else "") + libs)
        mkpath = os.path.join(out, name + ".mk")
        write_if_changed(mkpath, mk)
        rc, o, e = sh(["make", "-f", mkpath, exe], cwd=out)
        if rc != 0:
            raise BuildError("harness %s (%s) does not build" % (name, flavour), (o + e)[-6000:])
    return exe
