"""Regenerates MANIFEST.json from the property plug-ins that exist (./check --manifest)."""
import importlib
import json
import os

from .common import VERIF

ALL = ["C%02d" % i for i in range(1, 21)]

PENDING_REASON = ("no check registered yet: the Lean model, theorems and correspondence harness for this property are not "
                  "built in the committed tree (DESIGN.md §5 describes the intended proof); it is NOT judged inapplicable")


def manifest():
    checks, na = [], []
    for pid in ALL:
        path = os.path.join(VERIF, "vlib", "props", pid.lower() + ".py")
        if not os.path.exists(path):
            na.append({"property_id": pid, "reason": PENDING_REASON})
            continue
        p = importlib.import_module("vlib.props." + pid.lower()).PROP
        checks.append({
            "property_id": pid,
            "quick_cmd": "./check %s --tier quick" % pid,
            "thorough_cmd": "./check %s --tier thorough" % pid,
            "evidence_file": "evidence/%s.json" % pid,
            "replay_cmd_template": "./check %s --replay {path}" % pid,
            "engine": ",".join(p.drivers),
            "level_claimed": {
                "category": "proof",
                "text": p.level_text,
                "design_ref": "DESIGN.md §5 " + pid,
            },
            "level_note": p.level_note,
            "technique": p.technique,
        })
    hooks_commits = []
    hp = os.path.join(VERIF, "hooks_commits.txt")
    if os.path.exists(hp):
        hooks_commits = [l.split()[0] for l in open(hp) if l.strip() and not l.startswith("#")]
    m = {
        "version": 1,
        "setup_cmd": "./check --setup",
        "hooks": {
            "guard": "MUDUO_VERIF",
            "enable": "vlib/build.py compiles /repo's current sources with -DMUDUO_VERIF (g++ -std=c++11, asserts on; NDEBUG and sanitizer flavours in the thorough tier)",
            "baseline_off_cmd": "./check --baseline-off",
            "source_commits": hooks_commits,
            "add_only": True,
        },
        "engines": [
            {"name": "lean", "path": "lean/", "serves_properties": [c["property_id"] for c in checks],
             "kind_free_text": "Lean 4 library MuduoVerif: Model/ (executable models), Generated/ (re-extracted from /repo on every run), Proofs/, Props/Cxx.lean (property theorems); native drivers drv_<engine>"},
            {"name": "extract", "path": "vlib/extract.py", "serves_properties": [c["property_id"] for c in checks],
             "kind_free_text": "T1: clang-14 JSON AST -> Lean definitions (constants, tables, guards, integer functions)"},
            {"name": "harness", "path": "harness/", "serves_properties": [c["property_id"] for c in checks],
             "kind_free_text": "T2/T3: C++ drivers running the real muduo classes on the same line protocol as the Lean drivers"},
        ],
        "checks": checks,
        "notes": "Technique: machine-checked proof in Lean 4 about executable models tied to /repo by translation (T1) and differential correspondence (T2/T3); see DESIGN.md. Every check re-extracts, re-proves, re-audits axioms and re-runs the correspondence from /repo's working tree.",
        "not_applicable": na,
    }
    with open(os.path.join(VERIF, "MANIFEST.json"), "w") as f:
        json.dump(m, f, indent=1)
        f.write("\n")
    return m
