"""The `pool` engine (part of C05): generator, differential runner and an independent oracle for the loop
selection of muduo::net::EventLoopThreadPool (getNextLoop / getLoopForHash / getAllLoops).

Implementation side: harness/pool_drv.cc (real pool, real threads; a loop is named by the order in which
the ThreadInitCallback saw it).  Model side: lean/Driver/PoolDrv.lean (`drv_pool`).

API used by vlib/props/c05.py:
    run_pool(ctx, flavour, ncases_calls=None)   generated cases; ncases_calls = (number of cases, getNextLoop calls per case)
    run_spin(ctx, flavour, jobs=None)           long runs (`spin <k>`: k getNextLoop calls in-process, digest only) around the
                                                2^31 / 2^32 boundaries of the cursor; implementation + oracle only (the
                                                model driver does not simulate them: theorem C05.pool_round_robin is the
                                                statement for all call counts, the oracle uses its closed form)
    replay_pool(ctx, lines, flavour)            the same treatment for given input lines (corpus / --replay, `engine=pool`)
    corpus_pool(ctx, flavour, prop_id="C05")    replay_pool on every corpus/<prop_id>/pool-*.case
Failures go to ctx.oracle_failures as (case, kind, description) with kind in
    pool-roundrobin | pool-hash | pool-all | pool-start | crash
and model/implementation disagreements the oracle accepts go to ctx.mismatches.
"""
import glob
import os

from .common import CORPUS
from .runner import Case, ddmin

ENGINE = "pool"
MAX_THREADS = 64      # both drivers answer `bad-op` beyond
MAX_BURST = 10000
MAX_SPIN = 1 << 33
U64 = 1 << 64


# ----------------------------------------------------------------------------- oracle

def _num(tok):
    """the protocol's numbers: plain decimal"""
    return int(tok) if tok.isdigit() and tok.isascii() else None


def oracle(lines, blocks):
    """The specification of the selection, evaluated on what the implementation printed (no model involved):
    after `start N` the i-th getNextLoop (0-based) is worker i % N (the base loop when N = 0),
    getLoopForHash(h) is worker h % N (base when N = 0), getAllLoops is w0..w(N-1) (base alone when N = 0),
    and the ThreadInitCallback ran once per worker thread in creation order (once, with the base loop, when N = 0).
    Returns [(kind, description)], first failure first."""
    fails = []
    ops = [l for l in lines if l.strip() and not l.startswith("<")]
    n = None      # size of the pool in force
    calls = 0     # getNextLoop calls since `start`

    def name(i):
        return "base" if n == 0 else "w%d" % (i % n)

    for step, op in enumerate(ops):
        if step >= len(blocks):
            fails.append(("crash", "step %d `%s`: no output" % (step, op)))
            break
        blk = blocks[step]
        bad = [l for l in blk if l.startswith("<<")]
        if bad:
            fails.append(("crash", "step %d `%s`: %s" % (step, op, bad[0])))
            break
        obs = [l for l in blk if not l.startswith("#") and not l.startswith("<")]
        w = op.split()
        kind, exp = None, None
        if w[0] == "start" and len(w) == 2 and _num(w[1]) is not None and _num(w[1]) <= MAX_THREADS:
            n, calls = _num(w[1]), 0
            kind, exp = "pool-start", ["started %d" % n]
            cbs = [l.split()[2:] for l in blk if l.startswith("# cbs")]
            want = ["base"] if n == 0 else ["w%d" % i for i in range(n)]
            if obs == exp and cbs != [want]:
                fails.append(("pool-start", "step %d `%s`: the thread-init callback saw %s, expected %s"
                              % (step, op, " ".join(cbs[0]) if cbs else "nothing", " ".join(want))))
                break
        elif n is None:
            continue   # nothing to say before the first `start` (the drivers answer bad-op)
        elif w == ["next"]:
            kind, exp = "pool-roundrobin", ["loop " + name(calls)]
            calls += 1
        elif w[0] == "next" and len(w) == 2 and _num(w[1]) is not None and _num(w[1]) <= MAX_BURST:
            k = _num(w[1])
            kind, exp = "pool-roundrobin", [" ".join(["loops"] + [name(calls + i) for i in range(k)])]
            calls += k
        elif w[0] == "spin" and len(w) == 2 and _num(w[1]) is not None and _num(w[1]) <= MAX_SPIN:
            # k calls, digest only: closed form of strict round robin — call i (0-based since `start`) is worker i % n
            k = _num(w[1])
            kind = "pool-roundrobin"
            exp = ["spun %d first %s last %s bad 0" % (k, name(calls) if k else "-", name(calls + k - 1) if k else "-")]
            spin_from = calls
            calls += k
        elif w[0] == "hash" and len(w) == 2 and _num(w[1]) is not None and _num(w[1]) < U64:
            kind, exp = "pool-hash", ["loop " + name(_num(w[1]))]
        elif w == ["all"]:
            kind, exp = "pool-all", ["all base" if n == 0 else " ".join(["all"] + ["w%d" % i for i in range(n)])]
        else:
            continue   # not an operation of the protocol
        if obs != exp:
            def cut(ls):
                s = " | ".join(ls)
                return s if len(s) <= 160 else s[:157] + "..."
            where = ""
            if w[0] == "spin":
                t = obs[0].split() if obs else []
                if "firstbad" in t and t.index("firstbad") + 5 < len(t):
                    j = t.index("firstbad")
                    where = " (call #%d since start: got %s, the successor of the previous result is %s; %s break(s) of the rotation in this run)" % (
                        spin_from + int(t[j + 1]), t[j + 3], t[j + 5], t[t.index("bad") + 1])
            elif kind == "pool-roundrobin" and obs and exp and obs[0].split()[:1] == exp[0].split()[:1]:
                a, b = obs[0].split()[1:], exp[0].split()[1:]
                d = next((i for i in range(max(len(a), len(b))) if i >= len(a) or i >= len(b) or a[i] != b[i]), None)
                if d is not None:
                    first = calls - len(b) + d
                    where = " (call #%d since start: got %s, round robin gives %s)" % (
                        first, a[d] if d < len(a) else "nothing", b[d] if d < len(b) else "nothing")
            fails.append((kind, "step %d `%s` with %s loops: implementation answered `%s`, specification `%s`%s"
                          % (step, op, n, cut(obs), cut(exp), where)))
            break
    if not fails and len(blocks) > len(ops):
        extra = blocks[len(ops)]
        if any(l.startswith("<<") for l in extra):
            fails.append(("crash", "after the last step: %s" % extra[-1]))
    return fails


# ----------------------------------------------------------------------------- generator

def pick_hash(rng, n):
    cands = [0, 1, max(n - 1, 0), n, n + 1, (1 << 32) - 1, 1 << 32, 1 << 63, U64 - 1, rng.randrange(U64),
             rng.randrange(U64), rng.randrange(0, 4 * n + 4)]
    return rng.choice(cands)


def gen_case(rng, n, calls):
    """`start n`, `all`, then getNextLoop calls (single and in bursts, `calls` in total) with hashes and
    further `all`s in between"""
    lines = ["start %d" % n, "all"]
    done = 0
    while done < calls:
        r = rng.random()
        if r < 0.40:
            lines.append("next")
            done += 1
        elif r < 0.70:
            k = rng.choice([0, 1, 2, max(n - 1, 0), n, n + 1, 2 * n, 2 * n + 1, 3 * n - 1 if n else 3,
                            rng.randrange(0, 60), rng.randrange(0, 60)])
            k = min(k, calls - done)
            lines.append("next %d" % k)
            done += k
        elif r < 0.95:
            lines.append("hash %d" % pick_hash(rng, n))
        else:
            lines.append("all")
    lines.append("hash %d" % pick_hash(rng, n))
    lines.append("all")
    return lines


# ----------------------------------------------------------------------------- runner

def _segments(ops):
    """split at `start` lines: [(first step, lines)]"""
    segs, cur, first = [], [], 0
    for i, l in enumerate(ops):
        if l.split()[:1] == ["start"] and cur:
            segs.append((first, cur))
            cur, first = [], i
        cur.append(l)
    if cur:
        segs.append((first, cur))
    return segs


def _segment_of(ops, desc):
    import re
    m = re.search(r"step (\d+)", desc or "")
    if not m:
        return ops
    step = int(m.group(1))
    for first, seg in _segments(ops):
        if first <= step < first + len(seg):
            return seg[:step - first + 1]
    return ops


def run_lines(ctx, exe, lines, origin):
    """one case through the implementation, the oracle, the model; reports into ctx. Returns the impl blocks."""
    ops = [l for l in lines if l.strip() and not l.startswith(("#", "<", "engine="))]
    case = Case(ENGINE, ops, origin)
    # `spin` is not an operation of the model driver (it would have to take 2^31.. steps): implementation + oracle only
    has_spin = any(l.split()[:1] == ["spin"] for l in ops)
    impl, _err = ctx.run_impl(exe, case, timeout=600 if has_spin else 300)
    fails = oracle(ops, impl)
    mismatch = None
    if has_spin:
        ctx.count("pool:cases-without-model(spin)")
    elif ctx.model_ok:
        model = ctx.run_model(case, impl, timeout=300)
        mismatch = ctx.compare(case, impl, model)
    for l in ops:
        w = l.split()
        ctx.count("pool:" + (w[0] if w[0] in ("start", "next", "hash", "all", "spin") else "other"))
    for first, seg in _segments(ops):
        blocks = impl[first:first + len(seg)]
        last = ctx.observable(blocks[-1]) if blocks else ["?"]
        ctx.record(Case(ENGINE, seg, origin), blocks, nontrivial=True,
                   sample={"ops": seg[:8], "steps": len(seg), "last_observation": (last or ["?"])[0][:120]})

    if fails and has_spin:
        # every re-run costs seconds to a minute: no delta debugging (run_spin's cases are two lines; it cuts the count
        # down to the first break itself)
        ctx.oracle_failures.append((case, fails[0][0], fails[0][1]))
    elif fails:
        kind, desc = fails[0]

        def still(ls):
            b, _ = ctx.run_impl(exe, Case(ENGINE, ls), timeout=120)
            f = oracle(ls, b)
            return bool(f) and f[0][0] == kind
        seq = _segment_of(ops, desc)
        keep = 1 if seq and seq[0].split()[:1] == ["start"] else 0
        if seq is not ops and not still(seq):
            seq, keep = ops, 0
        small = ddmin(seq, still, keep_prefix=keep) if still(seq) else seq
        c = Case(ENGINE, small, origin)
        b, _ = ctx.run_impl(exe, c, timeout=120)
        f = oracle(small, b)
        ctx.oracle_failures.append((c, kind, f[0][1] if f and f[0][0] == kind else desc))
    elif mismatch:
        def still_mm(ls):
            c = Case(ENGINE, ls)
            b, _ = ctx.run_impl(exe, c, timeout=120)
            return ctx.compare(c, b, ctx.run_model(c, b, timeout=120)) is not None
        seq = _segment_of(ops, mismatch)
        keep = 1 if seq and seq[0].split()[:1] == ["start"] else 0
        if seq is not ops and not still_mm(seq):
            seq, keep = ops, 0
        small = ddmin(seq, still_mm, keep_prefix=keep) if still_mm(seq) else seq
        c = Case(ENGINE, small, origin)
        b, _ = ctx.run_impl(exe, c, timeout=120)
        ctx.mismatches.append((c, ctx.compare(c, b, ctx.run_model(c, b, timeout=120)) or mismatch))
    return impl


def run_pool(ctx, flavour="dbg", ncases_calls=None):
    """Generated cases against harness/pool_drv.cc built in `flavour`.
    ncases_calls: None (defaults by tier) or (number of cases, total getNextLoop calls per case).
    Pool sizes 0..8 come first (each at least once), then random sizes (mostly 0..16, sometimes up to 64)."""
    if ncases_calls is None:
        ncases_calls = (15, 200) if ctx.quick() and not ctx.search_mode else (40, 2000)
    if isinstance(ncases_calls, int):
        ncases_calls = (ncases_calls, 200 if ctx.quick() else 2000)
    ncases, calls = ncases_calls
    exe = ctx.exe("pool_drv", flavour)
    sizes = list(range(9))
    while len(sizes) < max(ncases, 9):
        r = ctx.rng.random()
        sizes.append(ctx.rng.randrange(0, 17) if r < 0.8 else ctx.rng.randrange(17, MAX_THREADS + 1))
    ctx.extra.setdefault("pool_sizes", [])
    for n in sizes:
        if ctx.stop():
            return
        # vary the length: short histories exercise the first wrap, long ones many wraps
        c = calls if ctx.rng.random() < 0.5 else ctx.rng.randrange(1, calls + 1)
        run_lines(ctx, exe, gen_case(ctx.rng, n, c), "generated:%s:N=%d" % (flavour, n))
        if n not in ctx.extra["pool_sizes"]:
            ctx.extra["pool_sizes"].append(n)


def spin_jobs():
    """(pool size, number of calls): the two boundaries of a 32-bit cursor.  N = 7: 2^64 - 2^32 is not a multiple of 7,
    so a cursor that goes INT_MAX -> INT_MIN and is reduced modulo N as a size_t breaks the rotation at call 2^31;
    N = 3 divides 2^32 - 1 (no break at 2^31) but not 2^32: the rotation breaks where the 32-bit value wraps to 0."""
    return [(7, (1 << 31) + 3 * 7), (3, (1 << 32) + 3 * 3)]


def run_spin(ctx, flavour="dbg", jobs=None):
    """`start N`, `spin K` on harness/pool_drv.cc built in `flavour`, the jobs side by side (one process each, about
    4 ns per call at -O1, 20 ns under ASan+UBSan); oracle = closed form (first, last, no break).  A failing run is cut
    down to the first break (`spin <firstbad + 1>`) when that reproduces.  Records what ran in ctx.extra["pool_spin"]."""
    import time
    from concurrent.futures import ThreadPoolExecutor
    jobs = spin_jobs() if jobs is None else jobs
    exe = ctx.exe("pool_drv", flavour)

    def one(job):
        n, k = job
        t0 = time.time()
        lines = ["start %d" % n, "spin %d" % k]
        blocks, _ = ctx.run_impl(exe, Case(ENGINE, lines), timeout=900)
        return lines, blocks, time.time() - t0
    with ThreadPoolExecutor(max_workers=max(1, len(jobs))) as ex:
        results = list(ex.map(one, jobs))
    for (n, k), (lines, blocks, secs) in zip(jobs, results):
        origin = "spin:%s:N=%d" % (flavour, n)
        fails = oracle(lines, blocks)
        obs = ctx.observable(blocks[1])[0] if len(blocks) > 1 and ctx.observable(blocks[1]) else (
            blocks[-1][-1] if blocks and blocks[-1] else "?")
        ctx.count("pool:start")
        ctx.count("pool:spin")
        ctx.count("pool:spin-calls", k)
        ctx.record(Case(ENGINE, lines, origin), blocks, nontrivial=True,
                   sample={"ops": lines, "steps": 2, "last_observation": obs[:120]})
        ctx.extra.setdefault("pool_spin", []).append(
            {"flavour": flavour, "pool_size": n, "calls": k, "seconds": round(secs, 1), "answer": obs[:160],
             "oracle": fails[0][0] if fails else "accepts"})
        if not fails or ctx.oracle_failures:
            continue
        kind, desc = fails[0]
        t = obs.split()
        if kind == "pool-roundrobin" and "firstbad" in t:
            # the shortest run that shows it: up to and including the first call out of turn
            short = ["start %d" % n, "spin %d" % (int(t[t.index("firstbad") + 1]) + 1)]
            b2, _ = ctx.run_impl(exe, Case(ENGINE, short), timeout=900)
            f2 = oracle(short, b2)
            if f2 and f2[0][0] == kind:
                lines, desc = short, f2[0][1]
        ctx.oracle_failures.append((Case(ENGINE, lines, origin), kind, desc + " [flavour %s]" % flavour))


def run_selfquit(ctx, flavour="asan"):
    """A pool one of whose io loops has ended on its own (`selfquit <i>`: a task on it calls quit(); the EventLoop object
    is destroyed when its thread leaves threadFunc) is destroyed afterwards: `~EventLoopThreadPool` / `~EventLoopThread`
    must not touch the dead loop (C05: "without touching a loop that has already been destroyed").  Oracle only (no
    model): the process must not crash or trip the sanitizer, nothing may be logged at ERROR level (a `quit()` on the dead
    object writes to a closed or re-used descriptor: "EventLoop::wakeup() writes -1 bytes"), and the pools started afterwards
    answer as usual."""
    exe = ctx.exe("pool_drv", flavour)
    progs = [["start 3", "selfquit 1", "start 2", "next 4", "start 0"],
             ["start 1", "selfquit 0", "start 1", "next 2"],
             ["start 4", "selfquit 0", "selfquit 3", "next 3", "start 2", "selfquit 1"]]
    env = dict(os.environ, ASAN_OPTIONS="detect_stack_use_after_return=1:detect_leaks=0:abort_on_error=0:exitcode=77")
    for lines in progs:
        case = Case(ENGINE, lines, "selfquit:" + flavour)
        blocks, err = ctx.run_impl(exe, case, timeout=120, env=env)
        obs = [l for b in blocks for l in ctx.observable(b)]
        ctx.count("pool:selfquit")
        ctx.record(case, blocks, nontrivial=True, sample={"ops": lines, "steps": len(lines), "last_observation": (obs or ["?"])[-1][:120]})
        bad = None
        if any(l.startswith("<<") for l in obs):
            san = next((l.strip() for l in err.split("\n") if "ERROR: AddressSanitizer" in l or "SUMMARY:" in l), "")
            bad = ("uaf-pool-dtor", "pool destroyed after io loop ended on its own: %s %s" % (obs[-1][:120], san[:200]))
        elif " ERROR " in err or "writes -1 bytes" in err:
            line = next((l for l in err.split("\n") if " ERROR " in l or "writes -1" in l), "")
            bad = ("uaf-pool-dtor", "pool destroyed after an io loop ended on its own: the destructor still used the dead loop "
                   "(logged: %s)" % line.strip()[:200])
        elif sum(1 for l in obs if l.startswith("selfquit ")) != sum(1 for l in lines if l.startswith("selfquit ")):
            bad = ("trace", "selfquit not answered: %s" % obs[-3:])
        if bad and not ctx.oracle_failures:
            ctx.oracle_failures.append((case, bad[0], bad[1] + " [flavour %s]" % flavour))
            return


def read_case_file(path):
    with open(path) as f:
        return [l.rstrip("\n") for l in f if l.strip() and not l.startswith("#") and not l.startswith("engine=")]


def replay_pool(ctx, lines, flavour="dbg", origin="replay"):
    """the same treatment for given input lines (the `engine=pool` header and `#` comments are skipped)"""
    exe = ctx.exe("pool_drv", flavour)
    return run_lines(ctx, exe, lines, origin)


def corpus_pool(ctx, flavour="dbg", prop_id="C05"):
    for p in sorted(glob.glob(os.path.join(CORPUS, prop_id, "pool-*.case"))):
        replay_pool(ctx, read_case_file(p), flavour, "corpus:" + os.path.basename(p))
        ctx.count("corpus_cases")
        if ctx.stop():
            return
