"""Shared by C06 and C07: case generator, independent Python oracle and the differential run of the
timer engine (harness/timer_drv.cc vs lean/Driver/TimerDrv.lean).

The oracle looks only at the implementation's own trace (events + the environment lines the harness
recorded: clock after every step); it never consults the Lean model."""
import glob
import os
import re
from concurrent.futures import ThreadPoolExecutor

from .common import CORPUS
from .runner import Case, ddmin

BASE = 1700000000 * 1000000
FLOOR = 100
DRAIN = 400000          # the drain rounds at the end of every generated case advance by this much
DRAIN_ROUNDS = 3


def exact_us(us):
    """the harness hands `us / 1e6` seconds to the API, which truncates `seconds * 1e6` again"""
    return int((us / 1e6) * 1000000) == us


def read_case(path):
    with open(path) as f:
        return [l.rstrip("\n") for l in f if l.strip() and not l.startswith("#") and not l.startswith("engine=")]


# ----------------------------------------------------------------------------- oracle
class T:
    """what the oracle knows about one registered timer"""
    __slots__ = ("name", "lo", "hi", "first_lo", "delta", "rep", "runs", "bound", "registered", "reg_clock", "dead",
                 "dead_pos", "dead_unreg", "batch_grace", "inflight", "ran_in_step", "parked", "last_run_at", "added_pos")

    def __init__(self, name):
        self.name = name
        self.lo = self.hi = self.first_lo = 0
        self.delta = 0
        self.rep = False
        self.runs = 0
        self.bound = False        # the user's variable holds the id
        self.registered = False   # addTimerInLoop has run
        self.reg_clock = None
        self.dead = False         # a cancel of its id was processed
        self.dead_unreg = False   # ... while its addTimerInLoop functor was still queued
        self.batch_grace = None   # step index in which one already-due invocation may still come
        self.inflight = False     # a foreign cancel is queued, not yet processed
        self.ran_in_step = None
        self.parked = False
        self.last_run_at = None
        self.added_pos = None


def parse_mode(mode, arg):
    """(kind, value, repeats, delta)"""
    if mode == "at":
        return ("abs", BASE + int(arg), False, 0)
    if mode == "after":
        return ("rel", int(arg), False, 0)
    if arg == "sub":
        return ("rel", 0, True, 0)
    d = int(arg)
    return ("rel", d, d > 0, d)


def oracle(lines, blocks, drained=False):
    """returns a list of (kind, description); empty = the trace satisfies C06 and C07 as far as observable"""
    fails = []
    ops = [l for l in lines if l.strip()]
    timers = {}
    scripts = {}
    clock = BASE
    last_arm_clock = None
    markers = {}            # marker -> name cancelled (or None)
    queued_adds = []        # names whose addTimerInLoop functor is queued
    runs_log = []           # (pos, step, name, k, at, lo, hi, reg_clock)
    pos = 0
    parked_name = None
    seqs = {}
    last_seq = 0
    last_iter_step = None
    last_iter_clock = None
    prev_fd = None          # state of the timer descriptor after the previous step (`r` = readable)

    def fail(kind, msg):
        fails.append((kind, msg))

    def do_add(name, mode, arg, lo_clock, who, step):
        if name in timers:
            return None
        t = T(name)
        kind, v, rep, delta = parse_mode(mode, arg)
        t.rep, t.delta = rep, delta
        if kind == "abs":
            t.lo = t.hi = v
        else:
            t.lo, t.hi = lo_clock + v, None     # hi fixed when the clock after the read is known
            t.hi = ("rel", v)
        t.first_lo = t.lo
        timers[name] = t
        return t

    def do_cancel_now(name, step, in_batch):
        """a cancel whose processing is complete at this point of the trace"""
        t = timers.get(name)
        if t is None or not t.bound:
            return
        if t.dead:
            return
        t.dead = True
        t.dead_unreg = not t.registered
        t.inflight = False
        if in_batch and t.registered and t.ran_in_step != step and not (t.rep is False and t.runs > 0):
            t.batch_grace = step    # it may be part of the batch that is being run

    for i, op in enumerate(ops):
        if i >= len(blocks):
            fail("trace", "no output for step %d `%s`" % (i, op))
            break
        blk = blocks[i]
        if any(l.startswith("<<") for l in blk):
            msg = [l for l in blk if l.startswith("<<")][0]
            # interpose.h reports the armed value as an int64_t count of nanoseconds (relative times beyond 292 years
            # overflow there, which the sanitizer build stops at): a limit of the harness, never generated (FAR_REL); a
            # kind of its own, so that shrinking a real failure cannot end on it
            fail("harness-range" if ("interpose.h" in msg and "overflow" in msg) else "crash", "step %d `%s`: %s" % (i, op, msg[:300]))
            break
        w = op.split()
        step_start_clock = clock
        for l in blk:
            if l.startswith("< clock "):
                end_clock = int(l.split()[2])
        else:
            pass
        end_clock = next((int(l.split()[2]) for l in blk if l.startswith("< clock ")), clock)
        cur = step_start_clock      # lower bound of the clock at the current position of the block

        def fix_hi(t):
            if isinstance(t.hi, tuple):
                t.hi = end_clock + t.hi[1]

        # ---- the operation itself (what is known before its events)
        if w[0] == "script":
            scripts.setdefault(int(w[1]), []).append((None if w[2] == "*" else int(w[2]), w[3:]))
        new_top = None
        if w[0] == "add" and len(w) == 5:
            nm = int(w[2])
            if nm not in timers:
                new_top = do_add(nm, w[3], w[4], step_start_clock, w[1], i)
                fix_hi(new_top)
                if w[1] == "L":
                    new_top.registered = True
                    new_top.reg_clock = end_clock     # upper bound of the time of registration
                else:
                    queued_adds.append(nm)
                    if w[1] == "P":
                        new_top.parked = True
                        parked_name = nm
        if w[0] == "cancel" and len(w) == 4 and w[1] == "F":
            nm = None if w[2] == "default" else int(w[2])
            t = timers.get(nm)
            if t is not None and t.bound:
                markers[w[3]] = nm
                t.inflight = True
            else:
                markers[w[3]] = None

        # ---- events of the block
        for l in blk:
            if l.startswith("<") or l.startswith("#"):
                continue
            pos += 1
            e = l.split()
            if e[0] in ("abort", "bad-op", "inexact-interval", "uaf") or e[0].startswith("env-"):
                fail("crash", "step %d `%s`: %s" % (i, op, l))
                continue
            if e[0] == "arm":
                last_arm_clock = int(e[3])
                cur = max(cur, last_arm_clock)
                if e[1] == "off":       # interpose.h: timerfd_settime with an all-zero it_value disarms the descriptor
                    fail("floor", "step %d `%s`: timerfd_settime was handed a zero it_value (disarms the descriptor)" % (i, op))
                elif int(e[1]) < FLOOR * 1000:
                    # the alarm the harness recorded is exact in microseconds, the printed nanoseconds are exact modulo 2^64
                    st0 = next((l for l in blk if l.startswith("st fd=a")), None)
                    last = [l for l in blk if l.startswith("arm ")][-1] == l
                    rel = int(st0.split()[1][4:]) - last_arm_clock if (st0 is not None and last) else 0
                    if rel * 1000 >= (1 << 63) and (rel * 1000 - int(e[1])) % (1 << 64) < 1000:
                        fail("harness-range", "step %d `%s`: relative time of %d us: beyond the 292 years harness/interpose.h can report"
                             % (i, op, rel))
                    else:
                        fail("floor", "step %d `%s`: timerfd armed for %s ns (< 100 us)" % (i, op, e[1]))
            elif e[0] == "added":
                nm = int(e[1])
                t = timers.get(nm)
                if t is None:
                    fail("trace", "step %d: `%s` for a timer nobody added" % (i, l))
                    continue
                t.bound = True
                t.added_pos = pos
                q = int(e[2].split("=")[1])
                if q in seqs.values():
                    fail("identity", "step %d: sequence number %d issued twice (timers %s)" % (i, q, nm))
                if not t.parked and q <= last_seq:
                    fail("identity", "step %d: sequence number %d of timer %d is not larger than %d issued before" % (i, q, nm, last_seq))
                seqs[nm] = q
                last_seq = max(last_seq, q)
            elif e[0] == "processed":
                if w[0] == "cancel" and w[1] == "L":
                    do_cancel_now(None if w[2] == "default" else int(w[2]), i, False)
                elif e[1] in markers:
                    nm = markers.pop(e[1])
                    if nm is not None:
                        do_cancel_now(nm, i, False)
            elif e[0] == "run":
                nm, at = int(e[1]), int(e[3])
                cur = max(cur, at)
                t = timers.get(nm)
                if t is None:
                    fail("trace", "step %d: `%s` for a timer nobody added" % (i, l))
                    continue
                if w[0] != "iter":
                    fail("thread", "step %d `%s`: callback of timer %d ran outside a loop iteration" % (i, op, nm))
                fix_hi(t)
                t.runs += 1
                if at < t.lo:
                    fail("early", "step %d: timer %d ran at %d, %d us before its deadline %d (run %d)" % (i, nm, at, t.lo - at, t.lo, t.runs))
                if at < t.first_lo + (t.runs - 1) * t.delta:
                    fail("early", "step %d: run %d of timer %d at %d is earlier than first deadline %d + %d intervals of %d"
                         % (i, t.runs, nm, at, t.first_lo, t.runs - 1, t.delta))
                if not t.rep and t.runs > 1:
                    fail("twice", "step %d: one-shot timer %d ran %d times" % (i, nm, t.runs))
                if t.dead:
                    if t.batch_grace == i and t.ran_in_step != i:
                        if t.lo > at:
                            fail("after-cancel", "step %d: timer %d ran after its cancel was processed and was not due" % (i, nm))
                    elif t.dead_unreg:
                        fail("after-cancel:add-still-queued", "step %d: timer %d ran (run %d at %d) although cancel() of its id was processed; "
                             "the cancel ran on the loop thread while the foreign thread's addTimerInLoop functor was still queued"
                             % (i, nm, t.runs, at))
                    else:
                        fail("after-cancel", "step %d: timer %d ran after its cancel was processed (run %d at %d)" % (i, nm, t.runs, at))
                if t.ran_in_step == i:
                    fail("twice", "step %d: timer %d ran twice in one expiry batch" % (i, nm))
                t.ran_in_step = i
                t.last_run_at = at
                runs_log.append((pos, i, nm, t.runs, at, t.lo, t.hi, t.reg_clock if t.reg_clock is not None else step_start_clock))
                if t.rep:
                    # restarted from the batch's `now`, which lies between the clock before the step and `at`
                    t.lo, t.hi = step_start_clock + t.delta, at + t.delta
                    t.reg_clock = end_clock
                # what its callback does, in order, inline
                for k, sw in scripts.get(nm, []):
                    if k is not None and k != t.runs:
                        continue
                    if sw[0] == "cancel":
                        do_cancel_now(None if sw[1] == "default" else int(sw[1]), i, True)
                    elif sw[0] == "add" and len(sw) == 4:
                        n2 = int(sw[1])
                        if n2 not in timers:
                            t2 = do_add(n2, sw[2], sw[3], at, "L", i)
                            fix_hi(t2)
                            t2.registered = True
                            t2.bound = True      # the callback stores the id as soon as the add returns
                            t2.reg_clock = end_clock
        # ---- end of step
        if w[0] == "iter":
            for nm in queued_adds:
                timers[nm].registered = True
                timers[nm].reg_clock = end_clock
            queued_adds = []
            last_iter_step, last_iter_clock = i, end_clock
        if w[0] == "resume" and parked_name is not None:
            parked_name = None
        clock = end_clock
        # a grace that was not used ends with the step
        for t in timers.values():
            if t.batch_grace is not None and t.batch_grace < i:
                t.batch_grace = None
        # armed: the loop is about to poll again
        st = next((l for l in blk if l.startswith("st ")), None)
        if st is not None:
            kv = dict(x.split("=", 1) for x in st.split()[1:])
            # drained: an iteration that was woken by the (level-triggered) timer descriptor must read it.  The
            # descriptor was readable when this iteration polled; if it is readable again afterwards, an alarm set
            # during this very iteration must have expired (clock jitter) - otherwise every coming poll returns at
            # once although nothing is due: the idle loop spins
            if w[0] == "iter" and prev_fd == "r" and kv["fd"] == "r":
                arms = [l.split() for l in blk if l.startswith("arm ")]
                refired = bool(arms) and arms[-1][1] != "off" and int(arms[-1][3]) + int(arms[-1][1]) // 1000 <= end_clock
                if not refired:
                    pend = sorted(t.name for t in timers.values() if t.registered and not t.dead and (t.rep or t.runs == 0))
                    fail("timerfd-not-drained", "step %d `%s`: the timer descriptor was readable before this iteration and is still readable after "
                         "it although no alarm was set and reached in between (pending timers: %s): handleRead did not read it, "
                         "every coming poll returns immediately - the loop spins instead of blocking" % (i, op, pend or "none"))
            prev_fd = kv["fd"]
            pend = [t for t in timers.values() if t.registered and not t.dead and not t.inflight and (t.rep or t.runs == 0)]
            if pend and kv["fd"] != "r":
                earliest = min(t.hi for t in pend)
                if kv["fd"] == "off" or kv["fd"] == "none":
                    fail("disarmed", "step %d `%s`: timerfd is disarmed while timer %d (deadline %d) is pending"
                         % (i, op, min(pend, key=lambda t: t.hi).name, earliest))
                else:
                    alarm = int(kv["fd"][1:])
                    bound = max(earliest, (last_arm_clock if last_arm_clock is not None else clock) + FLOOR)
                    if alarm > bound:
                        fail("late-arm", "step %d `%s`: timerfd armed for %d, %d us after the earliest pending deadline %d (timer %d)"
                             % (i, op, alarm, alarm - earliest, earliest, min(pend, key=lambda t: t.hi).name))
        if fails:
            break

    if not fails:
        # deadline order among timers that were both registered before the earlier deadline passed
        for x in range(len(runs_log)):
            px, sx, nx, kx, atx, lox, hix, regx = runs_log[x]
            for y in range(x + 1, len(runs_log)):
                py, sy, ny, ky, aty, loy, hiy, regy = runs_log[y]
                # y ran after x although y's deadline is strictly earlier
                if hiy < lox and regx < hiy and regy < hiy and nx != ny:
                    fail("order", "timer %d (deadline %d) ran in step %d after timer %d (deadline %d) of step %d"
                         % (ny, hiy, sy, nx, lox, sx))
                    break
            if fails:
                break
    if not fails and drained and last_iter_clock is not None:
        # none lost: after the drain rounds every registered, uncancelled timer has run
        for t in timers.values():
            if not t.registered or t.dead or t.inflight:
                continue
            if t.runs == 0 and (t.reg_clock is None or t.reg_clock > last_iter_clock - DRAIN):
                continue       # registered during the last drain round: nothing ran after it
            if not t.rep and t.runs == 0 and t.hi + FLOOR <= last_iter_clock - DRAIN:
                fail("lost", "one-shot timer %d (deadline %d) never ran although the loop ran until %d" % (t.name, t.hi, last_iter_clock))
            if t.rep and t.delta <= DRAIN // 2 and t.first_lo + FLOOR <= last_iter_clock - DRAIN and (
                    t.last_run_at is None or t.last_run_at < last_iter_clock - DRAIN):
                fail("lost", "repeating timer %d (interval %d) stopped running (last run %s, loop ran until %d)"
                     % (t.name, t.delta, t.last_run_at, last_iter_clock))
    return fails


# ----------------------------------------------------------------------------- generator
DELAYS = [-5000, -1, 0, 1, 50, 99, 100, 101, 150, 500, 1000, 1001, 5000, 20000, 100000, 300000]
ADV = [0, 1, 50, 99, 100, 101, 200, 499, 500, 501, 1000, 5000, 20000, 100000]
EVERY = [100, 101, 250, 500, 1000, 3000, 20000, 150000]

# delays / intervals around the widths of the C integer types a deadline computation may pass through (microseconds):
# 2^31 us = 2147.483648 s and 2^32 us (an `int` / `unsigned` count of microseconds), an hour, a day, 30 days, a year,
# ten years, 2^31 and 2^32 SECONDS (an `int` / `unsigned` count of seconds).  The harness runs under a virtual clock:
# a jump of ten years costs nothing.
S = 1000000
FAR_DELAYS = [2147 * S, (1 << 31) - 1, 1 << 31, (1 << 31) + 1, 2148 * S, 3600 * S, (1 << 32) - 1, 1 << 32, 4295 * S,
              86400 * S, 30 * 86400 * S, 365 * 86400 * S, 3650 * 86400 * S, ((1 << 31) - 1) * S, (1 << 31) * S,
              (1 << 32) * S + 1]
# absolute deadlines (offsets from BASE, microseconds): the last second of a 32-bit time_t (2038), of an unsigned one
# (2106), of an int64_t count of NANOseconds since the epoch (2262), the year 2500, and the last representable
# microseconds of an int64_t count (year 294247)
FAR_AT = [((1 << 31) - 1) * S - BASE, (1 << 31) * S - BASE, (1 << 31) * S - BASE + 1,
          ((1 << 32) - 1) * S - BASE, (1 << 32) * S - BASE + 250000,
          9223372036 * S + 854775 - BASE, 9223372037 * S - BASE,
          16725225600 * S - BASE,
          (1 << 63) - 1 - BASE, (1 << 63) - 1 - BASE - 86400 * S]


# harness/interpose.h reports the armed value as an int64_t count of nanoseconds: relative times stay below 290 years;
# a deadline farther away is registered after the clock was moved towards it
FAR_REL = 9000000000 * S


def exact_up(d):
    while not exact_us(d):
        d += 1
    return d


def gen_case(rng, size, profile="c06", park=False):
    """one random program; `size` = number of top-level operations before the drain rounds"""
    lines = []
    off = 0                     # approximate clock offset
    names = []                  # names issued so far
    future = []                 # names that only scripts (may) add
    nxt = [1]
    mk = [1]
    deadlines = []              # approximate offsets of pending deadlines
    abs_used = []
    nadds = [0]
    parked = [False]
    tick = [0]
    unreg = set()               # added from a foreign thread, no loop iteration since (F21: a loop-thread cancel would be lost)

    def reg_names(pool):
        return [n for n in pool if n not in unreg]

    def new_name():
        n = nxt[0]
        nxt[0] += 1
        return n

    def pick_mode(allow_invalid=True):
        r = rng.random()
        if rng.random() < 0.04:
            # far away: the delay / interval / deadline passes the width of an `int` of microseconds or of seconds
            k = rng.choice(["after", "after", "every", "at"])
            if k == "at":
                o = rng.choice(FAR_AT[:7]) if rng.random() < 0.7 else off + rng.choice(FAR_DELAYS[:13])
                if o - off > FAR_REL:
                    o = off + FAR_REL
                deadlines.append(o)
                return "at %d" % o
            d = exact_up(rng.choice(FAR_DELAYS[:13]) + rng.choice([0, 0, 1, 250000]))
            deadlines.append(off + d)
            return "%s %d" % (k, d)
        if r < 0.45:
            if abs_used and rng.random() < 0.35:
                o = rng.choice(abs_used)          # an equal deadline
            else:
                o = off + rng.choice(DELAYS + [rng.randrange(-2000, 300000)])
            if allow_invalid and rng.random() < 0.02:
                o = rng.choice([-BASE, -BASE - 7, -BASE + 1])
            abs_used.append(o)
            deadlines.append(o)
            return "at %d" % o
        if r < 0.7:
            d = rng.choice(DELAYS + [rng.randrange(-2000, 300000)])
            while not exact_us(d):
                d += 1
            deadlines.append(off + d)
            return "after %d" % d
        if rng.random() < 0.08:
            return "every " + rng.choice(["sub", "0", "-300"])
        d = rng.choice(EVERY + [rng.randrange(100, 200000)])
        while not exact_us(d):
            d += 1
        deadlines.append(off + d)
        return "every %d" % d

    def script_for(n, depth=0):
        for _ in range(rng.choice([1, 1, 2, 3])):
            k = rng.choice(["1", "1", "2", "3", "*"])
            r = rng.random()
            if r < 0.25:
                lines.append("script %d %s cancel %d" % (n, k, n))               # self-cancel
            elif r < 0.55 and reg_names(names):
                lines.append("script %d %s cancel %d" % (n, k, rng.choice(reg_names(names))))  # another (maybe same batch, maybe stale)
            elif r < 0.6:
                lines.append("script %d %s cancel default" % (n, k))
            elif r < 0.65 and future:
                lines.append("script %d %s cancel %d" % (n, k, rng.choice(future)))
            elif nadds[0] < 200:
                n2 = new_name()
                nadds[0] += 1
                future.append(n2)
                if depth < 3 and rng.random() < 0.4:
                    script_for(n2, depth + 1)
                lines.append("script %d %s add %d %s" % (n, k if k != "*" else "1", n2, pick_mode()))

    def add(who=None):
        if nadds[0] >= 200:
            return
        n = new_name()
        nadds[0] += 1
        if rng.random() < (0.3 if profile == "c06" else 0.4):
            script_for(n)
        who = who or ("L" if rng.random() < 0.7 else "F")
        if who == "F" and parked[0]:
            who = "L"
        lines.append("add %s %d %s" % (who, n, pick_mode()))
        names.append(n)
        if who != "L":
            unreg.add(n)

    def cancel():
        r = rng.random()
        who = "L" if rng.random() < 0.6 else "F"
        if r < 0.08:
            tgt = "default"
        elif r < 0.15 and future:
            tgt = str(rng.choice(future))
        elif names:
            tgt = str(rng.choice(names[-8:] if rng.random() < 0.5 else names))
        else:
            tgt = "default"
        if tgt != "default" and int(tgt) in unreg:
            who = "F"
        lines.append("cancel %s %s %d" % (who, tgt, mk[0]))
        mk[0] += 1
        if rng.random() < 0.15:     # double cancel
            lines.append("cancel %s %s %d" % ("F" if tgt != "default" and int(tgt) in unreg else rng.choice(["L", "F"]), tgt, mk[0]))
            mk[0] += 1

    def advance():
        nonlocal off
        pend = sorted(d for d in deadlines if d > off)
        r = rng.random()
        if pend and r < 0.45:
            tgt = pend[0] if rng.random() < 0.7 else rng.choice(pend[:4])
            a = max(0, tgt - off + rng.choice([0, 0, 0, -1, 1, 99, 100, 101, 150]))
        else:
            a = rng.choice(ADV)
        off += a
        lines.append("advance %d" % a)
        lines.append("iter")
        if rng.random() < 0.3:
            lines.append("iter")

    cancel_w = 0.12 if profile == "c06" else 0.3
    for _ in range(size):
        r = rng.random()
        if r < 0.34:
            add()
            if rng.random() < 0.25:           # several with equal / close deadlines
                for _ in range(rng.randrange(1, 6)):
                    add()
        elif r < 0.34 + cancel_w:
            cancel()
        elif r < 0.40 + cancel_w and profile == "c07":
            # address reuse: many allocate/free cycles, then a stale cancel of an old id
            old = rng.choice(names) if names else None
            for _ in range(rng.randrange(3, 30)):
                if nadds[0] >= 200:
                    break
                n = new_name()
                nadds[0] += 1
                lines.append("add L %d at %d" % (n, off + rng.choice([50000, 200000, 1000])))
                names.append(n)
                if rng.random() < 0.8:
                    lines.append("cancel L %d %d" % (n, mk[0]))
                    mk[0] += 1
            if old is not None:
                lines.append("cancel %s %d %d" % ("F" if old in unreg else rng.choice(["L", "F"]), old, mk[0]))
                mk[0] += 1
        elif r < 0.43 + cancel_w and park and not parked[0]:
            if nadds[0] < 200:
                n = new_name()
                nadds[0] += 1
                lines.append("add P %d %s" % (n, rng.choice(["at %d" % (off + rng.choice([-10, 0, 50, 100, 1000])), "after 0", "after 100", "every 100"])))
                names.append(n)
                unreg.add(n)
                parked[0] = True
                if rng.random() < 0.7:
                    # the schedule of F4: the loop registers, fires and frees the timer before the id is built
                    lines.append("iter")
                    a = rng.choice([0, 99, 100, 150, 1000, 2000])
                    off += a
                    lines += ["advance %d" % a, "iter", "resume"]
                    parked[0] = False
                    unreg.clear()
        elif r < 0.47 + cancel_w and parked[0]:
            lines.append("resume")
            parked[0] = False
        elif r < 0.49 + cancel_w:
            tick[0] = rng.choice([0, 0, 1, 3, 40, 150])
            lines.append("tick %d" % tick[0])
        elif r < 0.62 + cancel_w:
            lines.append("iter")
            unreg.clear()
        else:
            advance()
            unreg.clear()
    if parked[0]:
        lines.append("resume")
    lines.append("tick 0")
    for _ in range(DRAIN_ROUNDS):
        lines += ["advance %d" % DRAIN, "iter", "iter"]
    return lines


def gen_cancel_all(rng):
    """histories in which every pending timer is cancelled from outside a callback (loop thread between two
    iterations, or a foreign thread) while the timerfd is still armed for it; then the old expiry passes and the loop
    runs a few iterations with nothing due (the descriptor must be drained, the loop must not spin); then life goes on"""
    lines = []
    off = 0
    nxt, mk = 1, 1
    for rnd in range(rng.choice([1, 1, 2, 3])):
        names, far = [], 0
        for _ in range(rng.choice([1, 1, 2, 3])):
            d = rng.choice([100, 150, 500, 1000, 5000, 20000])
            who = rng.choice(["L", "L", "F"])
            mode = rng.choice(["at %d" % (off + d), "after %d" % d, "every %d" % d])
            lines.append("add %s %d %s" % (who, nxt, mode))
            names.append((nxt, who))
            far = max(far, d)
            nxt += 1
        registered = False
        if rng.random() < 0.6:
            lines.append("iter")
            registered = True
        if rng.random() < 0.3:
            a = rng.choice([0, 1, 50, 99])
            lines.append("advance %d" % a)
            off += a
        keep = rng.random() < 0.15           # sometimes one survives: the descriptor fires for a real reason
        for k, (n, who) in enumerate(names):
            if keep and k == 0:
                continue
            cw = "F" if (who == "F" and not registered) else rng.choice(["L", "F"])
            lines.append("cancel %s %d %d" % (cw, n, mk))
            mk += 1
            if cw == "F" and rng.random() < 0.5:
                lines.append("iter")
                registered = True
        if rng.random() < 0.3:
            lines.append("iter")
        a = far + rng.choice([0, 1, 100, 101, 1000])
        lines.append("advance %d" % a)
        off += a
        lines += ["iter"] * rng.choice([2, 3])
        if rng.random() < 0.5:
            a = rng.choice([0, 100, 1000])
            lines.append("advance %d" % a)
            off += a
            lines.append("iter")
    lines.append("tick 0")
    for _ in range(DRAIN_ROUNDS):
        lines += ["advance %d" % DRAIN, "iter", "iter"]
    return lines


def gen_far(rng):
    """delays, intervals and deadlines beyond the widths of the 32-bit types: a few near timers for company, one to
    three far ones (from the loop thread, a foreign thread or a timer callback); the clock is moved to just before the
    earliest far deadline (nothing may run: `early`), then onto it (it must run: `lost`), for a repeating timer through a
    few more intervals; optionally the whole history starts after a jump of the clock to just before 2038 / 2106 / 2262 /
    2500, so that relative delays cross those instants.  One history in seven plays at the end of the int64_t
    microsecond range instead (absolute deadlines only: clock + delay must stay representable, see
    addTime_exact_in_range)"""
    lines = []
    off = 0
    nxt, mk = 1, 1

    def near(rep=True):
        nonlocal nxt
        d = exact_up(rng.choice([100, 150, 1000, 5000, 50000, 250000]))
        lines.append("add %s %d %s" % (rng.choice(["L", "L", "F"]), nxt,
                                       rng.choice(["at %d" % (off + d), "after %d" % d] + (["every %d" % d] if rep else []))))
        nxt += 1

    def finish():
        lines.append("tick 0")
        for _ in range(DRAIN_ROUNDS):
            lines.extend(["advance %d" % DRAIN, "iter", "iter"])
        return lines

    if rng.random() < 0.14:
        # the end of the range: the clock within 290 years of the last representable microsecond
        end = (1 << 63) - 1 - BASE
        o = end - rng.choice([0, 0, 1, 86400 * S, 3650 * 86400 * S])
        off = o - rng.choice([3600 * S, 3650 * 86400 * S, 250 * 365 * 86400 * S])
        lines.extend(["advance %d" % off, "iter"])
        for _ in range(rng.choice([0, 1, 2])):
            near()
        c = None
        if rng.random() < 0.3:
            c, nxt = nxt, nxt + 1
            lines.append("script %d 1 add %d at %d" % (c, nxt, o))
            lines.append("add L %d at %d" % (c, off + 1000))
        else:
            lines.append("add %s %d at %d" % (rng.choice(["L", "F"]), nxt, o))
        n, nxt = nxt, nxt + 1
        lines.extend(["iter", "advance 1000", "iter", "advance 300000", "iter"])
        off += 301000
        if o < end - 20 * S:
            lines.extend(["advance %d" % (o - off - 1), "iter", "advance %d" % rng.choice([1, 2, 101]), "iter", "iter"])
        elif rng.random() < 0.5:
            lines.append("cancel %s %d %d" % (rng.choice(["L", "F"]), n, mk))
            lines.append("iter")
        return finish()

    if rng.random() < 0.35:
        tgt = rng.choice(FAR_AT[:8]) - rng.choice([0, 1, 5 * S, 1800 * S, 3 * 86400 * S])
        lines += ["advance %d" % tgt, "iter"]
        off = tgt
    far = []        # (name, mode, deadline offset, interval or 0)
    for _ in range(rng.choice([0, 1, 2])):
        near()
    for _ in range(rng.choice([1, 1, 2, 3])):
        k = rng.choice(["after", "after", "every", "every", "at"])
        if k == "at":
            cands = [o for o in FAR_AT[:8] if o > off + 2000 * S]
            o = rng.choice(cands) if (cands and rng.random() < 0.6) else off + rng.choice(FAR_DELAYS)
            if o - off > FAR_REL:
                a = o - off - rng.choice([3600 * S, 3650 * 86400 * S, 250 * 365 * 86400 * S])
                lines += ["advance %d" % a, "iter"]
                off += a
                far = [(n_, m_, d_, 0) for (n_, m_, d_, i_) in far]     # earlier repeating ones are not followed any more
            mode, dl, iv = "at %d" % o, o, 0
        else:
            d = exact_up(rng.choice(FAR_DELAYS) + rng.choice([0, 0, 0, 1, 250000, 999999]))
            mode, dl, iv = "%s %d" % (k, d), off + d, (d if k == "every" else 0)
        n = nxt
        nxt += 1
        r = rng.random()
        if r < 0.3:
            # registered from inside the callback of a near timer
            c = nxt
            nxt += 1
            a = rng.choice([100, 1000, 20000])
            lines.append("script %d 1 add %d %s" % (c, n, mode))
            lines.append("add L %d at %d" % (c, off + a))
            lines += ["advance %d" % a, "iter", "iter"]
            off += a
            if mode.split()[0] != "at":
                dl += a
        else:
            lines.append("add %s %d %s" % ("L" if r < 0.75 else "F", n, mode))
            if rng.random() < 0.7:
                lines.append("iter")
        far.append((n, mode, dl, iv))
    # a little time passes: a deadline that wrapped into the past shows now
    for a in rng.sample([0, 100, 101, 5000, 300000, 2 * S], 2):
        lines += ["advance %d" % a, "iter"]
        off += a
    if rng.random() < 0.3:
        near()
    pending = sorted(far, key=lambda f: f[2])
    steps = 0
    while pending and steps < 6:
        n, mode, dl, iv = pending.pop(0)
        steps += 1
        if rng.random() < 0.15:
            who = rng.choice(["L", "F"])
            lines.append("cancel %s %d %d" % (who, n, mk))
            mk += 1
            if who == "F":
                lines.append("iter")
            continue
        if dl > off:
            before = rng.choice([1, 100, 101, S, 695 * S, 2147 * S])   # ... also where a wrapped deadline would lie
            if dl - before > off:
                lines += ["advance %d" % (dl - before - off), "iter"]
                off = dl - before
            lines += ["advance %d" % (dl - off + rng.choice([0, 0, 1, 100, 150])), "iter", "iter"]
            off = max(off, dl) + 150
        if iv and steps < 5 and rng.random() < 0.8:
            pending.append((n, mode, off + iv, iv))
            pending.sort(key=lambda f: f[2])
    return finish()


# ----------------------------------------------------------------------------- running
KINDS_C06 = ("early", "twice", "order", "disarmed", "late-arm", "lost", "floor", "thread")
KINDS_C07 = ("after-cancel", "identity", "crash")


class Runner:
    """differential run + oracle for one property"""

    def __init__(self, prop, ctx):
        self.prop, self.ctx = prop, ctx
        from .common import load_known
        self.known = set(k["signature"] for k in load_known().get("findings", []) if k["property"] in ("C06", "C07"))

    def stop(self):
        """one violation that is not a known finding (or two disagreements) ends the exploration"""
        real = [1 for c, kind, d in self.ctx.oracle_failures if self.prop.signature(c, kind, d) not in self.known]
        return len(real) >= 1 or len(self.ctx.mismatches) >= (6 if self.ctx.search_mode else 2)

    def one(self, exe, lines, drained):
        case = Case("timer", lines)
        impl, err = self.ctx.run_impl(exe, case, timeout=120)
        fails = oracle(lines, impl, drained)
        if err and "AddressSanitizer" in err and not any(k == "crash" for k, _ in fails):
            fails.insert(0, ("crash", "AddressSanitizer: " + next((l for l in err.split("\n") if "ERROR" in l), "")[:200]))
        elif err and "AddressSanitizer" in err:
            m = next((l for l in err.split("\n") if "ERROR: AddressSanitizer" in l), "")
            fr = [l.strip() for l in err.split("\n") if re.match(r"\s*#\d+ ", l) and "muduo" in l][:2]
            fails = [(k, d + " | " + m[:160] + " " + " ".join(fr)[:300]) if k == "crash" else (k, d) for k, d in fails]
        model = self.ctx.run_model(case, impl, timeout=120) if self.ctx.model_ok else None
        mismatch = self.ctx.compare(case, impl, model) if model is not None else None
        return case, impl, fails, mismatch

    def run_cases(self, exe, cases, origin, drained=True, flavour="dbg"):
        """cases: list of line lists"""
        ctx = self.ctx
        with ThreadPoolExecutor(max_workers=8) as ex:
            results = list(ex.map(lambda ls: self.one(exe, ls, drained), cases))
        for lines, (case, impl, fails, mismatch) in zip(cases, results):
            case.origin = origin
            flat = [l for b in impl for l in b]
            nruns = sum(1 for l in flat if l.startswith("run "))
            for l in lines:
                w = l.split()
                ctx.count("op:" + w[0] + (":" + w[1] if w[0] in ("add", "cancel") else ""))
            ctx.count("event:run", nruns)
            ctx.count("event:arm", sum(1 for l in flat if l.startswith("arm ")))
            addrs = [l.split()[2] for l in flat if l.startswith("< alloc ")]
            ctx.count("address-reused", len(addrs) - len(set(addrs)))
            ctx.record(case, impl, nontrivial=nruns > 0,
                       sample={"ops": lines[:10], "runs": nruns, "flavour": flavour})
            if fails:
                kind = fails[0][0]

                def still(ls, kind=kind):
                    c = Case("timer", ls)
                    b, e = ctx.run_impl(exe, c, timeout=60)
                    f = oracle(ls, b, False)
                    if e and "AddressSanitizer" in e and not f:
                        f = [("crash", "asan")]
                    return bool(f) and f[0][0] == kind
                small = ddmin(lines, still, budget=150) if (kind != "lost" and still(lines)) else lines
                c2, impl2, fails2, _ = self.one(exe, small, drained and small == lines)
                c2.origin = origin
                ctx.oracle_failures.append((c2, kind, (fails2[0][1] if fails2 else fails[0][1]) + " [flavour %s]" % flavour))
            elif mismatch:
                def still_m(ls):
                    c = Case("timer", ls)
                    b, _ = ctx.run_impl(exe, c, timeout=60)
                    mo = ctx.run_model(c, b, timeout=60)
                    return ctx.compare(c, b, mo) is not None
                small = ddmin(lines, still_m, budget=150) if still_m(lines) else lines
                c2 = Case("timer", small, origin)
                b, _ = ctx.run_impl(exe, c2, timeout=60)
                mo = ctx.run_model(c2, b, timeout=60)
                ctx.mismatches.append((c2, (ctx.compare(c2, b, mo) or mismatch) + " [flavour %s]" % flavour))
            if self.stop():
                return

    def corpus(self, exe, pid, flavour):
        cases, names = [], []
        for p in sorted(glob.glob(os.path.join(CORPUS, pid, "*.case"))):
            cases.append(read_case(p))
            names.append(os.path.basename(p))
            self.ctx.count("corpus_cases")
        for ls, nm in zip(cases, names):
            self.run_cases(exe, [ls], "corpus:" + nm, drained=False, flavour=flavour)
            if self.stop():
                return


def correspondence(prop, ctx, replay, profile):
    r = Runner(prop, ctx)
    quick = ctx.quick() and not ctx.search_mode
    flavours = ["dbg", "asan"] if quick else ["dbg", "asan", "ndebug"]
    ctx.extra["flavours"] = flavours
    if replay:
        lines = read_case(replay)
        for fl in ["dbg", "asan"]:
            exe = ctx.exe("timer_drv", fl)
            case, impl, fails, mismatch = r.one(exe, lines, False)
            print("--- flavour %s" % fl)
            for op, b in zip([l for l in lines if l.strip()], impl):
                print("%-40s %s" % (op, " | ".join(ctx.observable(b))))
            if len(impl) > len(lines):
                print("%-40s %s" % ("", " | ".join(impl[-1])))
            print("oracle: %s" % (fails or "accepts"))
            print("model : %s" % (mismatch or "agrees"))
            r.run_cases(exe, [lines], "replay", drained=False, flavour=fl)
        return
    for fl in flavours:
        exe = ctx.exe("timer_drv", fl)
        r.corpus(exe, prop.id, fl)
        if r.stop():
            return
    # every pending timer cancelled from outside a callback while the descriptor is armed (first when searching)
    for fl in flavours[:1] if quick else flavours:
        exe = ctx.exe("timer_drv", fl)
        cases = [gen_cancel_all(ctx.rng) for _ in range(40 if quick else 300)]
        ctx.count("cancel_all_cases", len(cases))
        r.run_cases(exe, cases, "cancel-all-then-expiry", drained=True, flavour=fl)
        if r.stop():
            return
    # delays / intervals / deadlines beyond the 32-bit widths, under the virtual clock
    for fl in flavours[:1] if quick else flavours:
        exe = ctx.exe("timer_drv", fl)
        cases = [gen_far(ctx.rng) for _ in range(150 if quick else 600)]
        ctx.count("far_cases", len(cases))
        r.run_cases(exe, cases, "far-delays-and-deadlines", drained=True, flavour=fl)
        if r.stop():
            return
    plan = {
        # flavour -> (number of cases, sizes)
        "dbg": (220 if quick else 2500),
        "asan": (60 if quick else 700),
        "ndebug": (0 if quick else 400),
    }
    for fl in flavours:
        exe = ctx.exe("timer_drv", fl)
        n = plan[fl]
        done = 0
        while done < n:
            chunk = []
            for j in range(min(64, n - done)):
                idx = done + j
                size = 12 if idx % 3 == 0 else (40 if idx % 3 == 1 else (150 if idx % 12 == 2 else 70))
                chunk.append(gen_case(ctx.rng, size, profile, park=(profile == "c07" and idx % 4 == 0)))
            r.run_cases(exe, chunk, "random", drained=True, flavour=fl)
            done += len(chunk)
            if r.stop():
                return
