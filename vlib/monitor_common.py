"""Shared machinery of the C14 / C15 plug-ins (engine `monitor`, T3).

A *case* is: one `object …` line, optionally `spurious`, for a pool optionally `waits ids…` / `opens ids…`
(tasks that block inside task() until the gate is open / that open it), `thread k: ops…` lines and one or more
`schedule …` lines.  harness/monitor_drv.cc runs the real muduo classes under the deterministic
scheduler for every schedule line; lean/Driver/MonitorDrv.lean runs the Lean transition systems under
the same scheduler rules.  This module: generators, the differential run, the independent oracle
(evaluated on the implementation's own trace, never consulting the model), schedule enumeration under a
preemption bound, shrinking."""
import glob
import os
import re

from .common import CORPUS
from .runner import Case, ddmin

ENGINE = "monitor"


# ----------------------------------------------------------------------------------------- cases
class MCase:
    """object line, spurious flag, thread programs (lists of op tokens such as 'put 3', 'take'), schedules"""

    def __init__(self, obj, threads, schedules, spurious=False, origin="generated", waits=(), opens=()):
        self.obj, self.threads, self.schedules, self.spurious, self.origin = obj, [list(t) for t in threads], [list(s) for s in schedules], spurious, origin
        self.waits, self.opens = list(waits), list(opens)      # pool only: task ids that wait for / open the gate

    def clone(self, **kw):
        d = dict(obj=self.obj, threads=self.threads, schedules=self.schedules, spurious=self.spurious, origin=self.origin,
                 waits=self.waits, opens=self.opens)
        d.update(kw)
        return MCase(**d)

    def lines(self):
        out = ["object " + self.obj]
        if self.spurious:
            out.append("spurious")
        if self.waits:
            out.append("waits " + " ".join(str(x) for x in self.waits))
        if self.opens:
            out.append("opens " + " ".join(str(x) for x in self.opens))
        for i, ops in enumerate(self.threads):
            out.append(("thread %d: %s" % (i + 1, " ".join(ops))).rstrip())
        for s in self.schedules:
            out.append(("schedule " + " ".join(str(x) for x in s)).rstrip())
        return out

    def kind(self):
        return self.obj.split()[0]

    def with_schedules(self, schedules):
        return self.clone(schedules=schedules)


def parse_cases(lines, origin="file"):
    """split a line list into MCases (a new case at every `object` line)"""
    cases, cur = [], None
    for l in lines:
        l = l.strip()
        if not l or l.startswith("#") or l.startswith("engine="):
            continue
        w = l.split()
        if w[0] == "object":
            cur = MCase(" ".join(w[1:]), [], [], False, origin)
            cases.append(cur)
        elif cur is None:
            continue
        elif w[0] == "spurious":
            cur.spurious = True
        elif w[0] in ("waits", "opens"):
            (cur.waits if w[0] == "waits" else cur.opens).extend(int(x) for x in w[1:])
        elif w[0] == "thread":
            ops, i = [], 2
            while i < len(w):
                if w[i] in ("put", "run") and i + 1 < len(w):
                    ops.append(w[i] + " " + w[i + 1])
                    i += 2
                else:
                    ops.append(w[i])
                    i += 1
            cur.threads.append(ops)
        elif w[0] == "schedule":
            cur.schedules.append([int(x) for x in w[1:]])
    return cases


def read_case_file(path):
    with open(path) as f:
        return parse_cases(f.read().split("\n"), "corpus:" + os.path.basename(path))


def corpus_cases(pid):
    out = []
    for p in sorted(glob.glob(os.path.join(CORPUS, pid, "*.case"))):
        out += read_case_file(p)
    return out


def random_schedule(rng, n, dense):
    if dense:
        return [rng.randrange(0, 6) for _ in range(n)]
    return [rng.choice([0, 0, 0, 1, 1, 2, 3]) for _ in range(n)]


# ----------------------------------------------------------------------------------------- oracle
DEC = re.compile(r"([sn])(\d+)\.(\d+)(c?)")


def parse_dec(block):
    for l in block:
        if l.startswith("# dec"):
            return [(m.group(1), int(m.group(2)), int(m.group(3)), m.group(4) == "c") for m in DEC.finditer(l)]
    return None


def preemptions(dec, spurious=False):
    """cost of a decision list: preemptions (the current thread could go on and another move was taken);
    with spurious wake-ups on offer every scheduling decision other than the default counts (a spurious
    wake-up can be repeated for ever, so it has to be paid for)"""
    if spurious:
        return sum(1 for (k, n, c, cur) in dec if k == "s" and c != 0)
    return sum(1 for (k, n, c, cur) in dec if k == "s" and cur and c != 0)


def parse_blocked(line):
    """`blocked T0:waitall T1:wait(notEmpty)[take] …` -> {1: ('wait', 'notEmpty', 'take'), …}"""
    res = {}
    for tok in line.split()[1:]:
        m = re.match(r"T(\d+):([a-z]+)(?:\(([^)]*)\))?(?:\[([^\]]*)\])?$", tok)
        if not m:
            res[-1] = ("?", tok, "")
            continue
        res[int(m.group(1))] = (m.group(2), m.group(3) or "", m.group(4) or "")
    return res


def monitor_exe(ctx, flavour):
    """harness/monitor_drv.cc names the mutex and the condition variables after the private members of the classes.  When
    a source change renamed / merged them the harness no longer compiles; instead of giving up the search for a failing
    input it is then built with -DVERIF_ANON_SYNC (scheduler-assigned names m0../c0.., no `# mon` snapshots): the traces
    no longer compare with the model's, but the oracle still judges every all-blocked end state and every result."""
    from . import build
    try:
        return ctx.exe("monitor_drv", flavour)
    except build.BuildError as ex:
        ctx.notes.append("monitor_drv (%s) does not build with member names (%s); rebuilt with -DVERIF_ANON_SYNC, oracle only"
                         % (flavour, ex.output.strip().split("\n")[1][:160] if "\n" in ex.output.strip() else ex.what))
        ctx.search_mode = True
        ctx.extra["anon_sync"] = True
        return ctx.exe("monitor_drv", flavour, cxxflags="-DVERIF_ANON_SYNC")


def oracle_c14(case, block):
    """the property C14 evaluated on one schedule run of the implementation; returns [(kind, description)]"""
    kind = case.kind()
    w = case.obj.split()
    cap = int(w[1]) if kind == "bbq" else None
    count = int(w[1]) if kind == "latch" else 0
    q = []
    done = {i + 1: 0 for i in range(len(case.threads))}
    ended = None
    final = None
    for l in block:
        if l.startswith("<<"):
            return [("crash", "the implementation run ended abnormally: " + l)]
        if l.startswith("# final"):
            final = int(l.split()[2])
            continue
        if l.startswith("#"):
            continue
        if l == "done" or l.startswith("blocked"):
            ended = l
            continue
        m = re.match(r"T(\d+) (\w+)(?: (\d+))? -> (.*)$", l)
        if not m:
            return [("trace", "unreadable event line `%s`" % l)]
        t, op, arg, res = int(m.group(1)), m.group(2), m.group(3), m.group(4)
        if t not in done or done[t] >= len(case.threads[t - 1]):
            return [("trace", "`%s`: thread T%d has no such operation left" % (l, t))]
        want = case.threads[t - 1][done[t]]
        if want != (op if arg is None else op + " " + arg):
            return [("program_order", "`%s`: the next operation of T%d is `%s`" % (l, t, want))]
        done[t] += 1
        if op == "put":
            q.append(int(arg))
            if cap is not None and len(q) > cap:
                return [("bounded", "`%s`: the queue now holds %d elements, capacity %d" % (l, len(q), cap))]
        elif op == "take":
            if not q:
                return [("fifo", "`%s`: take() returned although the queue was empty" % l)]
            if res != str(q[0]):
                return [("fifo", "`%s`: the oldest element is %d (queue %s)" % (l, q[0], q))]
            q.pop(0)
        elif op == "drain":
            got = [] if res == "-" else [int(x) for x in res.split(",")]
            if got != q:
                return [("fifo", "`%s`: the queue held %s" % (l, q))]
            q = []
        elif op == "size":
            if int(res) != len(q):
                return [("observer", "`%s`: the queue holds %d elements" % (l, len(q)))]
        elif op == "empty":
            if int(res) != (1 if not q else 0):
                return [("observer", "`%s`: the queue holds %d elements" % (l, len(q)))]
        elif op == "full":
            if int(res) != (1 if len(q) == cap else 0):
                return [("observer", "`%s`: the queue holds %d of %s elements" % (l, len(q), cap))]
        elif op == "capacity":
            if int(res) != cap:
                return [("observer", "`%s`: the capacity is %s" % (l, cap))]
        elif op == "countDown":
            count -= 1
        elif op == "getCount":
            if int(res) != count:
                return [("observer", "`%s`: the count is %d" % (l, count))]
        elif op == "wait":
            if count > 0:
                return [("latch", "`%s`: wait() returned while the count is %d" % (l, count))]
    if ended is None:
        return [("crash", "the run produced neither `done` nor `blocked`")]
    if ended == "done":
        for t, n in done.items():
            if n != len(case.threads[t - 1]):
                return [("trace", "`done` although T%d completed %d of %d operations" % (t, n, len(case.threads[t - 1])))]
        if final is not None and kind in ("bq", "bbq") and final != len(q):
            return [("fifo", "final size() is %d, %d elements were put and not taken" % (final, len(q)))]
        if final is not None and kind == "latch" and final != max(count, min(count, 0)) and final != count:
            return [("observer", "final getCount() is %d, the count is %d" % (final, count))]
        return []
    # all-blocked: every thread that is not finished must be parked with its predicate false
    st = parse_blocked(ended)
    for t in sorted(done):
        if t not in st:
            return [("trace", "`%s` does not mention T%d" % (ended, t))]
        s, obj, label = st[t]
        if s == "fin":
            if done[t] != len(case.threads[t - 1]):
                return [("trace", "T%d finished after %d of %d operations" % (t, done[t], len(case.threads[t - 1])))]
            continue
        what = "T%d is left in %s(%s)[%s]" % (t, s, obj, label)
        if s != "wait":
            return [("nobody_stuck", "%s in a state where no thread can run: `%s`" % (what, ended))]
        if kind == "latch":
            if count <= 0:
                return [("nobody_stuck", "%s although the count is %d: `%s`" % (what, count, ended))]
        elif re.match(r"c\d+$", obj):
            # fallback build of the harness (condition variables not named after the members): judged by the operation alone
            if label == "take" and q:
                return [("nobody_stuck", "%s although the queue holds %s: `%s`" % (what, q, ended))]
            if label == "put" and (cap is None or len(q) < cap):
                return [("nobody_stuck", "%s although the queue holds %d of %s elements: `%s`" % (what, len(q), cap, ended))]
        elif label == "take" and obj == "notEmpty":
            if q:
                return [("nobody_stuck", "%s although the queue holds %s: `%s`" % (what, q, ended))]
        elif label == "put" and obj == "notFull":
            if cap is None or len(q) < cap:
                return [("nobody_stuck", "%s although the queue holds %d of %s elements: `%s`" % (what, len(q), cap, ended))]
        else:
            return [("nobody_stuck", "%s: waiting on the wrong condition: `%s`" % (what, ended))]
    return []


MON = re.compile(r"# mon q=(\d+) run=(\d) neW=(\d+) neS=(\d+) nfW=(\d+) nfS=(\d+)$")


def oracle_c15(case, block):
    """the property C15 evaluated on one schedule run of the implementation.

    Besides the events (`exec`, `pass`, returns of run()/stop()/open) it reads the `# mon` snapshots the harness prints
    whenever the pool's mutex is released: the real queue length, running_, and per condition the number of waiters
    not yet notified (W) and notified but not yet back in the monitor (S).  On them: the bound, and "no wake-up is
    lost" - while the pool runs, a worker sleeping unnotified means every queued task has a notified worker on its
    way (queue length <= S of notEmpty_); a producer sleeping unnotified means every free place has a notified
    producer on its way (maxQueueSize - queue length <= S of notFull_).

    Tasks of kind `waits` block inside task() until the gate is open (`opens` tasks and the caller operation `open`
    open it): a worker inside such a task is in scheduler state `poll`.  In a state where no thread can run, the only
    threads that may legitimately be left are: workers inside a waiting task while the gate is closed; a stop() joining
    such a worker; idle workers facing an empty queue; producers facing a full queue while EVERY worker is inside a
    waiting task.  In particular a queued task with a worker idle on notEmpty_ is a violation (a free worker takes up
    a queued task - tasks may rely on tasks accepted after them)."""
    w = case.obj.split()
    nthreads, maxq = int(w[1]), int(w[2])
    first = nthreads + 1                      # first caller thread
    waits = set(case.waits) if nthreads > 0 else set()
    opens = set(case.opens) - waits if nthreads > 0 else set()
    accepted, execd = [], []
    called_after_stop = set()
    in_call = {}                              # caller thread -> id of the run() it is in
    in_task = {}                              # worker -> id of the waiting task it is inside
    gate_open = False
    stopflag = False
    stop_returned = False
    ended, final = None, None
    done = {first + i: 0 for i in range(len(case.threads))}
    for l in block:
        if l.startswith("<<"):
            return [("crash", "the implementation run ended abnormally: " + l)]
        if l.startswith("# final"):
            final = int(l.split()[2])
            continue
        if l.startswith("# stopflag"):
            stopflag = True
            continue
        m = MON.match(l)
        if m:
            q, run, neW, neS, nfW, nfS = (int(x) for x in m.groups())
            if maxq > 0 and q > maxq:
                return [("bounded", "`%s`: queue_ holds %d tasks, maxQueueSize is %d" % (l, q, maxq))]
            if run and neW > 0 and q > neS:
                return [("no_lost_signal", "`%s`: the pool runs, %d task(s) are queued, %d worker(s) sleep on notEmpty_ without having "
                         "been notified and only %d notified worker(s) are on their way: a wake-up was lost" % (l, q, neW, neS))]
            if run and maxq > 0 and nfW > 0 and maxq - q > nfS:
                return [("no_lost_signal", "`%s`: the pool runs, the queue has %d free place(s) (maxQueueSize %d), %d producer(s) sleep "
                         "on notFull_ without having been notified and only %d notified producer(s) are on their way: a wake-up "
                         "was lost" % (l, maxq - q, maxq, nfW, nfS))]
            continue
        m = re.match(r"# call T(\d+) run (\d+)$", l)
        if m:
            in_call[int(m.group(1))] = int(m.group(2))
            if stopflag:
                called_after_stop.add(int(m.group(2)))
            continue
        if l.startswith("#"):
            continue
        if l == "done" or l.startswith("blocked"):
            ended = l
            continue
        m = re.match(r"T(\d+) exec (\d+)$", l)
        if m:
            t, tid = int(m.group(1)), int(m.group(2))
            if tid in execd:
                return [("at_most_once", "`%s`: task %d is executed a second time" % (l, tid))]
            if nthreads == 0:
                if in_call.get(t) != tid:
                    return [("inline", "`%s`: a pool without threads must run the task inside the caller's run()" % l)]
                execd.append(tid)
                continue
            if not 1 <= t <= nthreads:
                return [("on_pool_thread", "`%s`: T%d is not a pool thread (the pool has %d)" % (l, t, nthreads))]
            if t in in_task:
                return [("trace", "`%s`: T%d is still inside task %d" % (l, t, in_task[t]))]
            if stop_returned:
                return [("quiet_after_stop", "`%s`: a task starts after stop() has returned" % l)]
            if tid in called_after_stop:
                return [("quiet_after_stop", "`%s`: run(%d) was called after stop() cleared the flag" % (l, tid))]
            k = len(execd)
            if k >= len(accepted) or accepted[k] != tid:
                return [("fifo_takeup", "`%s`: tasks accepted in the order %s, started so far %s" % (l, accepted, execd))]
            execd.append(tid)
            if tid in waits:
                in_task[t] = tid
            elif tid in opens:
                gate_open = True
            continue
        m = re.match(r"T(\d+) pass (\d+)$", l)
        if m:
            t, tid = int(m.group(1)), int(m.group(2))
            if in_task.get(t) != tid:
                return [("trace", "`%s`: T%d is not inside task %d" % (l, t, tid))]
            if not gate_open:
                return [("trace", "`%s`: the gate has not been opened" % l)]
            del in_task[t]
            continue
        m = re.match(r"T(\d+) (run|stop|open)(?: (\d+))? -> ok$", l)
        if not m:
            return [("trace", "unreadable event line `%s`" % l)]
        t, op, arg = int(m.group(1)), m.group(2), m.group(3)
        if t not in done or done[t] >= len(case.threads[t - first]):
            return [("trace", "`%s`: thread T%d has no such operation left" % (l, t))]
        want = case.threads[t - first][done[t]]
        if want != (op if arg is None else op + " " + arg):
            return [("program_order", "`%s`: the next operation of T%d is `%s`" % (l, t, want))]
        done[t] += 1
        if op == "run":
            tid = int(arg)
            in_call.pop(t, None)
            if nthreads == 0:
                if tid not in execd:
                    return [("inline", "`%s`: run() on a pool without threads returned without running the task" % l)]
            elif not stopflag:
                accepted.append(tid)
                if maxq > 0 and len(accepted) - len(execd) > maxq:
                    return [("bounded", "`%s`: %d tasks are queued, maxQueueSize is %d" % (l, len(accepted) - len(execd), maxq))]
        elif op == "open":
            gate_open = True
        else:
            if not stopflag:
                return [("trace", "`%s` without the flag having been cleared" % l)]
            stop_returned = True
    if ended is None:
        return [("crash", "the run produced neither `done` nor `blocked`")]
    queued = accepted[len(execd):] if nthreads > 0 else []
    if ended == "done":
        for t, n in done.items():
            if n != len(case.threads[t - first]):
                return [("trace", "`done` although T%d completed %d of %d operations" % (t, n, len(case.threads[t - first])))]
        if in_task:
            return [("trace", "`done` although %s never left their waiting tasks" % sorted(in_task))]
        if nthreads > 0:
            if queued and not stopflag:
                return [("exactly_once", "tasks %s were accepted and never started although stop() was not called" % queued)]
            if final is not None and final > len(queued) and stopflag:
                return [("quiet_after_stop", "queueSize() is %d at the end although only %s were accepted before stop() cleared the "
                         "flag (started: %s): a run() enqueued a task after the flag was cleared" % (final, accepted, execd))]
            if final is not None and final != len(queued):
                return [("exactly_once", "queueSize() is %d at the end; accepted %s, started %s" % (final, accepted, execd))]
        return []
    st = parse_blocked(ended)
    # workers inside a waiting task (scheduler state `poll`): legitimate only while the gate is closed
    gated = set()
    for t in sorted(st):
        if t > 0 and st[t][0] == "poll":
            if not (1 <= t <= nthreads and t in in_task):
                return [("nobody_stuck", "T%d is left in poll although it is not inside a waiting task: `%s`" % (t, ended))]
            if gate_open:
                return [("nobody_stuck", "T%d is left inside waiting task %d although the gate is open: `%s`" % (t, in_task[t], ended))]
            gated.add(t)
    all_gated = nthreads > 0 and len(gated) == nthreads
    if stopflag:
        for t in sorted(st):
            if t <= 0 or st[t][0] == "fin" or t in gated:
                continue
            s_, obj, label = st[t]
            if s_ == "join" and label == "stop" and re.match(r"T\d+$", obj) and int(obj[1:]) in gated:
                continue
            return [("stop_returns", "stop() has cleared the flag and yet no thread can run; T%d is left in %s(%s)[%s]: `%s`"
                     % (t, s_, obj, label, ended))]
        return []
    for t in sorted(st):
        if t <= 0:
            continue
        s_, obj, label = st[t]
        if s_ == "fin" or t in gated:
            continue
        what = "T%d is left in %s(%s)[%s]" % (t, s_, obj, label)
        if s_ == "wait" and obj == "notEmpty" and 1 <= t <= nthreads:
            if queued:
                return [("nobody_stuck", "%s although tasks %s are queued: `%s`" % (what, queued, ended))]
        elif s_ == "wait" and obj == "notFull" and label == "run" and t >= first and maxq > 0 and len(queued) >= maxq and all_gated:
            pass    # the queue is full and every worker is inside a waiting task: the program's own deadlock
        else:
            return [("nobody_stuck", "%s in a state where no thread can run: `%s`" % (what, ended))]
    if queued and not all_gated:
        return [("exactly_once", "tasks %s are queued, the pool runs, and no thread can run: `%s`" % (queued, ended))]
    return []


# ----------------------------------------------------------------------------------------- running
class Runner:
    """differential run + oracle for batches of cases"""

    def __init__(self, ctx, prop, oracle):
        self.ctx, self.prop, self.oracle = ctx, prop, oracle
        self.searching = False     # inside search_from_divergence: oracle only, no model comparison

    def run(self, exe, cases, compare=True, timeout=900):
        """returns per case: (impl blocks of its schedule lines, model blocks or None)"""
        lines = []
        spans = []
        for c in cases:
            ls = c.lines()
            nsched = len(c.schedules)
            spans.append((len(lines) + len(ls) - nsched, nsched, len(lines), len(ls)))
            lines += ls
        big = Case(ENGINE, lines)
        impl, err = self.ctx.run_impl(exe, big, timeout=timeout)
        model = None
        if compare and self.ctx.model_ok:
            model = self.ctx.run_model(big, impl, timeout=timeout)
        res = []
        for (s0, n, l0, ln), c in zip(spans, cases):
            ib = impl[s0:s0 + n] if len(impl) >= s0 + n else None
            mb = model[s0:s0 + n] if model is not None and len(model) >= s0 + n else None
            bad = [b for b in (impl[l0:s0] if len(impl) >= s0 else []) if b and b != []]
            res.append((ib, mb, bad))
        return res

    def judge(self, exe, cases, compare=True):
        """run, evaluate the oracle on every schedule run, compare with the model; records evidence and
        reports (after shrinking) the first failure / mismatch of the batch.  Returns the per-case impl blocks."""
        ctx = self.ctx
        out = self.run(exe, cases, compare and not self.searching)
        for c, (ib, mb, bad) in zip(cases, out):
            if ctx.stop():
                break
            if ib is None:
                ctx.oracle_failures.append((Case(ENGINE, c.lines(), c.origin), "crash", "the implementation driver produced no output for the case"))
                continue
            if bad:
                ctx.mismatches.append((Case(ENGINE, c.lines(), c.origin), "the implementation driver rejected an input line: %r" % bad[0]))
                continue
            for i, blk in enumerate(ib):
                fails = self.oracle(c, blk)
                dec = parse_dec(blk) or []
                ended = next((l for l in blk if l == "done" or l.startswith("blocked")), "")
                ctx.count("runs")
                ctx.count("end:" + ("blocked" if ended.startswith("blocked") else ended or "none"))
                ctx.count("object:" + c.kind())
                if c.spurious:
                    ctx.count("spurious_runs")
                if c.waits or c.opens:
                    ctx.count("dependent_task_runs")
                    if "poll" in ended:
                        ctx.count("end:blocked_inside_waiting_task")
                one = c.with_schedules([c.schedules[i]])
                ctx.record(Case(ENGINE, one.lines()), [blk], nontrivial=bool(dec) or ended.startswith("blocked"),
                           sample={"case": one.lines(), "trace": [l for l in blk if not l.startswith("#")][:12]})
                if fails:
                    kind, desc = fails[0]
                    small = self.shrink(exe, one, lambda cc, bb: any(f[0] == kind for f in self.oracle(cc, bb)))
                    sb = self.run(exe, [small], compare=False)[0][0]
                    f2 = self.oracle(small, sb[0]) if sb else fails
                    ctx.oracle_failures.append((Case(ENGINE, small.lines(), c.origin), kind, (f2 or fails)[0][1]))
                    break
                if mb is not None:
                    a, b = ctx.observable(blk), ctx.observable(mb[i])
                    if a != b:
                        def differs(cc, bb):
                            r = self.run(exe, [cc], compare=True)[0]
                            return r[1] is not None and ctx.observable(r[0][0]) != ctx.observable(r[1][0])
                        small = self.shrink(exe, one, None, differs)
                        r = self.run(exe, [small], compare=True)[0]
                        # model and implementation disagree while the oracle accepts this run: look for a schedule of
                        # the diverging program on which the implementation itself violates the property (DESIGN 2.5)
                        if self.search_from_divergence(exe, [small, one]):
                            break
                        ctx.mismatches.append((Case(ENGINE, small.lines(), c.origin),
                                               "implementation %r, model %r" % (ctx.observable(r[0][0]), ctx.observable(r[1][0]) if r[1] else None)))
                        break
        return out

    def search_from_divergence(self, exe, cases, bound=1, limit=1500, nrandom=300):
        """`cases` (one schedule each) make the model and the implementation differ without an oracle failure.  Search
        the schedules of the same programs - and, for a pool, of the programs without stop(), which would release
        whoever is stuck - for a run that fails the oracle: the given schedules first, then every schedule within
        `bound` preemptions, then random ones.  True when a concrete failing input was reported."""
        if self.searching:
            return False
        ctx = self.ctx
        before = len(ctx.oracle_failures)
        self.searching = True
        try:
            variants, seen = [], set()
            for c in cases:
                vs = [c]
                if c.kind() == "pool" and any("stop" in ops for ops in c.threads):
                    th = [[op for op in ops if op != "stop"] for ops in c.threads]
                    while th and not th[-1]:
                        th.pop()
                    if th:
                        vs.append(c.clone(threads=th))
                for v in vs:
                    key = (v.obj, tuple(tuple(t) for t in v.threads), v.spurious, tuple(v.waits), tuple(v.opens))
                    if key not in seen:
                        seen.add(key)
                        variants.append(v)
            for v in variants:
                v.origin = "search:schedules-of-the-diverging-program"
                ctx.count("divergence_searches")
                self.judge(exe, [v], compare=False)
                if len(ctx.oracle_failures) > before:
                    return True
                self.explore(exe, v.with_schedules([]), bound, limit)
                if len(ctx.oracle_failures) > before:
                    return True
                scheds = [random_schedule(ctx.rng, ctx.rng.randint(1, 40), ctx.rng.random() < 0.5) for _ in range(nrandom)]
                self.judge(exe, [v.with_schedules(scheds)], compare=False)
                if len(ctx.oracle_failures) > before:
                    return True
            return False
        finally:
            self.searching = False

    def shrink(self, exe, case, bad_trace=None, bad_case=None):
        """delta debugging on the operations of all threads, then on the schedule; the failure kind must persist"""
        def still(c):
            if not c.threads or not any(c.threads):
                return False
            if bad_case is not None:
                return bad_case(c, None)
            r = self.run(exe, [c], compare=False)[0]
            return bool(r[0]) and not r[2] and bad_trace(c, r[0][0])

        if not still(case):
            return case
        cur = case
        # 1. operations, as (thread, op) tokens; empty threads at the end are dropped, inner ones kept (numbering!)
        toks = [(i, op) for i, ops in enumerate(cur.threads) for op in ops]

        def build(ts, sched):
            n = max([i for i, _ in ts], default=-1) + 1
            th = [[op for j, op in ts if j == i] for i in range(n)]
            return cur.clone(threads=th, schedules=[sched])
        toks = ddmin(toks, lambda ts: still(build(ts, cur.schedules[0])), budget=120)
        cur = build(toks, cur.schedules[0])
        # 1b. task kinds: a waiting / opening task that need not be one
        for field in ("waits", "opens"):
            for x in list(getattr(cur, field)):
                trial = cur.clone(**{field: [y for y in getattr(cur, field) if y != x]})
                if still(trial):
                    cur = trial
        # 2. the schedule: drop entries, then zero them
        sched = ddmin(list(cur.schedules[0]), lambda sc: still(build(toks, sc)), budget=80) if len(cur.schedules[0]) >= 2 else cur.schedules[0]
        if len(sched) == 1 and still(build(toks, [])):
            sched = []
        for i in range(len(sched)):
            if sched[i] != 0:
                trial = sched[:i] + [0] + sched[i + 1:]
                if still(build(toks, trial)):
                    sched = trial
        while sched and sched[-1] == 0:
            sched = sched[:-1]
        cur = build(toks, sched)
        if cur.spurious:
            trial = cur.clone(spurious=False)
            if still(trial):
                cur = trial
        return cur

    # ---- systematic schedules
    def explore(self, exe, case, bound, limit):
        """all schedules of `case` with at most `bound` preemptions (for a case with spurious wake-ups: at most
        `bound` non-default scheduling decisions), the decision lists taken from the implementation's own
        `# dec` line; breadth first, at most `limit` runs.  Returns (runs, complete)."""
        seen = set()
        frontier = [[]]
        runs = 0
        complete = True
        while frontier and not self.ctx.stop():
            batch = []
            for s in frontier:
                key = tuple(s)
                if key not in seen:
                    seen.add(key)
                    batch.append(s)
            if runs + len(batch) > limit:
                batch = batch[:max(0, limit - runs)]
                complete = False
            if not batch:
                break
            frontier = []
            for i in range(0, len(batch), 400):
                part = batch[i:i + 400]
                out = self.judge(exe, [case.with_schedules(part)])
                runs += len(part)
                ib = out[0][0]
                if ib is None:
                    return runs, False
                for s, blk in zip(part, ib):
                    dec = parse_dec(blk)
                    if dec is None:
                        continue
                    choices = [d[2] for d in dec]
                    # alternatives only at positions not fixed by the prefix that produced this run
                    for pos in range(len(s), len(dec)):
                        k, n, c, cur = dec[pos]
                        for alt in range(n):
                            if alt == c:
                                continue
                            cand = choices[:pos] + [alt]
                            pre = preemptions(dec[:pos], case.spurious) + (1 if (k == "s" and (cur or case.spurious) and alt != 0) else 0)
                            if pre <= bound:
                                frontier.append(cand)
                if self.ctx.stop():
                    break
        return runs, complete and not frontier
