"""setup (after a fresh restore) and the guard-off baseline"""
import os
import sys

from . import build, extract, leanside
from .common import BUILD, LEAN, REPO, VERIF, log, sh


def setup():
    os.makedirs(BUILD, exist_ok=True)
    res = extract.generate(extract.ENGINES.all())
    for k, v in res.items():
        if v is not None:
            log("setup: extraction of %s failed: %s" % (k, v))
    ok, text = leanside.lake_build([])
    if not ok:
        log(leanside.first_errors(text))
        log("setup: lake build failed (checks will report it per property)")
    try:
        build.muduo_lib("dbg")
    except build.BuildError as ex:
        log("setup: %s\n%s" % (ex.what, ex.output))
    print("setup done")
    return 0


def baseline_off():
    """configure + build + ctest of /repo WITHOUT the guard, in a scratch build directory"""
    bdir = os.path.join(BUILD, "baseline-off")
    os.makedirs(bdir, exist_ok=True)
    rc, o, e = sh(["cmake", "-G", "Ninja", "-S", REPO, "-B", bdir, "-DCMAKE_BUILD_TYPE=RelWithDebInfo"], timeout=600)
    if rc != 0:
        print(o + e)
        return 1
    rc, o, e = sh(["cmake", "--build", bdir, "-j", "16"], timeout=3600)
    if rc != 0:
        print((o + e)[-5000:])
        return 1
    rc, o, e = sh(["ctest", "--test-dir", bdir, "-j8", "--timeout", "900"], timeout=7200)
    print(o[-3000:])
    return rc
