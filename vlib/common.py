"""Shared plumbing of the check orchestrator: paths, subprocesses, locks, results."""
import contextlib
import fcntl
import hashlib
import json
import os
import random
import subprocess
import sys
import time

VERIF = os.path.dirname(os.path.dirname(os.path.abspath(__file__)))
REPO = os.environ.get("VERIF_REPO", "/repo")
LEAN = os.path.join(VERIF, "lean")
BUILD = os.path.join(VERIF, ".build")
if REPO != "/repo":
    # a scratch copy of the repository (mutation experiments): keep its objects apart
    BUILD = os.path.join(VERIF, ".build", "alt-" + hashlib.sha256(REPO.encode()).hexdigest()[:10])
HARNESS = os.path.join(VERIF, "harness")
EVIDENCE = os.path.join(VERIF, "evidence")
REPLAYS = os.path.join(VERIF, "replays")
CORPUS = os.path.join(VERIF, "corpus")
if REPO != "/repo":
    EVIDENCE = os.path.join(BUILD, "evidence")
    REPLAYS = os.path.join(BUILD, "replays")
GUARD = "MUDUO_VERIF"
NCPU = os.cpu_count() or 4

ALLOWED_AXIOMS = {"propext", "Classical.choice", "Quot.sound"}


def log(msg):
    sys.stderr.write(msg + "\n")
    sys.stderr.flush()


def sh(cmd, cwd=None, inp=None, timeout=None, env=None):
    """run a command, return (rc, stdout, stderr); never raises on non-zero exit"""
    e = dict(os.environ)
    if env:
        e.update(env)
    try:
        p = subprocess.run(cmd, cwd=cwd, input=inp, stdout=subprocess.PIPE, stderr=subprocess.PIPE,
                           timeout=timeout, env=e, text=isinstance(inp, str) or inp is None)
        return p.returncode, p.stdout, p.stderr
    except subprocess.TimeoutExpired as ex:
        out = ex.stdout or ""
        err = ex.stderr or ""
        if isinstance(out, bytes):
            out = out.decode("utf-8", "replace")
        if isinstance(err, bytes):
            err = err.decode("utf-8", "replace")
        return 124, out, err + "\n[timeout after %ss]" % timeout


@contextlib.contextmanager
def flock(name):
    os.makedirs(BUILD, exist_ok=True)
    path = os.path.join(BUILD, name + ".lock")
    if name in ("lake", "extract", "leanphase"):
        # the Lean project and its Generated/ files are shared by runs against /repo and against scratch copies
        # (VERIF_REPO): one lock for all of them.  Never wrap ./check in `flock` on this file (self-deadlock).
        os.makedirs(os.path.join(VERIF, ".build"), exist_ok=True)
        path = os.path.join(VERIF, ".build", name + ".lock")
    with open(path, "w") as f:
        fcntl.flock(f, fcntl.LOCK_EX)
        try:
            yield
        finally:
            fcntl.flock(f, fcntl.LOCK_UN)


def write_if_changed(path, content):
    old = None
    if os.path.exists(path):
        with open(path) as f:
            old = f.read()
    if old != content:
        os.makedirs(os.path.dirname(path), exist_ok=True)
        with open(path, "w") as f:
            f.write(content)
        return True
    return False


def sha(s):
    if isinstance(s, str):
        s = s.encode()
    return hashlib.sha256(s).hexdigest()


def seed_from_env():
    try:
        return int(os.environ.get("VERIF_SEED", "1"))
    except ValueError:
        return 1


class Rng(random.Random):
    """one PRNG per check run; every random choice derives from VERIF_SEED"""
    pass


class Violation(Exception):
    def __init__(self, prop, replay, note=""):
        self.prop, self.replay, self.note = prop, replay, note


def write_replay(prop, tag, text):
    os.makedirs(REPLAYS, exist_ok=True)
    h = sha(text)[:12]
    path = os.path.join(REPLAYS, "%s-%s-%s.txt" % (prop, tag, h))
    with open(path, "w") as f:
        f.write(text)
    return os.path.relpath(path, VERIF)


def load_known():
    """known_findings/*.json, committed, never written at run time.
    {"findings": [{"property","signature","what"}], "fixed": ["fixed: property=Cxx <commit> <what failed>"]}"""
    import glob
    res = {"findings": [], "fixed": []}
    for p in sorted(glob.glob(os.path.join(VERIF, "known_findings", "*.json"))):
        with open(p) as f:
            d = json.load(f)
        res["findings"] += d.get("findings", [])
        res["fixed"] += d.get("fixed", [])
    return res


class Timer:
    def __init__(self):
        self.t0 = time.time()

    def s(self):
        return round(time.time() - self.t0, 2)
