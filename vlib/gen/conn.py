"""T1 for TcpConnection (+ Channel::handleEventWithGuard): state enum, every branch guard of the
send / write / read / close paths, the dispatch masks."""
import re

from ..extract import (HEADER, ExtractError, Tr, ast_dump, body_of, find_ifs, if_cond, kids, locate_if, mentions, functions,
                       prop_def, strip, the_function, unparen, walk)

NAME = "Conn"

# clang node id of an `if` condition -> name of the guard generated from it; CAS: the conditions that are a
# compare-and-swap gate on `state_` (-> the state they store).  Filled by `generate()`; read by vlib/gen/connskel.py,
# which names the branches of its statement skeletons after the guards located here.
SITES = {}
CAS = {}

POLL = {"POLLIN": 1, "POLLPRI": 2, "POLLOUT": 4, "POLLERR": 8, "POLLHUP": 16, "POLLNVAL": 32, "POLLRDHUP": 8192}


def find_ifs_in(node):
    """the `if` statements strictly inside `node`"""
    return [n for n in walk(node) if n.get("kind") == "IfStmt" and n is not node]


def enum_order(docs, name):
    for d in docs:
        for n in walk(d):
            if n.get("kind") == "EnumDecl" and n.get("name") == name:
                return [c["name"] for c in kids(n) if c.get("kind") == "EnumConstantDecl"]
    raise ExtractError("enum %s not found" % name)


def generate():
    SITES.clear()
    CAS.clear()
    docs = ast_dump("muduo/net/TcpConnection.cc", "muduo::net::TcpConnection")
    out = [HEADER % "muduo/net/TcpConnection.cc, TcpConnection.h, Channel.cc", "namespace MuduoVerif.Gen.Conn\n"]
    states = enum_order(docs, "StateE")
    if sorted(states) != sorted(["kDisconnected", "kConnecting", "kConnected", "kDisconnecting"]):
        raise ExtractError("StateE changed: %s" % states)
    out.append("/-- `TcpConnection::StateE`, in declaration order -/\ninductive StateE\n" +
               "\n".join("  | %s" % s for s in states) + "\nderiving DecidableEq, Repr\n")
    consts = {s: "StateE." + s for s in states}
    fb = "writeCompleteCallback_.operator bool()"
    hb = "highWaterMarkCallback_.operator bool()"

    def guard(fn, name, params, sym, doc, *locate, index=0, cond=None):
        t = Tr(sym, consts)
        c = cond if cond is not None else if_cond(locate_if(fn, *locate, index=index))
        out.append(prop_def(name, params, unparen(t.expr(c)), doc))
        SITES[c.get("id")] = name

    ST = ("st", "StateE")
    # send(StringPiece) / send(Buffer*): the state test
    for f in [f for d in docs for f in walk(d) if f.get("kind") == "CXXMethodDecl" and f.get("name") == "send" and body_of(f)]:
        ifs = [i for i in find_ifs(f) if mentions(if_cond(i), "state_")]
        if not ifs:
            continue  # send(const void*, int) forwards
        ptypes = [k.get("type", {}).get("qualType", "") for k in kids(f) if k["kind"] == "ParmVarDecl"]
        nm = "sendAcceptsBuf" if any("Buffer" in p for p in ptypes) else "sendAcceptsPiece"
        guard(f, nm, [ST], {"state_": "st"}, "`TcpConnection::send(%s)`: the state test" % ", ".join(ptypes),
              cond=if_cond(ifs[0]))
    sil = the_function(docs, "sendInLoop", nparams=2)
    guard(sil, "sendGivesUp", [ST], {"state_": "st"}, "`sendInLoop`: give up writing", "state_")
    guard(sil, "directWrite", [("isWriting", "Bool"), ("readable", "Nat")],
          {"channel_.isWriting()": "isWriting", "outputBuffer_.readableBytes()": "readable"},
          "`sendInLoop`: nothing queued, try writing directly", "outputBuffer_", "channel_")
    guard(sil, "directWriteOk", [("nwrote", "Int")], {"nwrote": "nwrote"}, "`sendInLoop`: `if (nwrote >= 0)`", "nwrote")
    guard(sil, "sendWholeWC", [("remaining", "Nat"), ("hasWC", "Bool")], {"remaining": "remaining", fb: "hasWC"},
          "`sendInLoop`: whole block taken and a write-complete callback is set", "remaining", "writeCompleteCallback_")
    # errno tests
    eifs = [i for i in find_ifs(sil) if mentions(if_cond(i), "__errno_location")]
    if len(eifs) != 2:
        raise ExtractError("sendInLoop: expected two errno tests, found %d" % len(eifs))
    guard(sil, "writeErrLogged", [("errno", "Nat")], {"__errno_location()": "errno"}, "`sendInLoop`: error other than EWOULDBLOCK", cond=if_cond(eifs[0]))
    guard(sil, "writeErrFatal", [("errno", "Nat")], {"__errno_location()": "errno"}, "`sendInLoop`: EPIPE / ECONNRESET", cond=if_cond(eifs[1]))
    guard(sil, "queueRest", [("faultError", "Bool"), ("remaining", "Nat")], {"faultError": "faultError", "remaining": "remaining"},
          "`sendInLoop`: queue what was not written", "faultError", "remaining")
    guard(sil, "hwmCross", [("oldLen", "Nat"), ("remaining", "Nat"), ("mark", "Nat"), ("hasHWM", "Bool")],
          {"oldLen": "oldLen", "remaining": "remaining", "highWaterMark_": "mark", hb: "hasHWM"},
          "`sendInLoop`: the high-water-mark crossing test", "highWaterMark_")
    ifs = [i for i in find_ifs(sil) if mentions(if_cond(i), "isWriting") and not mentions(if_cond(i), "outputBuffer_")]
    if not ifs:
        raise ExtractError("sendInLoop: no `if (!channel_->isWriting())` before enableWriting")
    guard(sil, "sendEnablesWriting", [("isWriting", "Bool")], {"channel_.isWriting()": "isWriting"},
          "`sendInLoop`: enable write interest", cond=if_cond(ifs[-1]))


    def cas_call(n):
        """(`state_.compare_exchange_*`, first-argument variable name, new-state enumerator) or None"""
        n = strip(n)
        if n.get("kind") != "CXXMemberCallExpr" or not kids(n):
            return None
        callee = strip(kids(n)[0])
        if callee.get("kind") != "MemberExpr" or callee.get("name") not in ("compare_exchange_strong", "compare_exchange_weak"):
            return None
        if not mentions(callee, "state_"):
            return None
        args = kids(n)[1:]
        if len(args) < 2:
            raise ExtractError("compare_exchange on state_: unexpected arguments")
        a0 = [x for x in walk(args[0]) if x.get("kind") == "DeclRefExpr"]
        a1 = [x for x in walk(args[1]) if x.get("kind") == "DeclRefExpr" and x.get("referencedDecl", {}).get("kind") == "EnumConstantDecl"]
        if len(a0) != 1 or len(a1) != 1:
            raise ExtractError("compare_exchange on state_: cannot read the expected/desired arguments")
        return a0[0]["referencedDecl"]["name"], a1[0]["referencedDecl"]["name"]

    def state_gate(fn, name, doc):
        """the test that lets `shutdown()` / `forceClose()` / `forceCloseWithDelay()` proceed, in any of the forms
          if (state_ == A [|| state_ == B]) { setState(kDisconnecting); … }           (test, then store)
          StateE e = A; if (state_.compare_exchange_strong(e, kDisconnecting)) { … }   (one atomic step)
          if (helper()) { … }  with  helper: s = state_; while (s == A || s == B) if (state_.compare_exchange_weak(s, kDisconnecting)) return true; return false;
        translated to the set of states in which the call is accepted; the new state must be kDisconnecting (the
        model writes it).  Also says whether test and store are one atomic step."""
        ifs = find_ifs(fn)
        for i in ifs:
            c = if_cond(i)
            cas = cas_call(c)
            if cas is not None:
                var, new = cas
                vd = [x for x in walk(body_of(fn)) if x.get("kind") == "VarDecl" and x.get("name") == var]
                if len(vd) != 1:
                    raise ExtractError("%s: cannot find the declaration of `%s`" % (name, var))
                init = [x for x in walk(vd[0]) if x.get("kind") == "DeclRefExpr" and x.get("referencedDecl", {}).get("kind") == "EnumConstantDecl"]
                if len(init) != 1:
                    raise ExtractError("%s: `%s` is not initialised with one state" % (name, var))
                if new != "kDisconnecting":
                    raise ExtractError("%s: the new state is %s, the model writes kDisconnecting" % (name, new))
                out.append(prop_def(name, [ST], "st = StateE.%s" % init[0]["referencedDecl"]["name"], doc + " (compare-and-swap)"))
                SITES[c.get("id")] = name
                CAS[c.get("id")] = new
                return True
            cs = strip(c)
            if cs.get("kind") == "CXXMemberCallExpr" and kids(cs) and strip(kids(cs)[0]).get("kind") == "MemberExpr" \
                    and len(kids(cs)) == 1 and not mentions(cs, "state_"):
                hname = strip(kids(cs)[0]).get("name")
                helpers = functions(docs, hname)
                helpers = [h for h in helpers if body_of(h)]
                if len(helpers) != 1:
                    continue
                h = helpers[0]
                whiles = [x for x in walk(body_of(h)) if x.get("kind") == "WhileStmt"]
                if len(whiles) != 1:
                    continue
                wcond, wbody = kids(whiles[0])[0], kids(whiles[0])[-1]
                inner = [cas_call(if_cond(j)) for j in find_ifs(h) if cas_call(if_cond(j)) is not None]
                if len(inner) != 1:
                    raise ExtractError("%s: helper %s has no single compare_exchange on state_" % (name, hname))
                var, new = inner[0]
                if new != "kDisconnecting":
                    raise ExtractError("%s: the new state is %s, the model writes kDisconnecting" % (name, new))
                vd = [x for x in walk(body_of(h)) if x.get("kind") == "VarDecl" and x.get("name") == var]
                if len(vd) != 1 or not mentions(vd[0], "state_"):
                    raise ExtractError("%s: helper %s does not start from the current state" % (name, hname))
                rets = [x for x in walk(body_of(h)) if x.get("kind") == "ReturnStmt"]
                vals = [[y.get("value") for y in walk(r) if y.get("kind") == "CXXBoolLiteralExpr"] for r in rets]
                if vals != [[True], [False]]:
                    raise ExtractError("%s: helper %s: expected `return true` inside the loop and `return false` after it" % (name, hname))
                t = Tr({var: "st"}, consts)
                out.append(prop_def(name, [ST], unparen(t.expr(wcond)), doc + " (compare-and-swap loop in `%s`)" % hname))
                SITES[c.get("id")] = name
                CAS[c.get("id")] = new
                return True
        guard(fn, name, [ST], {"state_": "st"}, doc, "state_")
        return False

    sh = the_function(docs, "shutdown")
    atomic = [state_gate(sh, "shutdownAccepts", "`shutdown()`: the state test")]
    shl = the_function(docs, "shutdownInLoop")
    guard(shl, "shutdownNow", [("isWriting", "Bool")], {"channel_.isWriting()": "isWriting"},
          "`shutdownInLoop`: half-close only when not writing", "channel_")
    fc = the_function(docs, "forceClose")
    atomic.append(state_gate(fc, "forceCloseAccepts", "`forceClose()`: the state test"))
    fcd = the_function(docs, "forceCloseWithDelay")
    atomic.append(state_gate(fcd, "forceCloseDelayAccepts", "`forceCloseWithDelay()`: the state test"))
    out.append("/-- `shutdown()`, `forceClose()`, `forceCloseWithDelay()` test and set the state word in one atomic step\n"
               "(a separate test and store lets a close on the loop thread slip in between; the store then revives the connection) -/\n"
               "def gateAtomic : Bool := %s\n" % ("true" if all(atomic) else "false"))
    fcl = the_function(docs, "forceCloseInLoop")
    guard(fcl, "forceCloseInLoopActs", [ST], {"state_": "st"}, "`forceCloseInLoop()`: the state test", "state_")
    srl = the_function(docs, "startReadInLoop")
    guard(srl, "startReadActs", [ST, ("reading", "Bool"), ("isReading", "Bool")],
          {"state_": "st", "reading_": "reading", "channel_.isReading()": "isReading"}, "`startReadInLoop`", "reading_")
    spl = the_function(docs, "stopReadInLoop")
    guard(spl, "stopReadActs", [ST, ("reading", "Bool"), ("isReading", "Bool")],
          {"state_": "st", "reading_": "reading", "channel_.isReading()": "isReading"}, "`stopReadInLoop`", "reading_")
    cd = the_function(docs, "connectDestroyed")
    guard(cd, "destroyedWhileConnected", [ST], {"state_": "st"}, "`connectDestroyed`: still connected", "state_")
    hr = the_function(docs, "handleRead")
    rifs = [i for i in find_ifs(hr) if mentions(if_cond(i), "n")]
    if len(rifs) < 2:
        raise ExtractError("handleRead: expected `n > 0` and `n == 0` tests")
    guard(hr, "readGotData", [("n", "Int")], {"n": "n"}, "`handleRead`: `n > 0`", cond=if_cond(rifs[0]))
    guard(hr, "readGotEof", [("n", "Int")], {"n": "n"}, "`handleRead`: `n == 0`", cond=if_cond(rifs[1]))
    hw = the_function(docs, "handleWrite")
    guard(hw, "handleWriteActs", [("isWriting", "Bool")], {"channel_.isWriting()": "isWriting"}, "`handleWrite`: still writing", "channel_")
    wifs = [i for i in find_ifs(hw) if mentions(if_cond(i), "n") and not mentions(if_cond(i), "channel_")]
    guard(hw, "handleWriteTook", [("n", "Int")], {"n": "n"}, "`handleWrite`: `n > 0`", cond=if_cond(wifs[0]))
    guard(hw, "drained", [("readable", "Nat")], {"outputBuffer_.readableBytes()": "readable"},
          "`handleWrite`: backlog became empty", "outputBuffer_")
    guard(hw, "drainWC", [("hasWC", "Bool")], {fb: "hasWC"}, "`handleWrite`: write-complete callback set", "writeCompleteCallback_")
    guard(hw, "drainShutdown", [ST], {"state_": "st"}, "`handleWrite`: deferred half-close", "state_")
    # how each thread-safe operation hands its work to the loop: runInLoop (inline on the loop thread) or
    # queueInLoop (always behind what is already queued), and whether the functor keeps the object alive
    out.append("inductive Dispatch | run | queue\nderiving DecidableEq, Repr\n")

    out.append("/-- what a queued functor holds of the connection: the raw `this`, a reference of its own\n"
               "(`shared_from_this()` bound into it), or a weak reference that is locked when it runs -/\n"
               "inductive Hold | raw | strong | weak\nderiving DecidableEq, Repr\n")

    def hold_of(call):
        """how the functor built in this runInLoop/queueInLoop call refers to the connection"""
        def is_weak(x):
            if x.get("kind") == "DeclRefExpr" and x.get("referencedDecl", {}).get("name") == "makeWeakCallback":
                return True
            q = x.get("type", {}).get("qualType", "")
            return x.get("kind") in ("CallExpr", "CXXFunctionalCastExpr", "CXXConstructExpr", "CXXTemporaryObjectExpr") and (
                q.startswith("WeakCallback<") or q.startswith("muduo::WeakCallback<") or q.startswith("std::weak_ptr<"))
        weak = any(is_weak(x) for x in walk(call))
        shared = any(x.get("kind") == "MemberExpr" and x.get("name") == "shared_from_this" for x in walk(call))
        raw = any(x.get("kind") == "CXXThisExpr" for a in kids(call)[1:] for x in walk(a))
        if weak:
            return "weak"
        if shared:
            return "strong"
        if raw:
            return "raw"
        raise ExtractError("cannot tell what the functor of a hand-off holds of the connection")

    HOLD_TEXT = {"strong": "a reference (shared_from_this)", "raw": "the raw `this`", "weak": "a weak reference"}

    def loop_calls(node):
        return [n for n in walk(node) if n.get("kind") == "CXXMemberCallExpr" and kids(n)
                and strip(kids(n)[0]).get("kind") == "MemberExpr" and strip(kids(n)[0]).get("name") in ("runInLoop", "queueInLoop")]

    def handoff(fn, nm, which=0, unconditional=False):
        calls = loop_calls(body_of(fn))
        if len(calls) <= which:
            raise ExtractError("%s: no runInLoop/queueInLoop hand-off found" % nm)
        call = calls[which]
        if unconditional:
            # the model hands the request to the loop whatever the calling thread sees (`Conn.act`: `handOff c foreign ..`
            # with no test in front): the body must be that one call and nothing else - a test of a member in the calling
            # thread (a stale `reading_`) in front of it is not expressible, so it is not translated
            st = [k for k in kids(body_of(fn)) if k.get("kind") != "NullStmt"]
            if len(st) != 1 or strip(st[0]).get("id") != call.get("id"):
                raise ExtractError("%s: the hand-off to the loop is not the only, unconditional statement of the function "
                                   "(the model's %s() always hands over; the loop thread decides)" % (nm, nm))
        kind = strip(kids(call)[0])["name"]
        h = hold_of(call)
        out.append("/-- `%s`: hand-off through `%s`, functor holds %s -/\ndef %sDispatch : Dispatch := .%s\ndef %sHold : Hold := .%s\n"
                   "def %sHoldsRef : Bool := %s\n"
                   % (nm, kind, HOLD_TEXT[h], nm, "run" if kind == "runInLoop" else "queue", nm, h, nm, "true" if h == "strong" else "false"))
        return h == "raw"

    def notify_hold(fns, member, nm, doc):
        """the queueInLoop calls that deliver a user notification (`member` callback) - all sites must agree"""
        hs = []
        for fn in fns:
            for call in loop_calls(body_of(fn)):
                if mentions(call, member):
                    if strip(kids(call)[0])["name"] != "queueInLoop":
                        raise ExtractError("%s: the notification is not queued (runInLoop)" % nm)
                    hs.append(hold_of(call))
        if not hs:
            raise ExtractError("%s: no queueInLoop hand-off of %s found" % (nm, member))
        if len(set(hs)) != 1:
            raise ExtractError("%s: the hand-off sites of %s disagree (%s)" % (nm, member, ", ".join(hs)))
        out.append("/-- %s: queued (%d site%s), functor holds %s -/\ndef %sHold : Hold := .%s\n"
                   % (doc, len(hs), "" if len(hs) == 1 else "s", HOLD_TEXT[hs[0]], nm, hs[0]))

    sends = [f for d in docs for f in walk(d) if f.get("kind") == "CXXMethodDecl" and f.get("name") == "send" and body_of(f)
             and any(mentions(if_cond(i), "state_") for i in find_ifs(f))]
    for f in sends:
        ptypes = [k.get("type", {}).get("qualType", "") for k in kids(f) if k["kind"] == "ParmVarDecl"]
        handoff(f, "sendBuf" if any("Buffer" in p for p in ptypes) else "sendPiece")
    handoff(sh, "shutdown")
    # handleWrite's deferred half-close: called at once, or queued behind what is already pending?
    dsi = [i for i in find_ifs(hw) if mentions(if_cond(i), "state_")]
    if len(dsi) != 1:
        raise ExtractError("handleWrite: expected one test of state_ (the deferred half-close)")
    then = kids(dsi[0])[1]
    hand = [n for n in walk(then) if n.get("kind") == "CXXMemberCallExpr" and kids(n)
            and strip(kids(n)[0]).get("kind") == "MemberExpr" and strip(kids(n)[0]).get("name") in ("runInLoop", "queueInLoop")]
    direct = [n for n in walk(then) if n.get("kind") == "CXXMemberCallExpr" and kids(n)
              and strip(kids(n)[0]).get("kind") == "MemberExpr" and strip(kids(n)[0]).get("name") == "shutdownInLoop"
              and len(kids(n)) == 1]
    if len(hand) == 1 and not direct and mentions(hand[0], "shutdownInLoop"):
        kind = strip(kids(hand[0])[0])["name"]
        h = hold_of(hand[0])
        out.append("/-- `handleWrite`: the deferred half-close goes through `%s`, functor holds %s -/\ndef drainShutdownDispatch : Dispatch := .%s\n"
                   "def drainShutdownHold : Hold := .%s\ndef drainShutdownHoldsRef : Bool := %s\n"
                   % (kind, HOLD_TEXT[h], "run" if kind == "runInLoop" else "queue", h, "true" if h == "strong" else "false"))
    elif len(direct) == 1 and not hand:
        out.append("/-- `handleWrite`: the deferred half-close is a direct call of `shutdownInLoop()` -/\n"
                   "def drainShutdownDispatch : Dispatch := .run\ndef drainShutdownHold : Hold := .raw\ndef drainShutdownHoldsRef : Bool := false\n")
    else:
        raise ExtractError("handleWrite: cannot tell how the deferred half-close is performed")
    handoff(fc, "forceClose")
    # the delayed forced close: what the timer's callback holds of the connection
    ra = [n for n in walk(body_of(fcd)) if n.get("kind") == "CXXMemberCallExpr" and kids(n)
          and strip(kids(n)[0]).get("kind") == "MemberExpr" and strip(kids(n)[0]).get("name") in ("runAfter", "runAt")]
    if len(ra) != 1:
        raise ExtractError("forceCloseWithDelay: expected one runAfter/runAt call")
    h = hold_of(ra[0])
    out.append("/-- `forceCloseWithDelay`: the timer callback holds %s -/\ndef forceCloseDelayHold : Hold := .%s\n" % (HOLD_TEXT[h], h))
    notify_hold([sil, hw], "writeCompleteCallback_", "wc", "the write-complete notification (`sendInLoop`, `handleWrite`)")
    notify_hold([sil], "highWaterMarkCallback_", "hwm", "the high-water-mark notification (`sendInLoop`)")

    # how the notification functor takes the user's callback: a copy made when the functor is bound (the callback
    # installed at scheduling time is the one delivered) or a reference to the member (whatever is installed when the
    # functor RUNS is called - and an emptied member throws bad_function_call)
    out.append("/-- how a notification functor takes the user's callback member: `std::bind` copies a plain argument\n"
               "(`byValue`); `std::ref`/`std::cref`, or a lambda reading the member through `this`, refer to the member itself,\n"
               "so whatever is installed WHEN THE FUNCTOR RUNS is called (`byRef`) -/\n"
               "inductive Capture | byValue | byRef\nderiving DecidableEq, Repr\n")

    def peel(x):
        while True:
            k = x.get("kind")
            if k in ("MaterializeTemporaryExpr", "ImplicitCastExpr", "CXXBindTemporaryExpr", "ParenExpr", "ExprWithCleanups",
                     "CXXFunctionalCastExpr", "CXXStaticCastExpr") and len(kids(x)) == 1:
                x = kids(x)[0]
            elif k in ("CXXConstructExpr", "CXXTemporaryObjectExpr") and len(kids(x)) == 1:
                x = kids(x)[0]     # an explicit copy `Callback(member)`
            else:
                return x

    def capture_of(call, member, nm):
        """byValue / byRef for the functor built in this queueInLoop call"""
        found = []
        binds = [n for n in walk(call) if n.get("kind") == "CallExpr" and kids(n)
                 and any(x.get("kind") == "DeclRefExpr" and x.get("referencedDecl", {}).get("name") == "bind" for x in walk(kids(n)[0]))]
        for b in binds:
            for arg in kids(b)[1:]:
                if not mentions(arg, member):
                    continue
                a = peel(arg)
                if a.get("kind") == "MemberExpr" and a.get("name") == member:
                    found.append("byValue")
                elif a.get("kind") == "CallExpr" and kids(a) and any(
                        x.get("kind") == "DeclRefExpr" and x.get("referencedDecl", {}).get("name") in ("ref", "cref")
                        for x in walk(kids(a)[0])):
                    found.append("byRef")
                elif "reference_wrapper" in a.get("type", {}).get("qualType", ""):
                    found.append("byRef")
                elif a.get("kind") == "UnaryOperator" and a.get("opcode") == "&":
                    found.append("byRef")      # a pointer to the member
                else:
                    raise ExtractError("%s: cannot tell how the functor takes %s (bind argument of kind %s)" % (nm, member, a.get("kind")))
        for lam in [n for n in walk(call) if n.get("kind") == "LambdaExpr"]:
            body = [k for k in kids(lam) if k.get("kind") == "CompoundStmt"]
            if body and any(x.get("kind") == "MemberExpr" and x.get("name") == member and kids(x) and peel(kids(x)[0]).get("kind") == "CXXThisExpr"
                            for x in walk(body[0])):
                found.append("byRef")          # read through the captured `this` when the functor runs
            elif mentions(lam, member):
                inits = [x for x in walk(lam) if x.get("kind") == "VarDecl" and mentions(x, member)]
                if len(inits) == 1 and "&" not in inits[0].get("type", {}).get("qualType", ""):
                    found.append("byValue")    # init-capture that copies the member
                else:
                    raise ExtractError("%s: cannot tell how the lambda takes %s" % (nm, member))
        if len(found) != 1:
            raise ExtractError("%s: expected one place where the functor takes %s, found %d" % (nm, member, len(found)))
        return found[0]

    def bind_kind(fn, member, nm, doc):
        calls = [c for c in loop_calls(body_of(fn)) if mentions(c, member)]
        if len(calls) != 1:
            raise ExtractError("%s: expected one queued notification of %s, found %d" % (nm, member, len(calls)))
        cap = capture_of(calls[0], member, nm)
        out.append("/-- %s takes `%s` %s -/\ndef %s : Capture := .%s\n"
                   % (doc, member, "by value (a copy made when the functor is bound)" if cap == "byValue"
                      else "BY REFERENCE (the member is read when the functor runs)", nm, cap))

    bind_kind(sil, "writeCompleteCallback_", "wcBindSend", "`sendInLoop`: the write-complete functor")
    bind_kind(hw, "writeCompleteCallback_", "wcBindDrain", "`handleWrite`: the write-complete functor")
    bind_kind(sil, "highWaterMarkCallback_", "hwmBind", "`sendInLoop`: the high-water-mark functor")
    handoff(the_function(docs, "startRead"), "startRead", unconditional=True)
    handoff(the_function(docs, "stopRead"), "stopRead", unconditional=True)

    # A functor that "holds a weak reference" (above: judged at the bind site) behaves like one only if the trampoline
    # that runs it LOCKS the weak pointer, TESTS the result and only then calls - with the locked pointer.  The two
    # trampolines: the free functions notifyWriteComplete / notifyHighWaterMark of TcpConnection.cc, and
    # muduo::WeakCallback::operator() (makeWeakCallback: send from another thread, shutdown, start/stopRead, the
    # deferred half-close, the delayed forced close).  Statement order of the same functions: vlib/gen/connskel.py.
    def locks_then_calls(fn, what):
        """body == { shared_ptr p(<weak>.lock()); if (p) { <callable>(p | p.get(), ...); } } and nothing else"""
        body = body_of(fn)
        st = [k for k in kids(body) if k.get("kind") != "NullStmt"] if body else []
        if len(st) != 2 or st[0].get("kind") != "DeclStmt" or st[1].get("kind") != "IfStmt":
            return False
        vds = [k for k in kids(st[0]) if k.get("kind") == "VarDecl"]
        if len(vds) != 1 or not kids(vds[0]):
            return False
        v = vds[0]
        locks = [x for x in walk(v) if x.get("kind") == "CXXMemberCallExpr" and kids(x)
                 and strip(kids(x)[0]).get("kind") == "MemberExpr" and strip(kids(x)[0]).get("name") == "lock"]
        if len(locks) != 1 or "weak_ptr" not in kids(strip(kids(locks[0])[0]))[0].get("type", {}).get("qualType", ""):
            return False
        ik = kids(st[1])
        if len(ik) != 2 or st[1].get("hasInit") or st[1].get("hasVar"):
            return False            # an `else` branch, or a different kind of `if`
        refs = [x for x in walk(ik[0]) if x.get("kind") == "DeclRefExpr"]
        calls_in_cond = [x for x in walk(ik[0]) if x.get("kind") in ("CallExpr", "CXXOperatorCallExpr")]
        ops_in_cond = [x for x in walk(ik[0]) if x.get("kind") in ("UnaryOperator", "BinaryOperator")]
        if len(refs) != 1 or refs[0].get("referencedDecl", {}).get("id") != v.get("id") or calls_in_cond or ops_in_cond:
            return False            # the test is not `if (p)`
        then = ik[1]
        ts = [k for k in kids(then) if k.get("kind") != "NullStmt"] if then.get("kind") == "CompoundStmt" else [then]
        if len(ts) != 1:
            return False
        call = strip(ts[0])
        if call.get("kind") != "CXXOperatorCallExpr" or len(kids(call)) < 3:
            return False
        op = [x for x in walk(kids(call)[0]) if x.get("kind") == "DeclRefExpr"]
        if not op or op[0].get("referencedDecl", {}).get("name") != "operator()":
            return False
        first = kids(call)[2]
        fr = [x for x in walk(first) if x.get("kind") == "DeclRefExpr" and x.get("referencedDecl", {}).get("kind") in ("VarDecl", "ParmVarDecl")]
        if len(fr) != 1 or fr[0].get("referencedDecl", {}).get("id") != v.get("id"):
            return False            # the object handed to the callable is not the locked pointer
        fc = [x for x in walk(first) if x.get("kind") in ("CXXMemberCallExpr",) and strip(kids(x)[0]).get("name") not in ("get",)]
        return not fc

    ndocs = [ast_dump("muduo/net/TcpConnection.cc", nm) for nm in ("notifyWriteComplete", "notifyHighWaterMark")]
    nfns = []
    for nm, nd in zip(("notifyWriteComplete", "notifyHighWaterMark"), ndocs):
        fs = [f for f in functions(nd, nm) if f.get("kind") == "FunctionDecl"]
        if len(fs) != 1:
            raise ExtractError("expected exactly one definition of %s, found %d" % (nm, len(fs)))
        nfns.append(fs[0])
    nl = all(locks_then_calls(f, f["name"]) for f in nfns)
    out.append("/-- `notifyWriteComplete`, `notifyHighWaterMark` (the functions the write-complete / high-water functors run):\n"
               "`TcpConnectionPtr conn(weak.lock()); if (conn) cb(conn[, len]);` - lock, test, call with the locked pointer, and\n"
               "nothing else.  `false`: a functor that was bound with a weak pointer is treated as one that holds the raw object -/\n"
               "def notifyLocks : Bool := %s\n" % ("true" if nl else "false"))
    wdocs = ast_dump("muduo/net/TcpConnection.cc", "muduo::WeakCallback")
    insts = [m for d in wdocs for sp in walk(d) if sp.get("kind") == "ClassTemplateSpecializationDecl" and sp.get("name") == "WeakCallback"
             for m in kids(sp) if m.get("kind") == "CXXMethodDecl" and m.get("name") == "operator()" and body_of(m) is not None]
    if not insts:
        raise ExtractError("WeakCallback::operator(): no instantiation found in TcpConnection.cc")
    wl = all(locks_then_calls(m, "WeakCallback::operator()") for m in insts)
    out.append("/-- `WeakCallback::operator()` (muduo/base/WeakCallback.h, %d instantiation%s in TcpConnection.cc: what\n"
               "`makeWeakCallback(shared_from_this(), &TcpConnection::f)` runs): `std::shared_ptr<CLASS> ptr(object_.lock());\n"
               "if (ptr) function_(ptr.get(), args...);` - lock, test, call on the locked object, and nothing else -/\n"
               "def weakCallbackLocks : Bool := %s\n" % (len(insts), "" if len(insts) == 1 else "s", "true" if wl else "false"))

    # assertions that matter for the life-cycle (handleClose / connectEstablished / dtor)
    hc = the_function(docs, "handleClose")
    asserts = [n for n in walk(body_of(hc)) if n.get("kind") == "StringLiteral" and "state_" in n.get("value", "")]
    if not asserts:
        raise ExtractError("handleClose: the state assertion disappeared")
    out.append("/-- text of `handleClose`'s assertion (informational; its negation aborts in an asserts-on build) -/\n"
               "def handleCloseAssertText : String := %s\n" % asserts[0]["value"].replace("\\", "\\\\"))
    # Channel::handleEventWithGuard masks
    cdocs = ast_dump("muduo/net/Channel.cc", "muduo::net::Channel::handleEventWithGuard")
    hg = the_function(cdocs, "handleEventWithGuard")
    ifs = [i for i in find_ifs(hg) if mentions(if_cond(i), "revents_")]
    if len(ifs) != 5:
        raise ExtractError("handleEventWithGuard: expected 5 tests of revents_, found %d" % len(ifs))
    names = ["dispClose", "dispNvalLog", "dispError", "dispRead", "dispWrite"]
    cbs = {"dispClose": "closeCallback_", "dispError": "errorCallback_", "dispRead": "readCallback_", "dispWrite": "writeCallback_"}
    for nm, i in zip(names, ifs):
        t = Tr({"revents_": "revents"}, {})
        e = unparen(t.expr(if_cond(i)))
        out.append("/-- `Channel::handleEventWithGuard`: %s -/\ndef %s (revents : Nat) : Prop := %s\n"
                   "instance : Decidable (%s revents) := by unfold %s; infer_instance\n" % (nm, nm, e, nm, nm))
        SITES[if_cond(i).get("id")] = nm
        if nm in cbs:
            # the test that guards the callback itself, inside that branch: the channel's CURRENT interest
            # (an earlier callback of the same batch may have changed it) and "a callback is set"
            inner = [j for j in find_ifs_in(i) if mentions(if_cond(j), cbs[nm])]
            if len(inner) != 1:
                raise ExtractError("handleEventWithGuard: expected one test of %s inside the %s branch" % (cbs[nm], nm))
            t2 = Tr({"isNoneEvent()": "noInterest", "isReading()": "reading", "isWriting()": "writing",
                     cbs[nm] + ".operator bool()": "True"}, {})
            e2 = unparen(t2.expr(if_cond(inner[0])))
            SITES[if_cond(inner[0]).get("id")] = nm + "Sub"
            out.append("/-- `Channel::handleEventWithGuard`: the callback of the %s branch runs only if -/\n"
                       "def %sSub (noInterest reading writing : Bool) : Prop := %s\n"
                       "instance : Decidable (%sSub noInterest reading writing) := by unfold %sSub; infer_instance\n"
                       % (nm, nm, e2, nm, nm))
    out.append("end MuduoVerif.Gen.Conn\n")
    return "\n".join(out)
