"""T1 for AsyncLogging (C16, concurrent half): AsyncLogging.{h,cc} as *statement sequences*.

Every critical section and every phase of the back-end is read statement by statement from the clang AST and
rendered as a list over a fixed vocabulary of statement shapes (`Op`); Model/AsyncLog.lean *interprets* these
lists, so a dropped, added or reordered statement changes the model the theorems are checked against.  Guards and
constants (the front-end's space test, the wait test, the overload valve and its erase range, the shrink bound,
the buffer size) are translated as expressions.

A statement that is none of the recognised shapes raises ExtractError (reported as a broken tie); nothing is
guessed.  Statements without effect on the modelled state are skipped by an explicit allow-list: `assert`,
MUDUO_VERIF_POINT, `bzero()`, `reserve()`, the lock guard's declaration (must be the first statement of its
block), `latch_.countDown()`, the declarations of `output`, `newBuffer1`, `newBuffer2`, `buffersToWrite`.
"""
import re

from ..extract import (HEADER, ExtractError, Tr, ast_dump, body_of, ctype, desugared, if_cond, kids, mentions,
                       strip, the_function, unparen, walk)
from .logfile import callee_name, calls_named, nat_prop

NAME = "AsyncLog"

VOCABULARY = """/-- the statement shapes the translator recognises in `AsyncLogging` -/
inductive Op where
  /-- `currentBuffer_->append(logline, len)` -/
  | appendCur
  /-- `buffers_.push_back(std::move(currentBuffer_))` -/
  | pushCur
  /-- `buffersToWrite.push_back(std::move(currentBuffer_))` -/
  | pushCurW
  /-- `if (nextBuffer_) currentBuffer_ = std::move(nextBuffer_); else currentBuffer_.reset(new Buffer);` -/
  | curFromNextOrNew
  /-- `currentBuffer_ = std::move(nextBuffer_)` (unconditionally) -/
  | curFromNext
  /-- `currentBuffer_.reset(new Buffer)` (unconditionally) -/
  | curNew
  /-- `currentBuffer_ = std::move(newBuffer1)` -/
  | curFromNew1
  /-- `currentBuffer_ = std::move(newBuffer2)` -/
  | curFromNew2
  /-- `if (!nextBuffer_) nextBuffer_ = std::move(newBuffer2);` -/
  | refillNext
  /-- `if (!nextBuffer_) nextBuffer_ = std::move(newBuffer1);` -/
  | refillNext1
  /-- `buffersToWrite.swap(buffers_)` -/
  | swapQueue
  /-- `cond_.notify()` -/
  | notify
  /-- `if (overloaded buffersToWrite.size()) { announce; buffersToWrite.erase(begin()+dropKeep, end()); }` -/
  | valve
  /-- `for (const auto& buffer : buffersToWrite) output.append(buffer->data(), buffer->length());` -/
  | writeAll
  /-- `if (shrinkIf buffersToWrite.size()) buffersToWrite.resize(shrinkTo);` -/
  | shrink
  /-- `if (!newBuffer1) { newBuffer1 = std::move(buffersToWrite.back()); buffersToWrite.pop_back(); newBuffer1->reset(); }` -/
  | recycle1
  /-- the same for `newBuffer2` -/
  | recycle2
  /-- `buffersToWrite.clear()` -/
  | clear
  /-- `output.flush()` -/
  | flush
  /-- `running_ = true` -/
  | setRunning
  /-- `running_ = false` -/
  | clearRunning
  /-- `thread_.start()` -/
  | spawn
  /-- `latch_.wait()` -/
  | latchWait
  /-- `thread_.join()` -/
  | join
  deriving DecidableEq, Repr
"""


def where(n):
    r = n.get("range", {}).get("begin", {})
    for k in (r, r.get("expansionLoc", {}), r.get("spellingLoc", {})):
        if "line" in k:
            return " (line %d)" % k["line"]
    return ""


def ref_name(n):
    """`member_` of this / a local variable -> its name"""
    n = strip(n)
    if n.get("kind") == "MemberExpr":
        base = kids(n)
        if not base or strip(base[0]).get("kind") == "CXXThisExpr":
            return n.get("name")
        return None
    if n.get("kind") == "DeclRefExpr":
        return n["referencedDecl"]["name"]
    return None


def moved(n):
    """std::move(x) -> name of x (or `v.back()` -> 'v.back()')"""
    n = strip(n)
    if n.get("kind") == "CallExpr" and callee_name(n) == "move" and len(kids(n)) == 2:
        a = strip(kids(n)[1])
        r = ref_name(a)
        if r:
            return r
        if a.get("kind") == "CXXMemberCallExpr" and len(kids(a)) == 1:
            c = strip(kids(a)[0])
            if c.get("kind") == "MemberExpr" and c.get("name") == "back" and kids(c):
                b = ref_name(kids(c)[0])
                if b:
                    return b + ".back()"
    return None


def arrow_base(n):
    """p->m(...) on a unique_ptr: name of p"""
    n = strip(n)
    if n.get("kind") == "CXXOperatorCallExpr":
        ks = kids(n)
        op = strip(ks[0])
        if op.get("kind") == "DeclRefExpr" and op["referencedDecl"]["name"] == "operator->" and len(ks) == 2:
            return ref_name(ks[1])
    return None


def member_call(n):
    """obj.m(args) -> (obj name | '->'+ptr name, m, [args]) or None"""
    n = strip(n)
    if n.get("kind") != "CXXMemberCallExpr":
        return None
    ks = kids(n)
    c = strip(ks[0])
    if c.get("kind") != "MemberExpr" or not kids(c):
        return None
    base = strip(kids(c)[0])
    if base.get("kind") == "CXXThisExpr":
        return ("this", c.get("name"), ks[1:])
    r = ref_name(base)
    if r:
        return (r, c.get("name"), ks[1:])
    p = arrow_base(base)
    if p:
        return ("->" + p, c.get("name"), ks[1:])
    return None


def is_assert(n):
    n = strip(n)
    if n.get("kind") == "ConditionalOperator":
        return any(callee_name(c) in ("__assert_fail", "__assert_perror_fail", "__assert") for c in walk(n)
                   if c.get("kind") == "CallExpr")
    # with NDEBUG: ((void)0)
    if n.get("kind") in ("CStyleCastExpr", "CXXFunctionalCastExpr") and ctype(n) == "void":
        return True
    return False


def is_point(n):
    """MUDUO_VERIF_POINT: do { … } while (0) whose body is empty or only calls the hook"""
    if n.get("kind") != "DoStmt":
        return False
    ks = kids(n)
    if len(ks) != 2:
        return False
    c = strip(ks[1])
    zero = (c.get("kind") == "IntegerLiteral" and int(c["value"]) == 0) or (
        c.get("kind") == "ImplicitCastExpr" and kids(c) and strip(kids(c)[0]).get("kind") == "IntegerLiteral"
        and int(strip(kids(c)[0])["value"]) == 0)
    if not zero:
        return False
    for x in walk(ks[0]):
        if x.get("kind") in ("CXXMemberCallExpr", "CXXOperatorCallExpr", "BinaryOperator", "CompoundAssignOperator",
                             "UnaryOperator", "CXXNewExpr", "CXXDeleteExpr"):
            return False
        if x.get("kind") == "CallExpr" and callee_name(x) not in ("pointHook", None):
            return False
    return True


def ptr_test(cond):
    """`p` / `!p` on a unique_ptr -> ('nonnull'|'null', name)"""
    c = strip(cond)
    neg = False
    if c.get("kind") == "UnaryOperator" and c.get("opcode") == "!":
        neg = True
        c = strip(kids(c)[0])
    if c.get("kind") == "ImplicitCastExpr":
        c = strip(kids(c)[0])
    if c.get("kind") == "CXXMemberCallExpr" and len(kids(c)) == 1:
        m = strip(kids(c)[0])
        if m.get("kind") == "MemberExpr" and m.get("name") == "operator bool" and kids(m):
            r = ref_name(kids(m)[0])
            if r:
                return ("null" if neg else "nonnull", r)
    return None


def block(n):
    """statements of a branch (a compound statement or a single statement)"""
    return kids(n) if n.get("kind") == "CompoundStmt" else [n]


def is_lock_decl(n, mutex="mutex_"):
    if n.get("kind") != "DeclStmt":
        return False
    v = kids(n)
    return len(v) == 1 and v[0].get("kind") == "VarDecl" and "MutexLockGuard" in ctype(v[0]) and mentions(v[0], mutex)


class Seq:
    """classifies the statements of one region of AsyncLogging into `Op`s"""

    def __init__(self, what):
        self.what = what

    def fail(self, n, why="unrecognised statement"):
        raise ExtractError("%s: %s%s: %s" % (self.what, why, where(n), n.get("kind")))

    def simple(self, n):
        """one statement that is not an `if`/`for`; returns an op name, or None when it is skipped"""
        s = strip(n)
        if is_assert(s) or is_point(n) or n.get("kind") == "NullStmt":
            return None
        k = s.get("kind")
        if k == "CXXOperatorCallExpr":
            ks = kids(s)
            op = strip(ks[0])
            if op.get("kind") == "DeclRefExpr" and op["referencedDecl"]["name"] == "operator=" and len(ks) == 3:
                lhs, rhs = ref_name(ks[1]), moved(ks[2])
                if lhs == "running_":
                    v = strip(ks[2])
                    if v.get("kind") == "CXXBoolLiteralExpr":
                        return "setRunning" if v.get("value") else "clearRunning"
                table = {("currentBuffer_", "nextBuffer_"): "curFromNext", ("currentBuffer_", "newBuffer1"): "curFromNew1",
                         ("currentBuffer_", "newBuffer2"): "curFromNew2"}
                if (lhs, rhs) in table:
                    return table[(lhs, rhs)]
            self.fail(n, "unrecognised assignment")
        mc = member_call(s)
        if mc is not None:
            obj, m, args = mc
            if m == "push_back" and len(args) == 1 and moved(args[0]) == "currentBuffer_":
                if obj == "buffers_":
                    return "pushCur"
                if obj == "buffersToWrite":
                    return "pushCurW"
            if m == "append" and obj == "->currentBuffer_" and len(args) == 2 and mentions(args[0], "logline") and mentions(args[1], "len"):
                return "appendCur"
            if m == "reset" and obj == "currentBuffer_" and len(args) == 1 and strip(args[0]).get("kind") == "CXXNewExpr":
                return "curNew"
            if m == "swap" and len(args) == 1 and {obj, ref_name(args[0])} == {"buffersToWrite", "buffers_"}:
                return "swapQueue"
            if m == "notify" and obj == "cond_" and not args:
                return "notify"
            if m == "clear" and obj == "buffersToWrite" and not args:
                return "clear"
            if m == "flush" and obj == "output" and not args:
                return "flush"
            if m == "start" and obj == "thread_" and not args:
                return "spawn"
            if m == "join" and obj == "thread_" and not args:
                return "join"
            if m == "wait" and obj == "latch_" and not args:
                return "latchWait"
            if m in ("bzero",) and obj.startswith("->") and not args:
                return None
            if m == "reserve" and obj in ("buffersToWrite", "buffers_"):
                return None
            if m == "countDown" and obj == "latch_":
                return None
        self.fail(n)

    def ops(self, stmts, skip_decls=()):
        out = []
        for n in stmts:
            k = n.get("kind")
            if k == "DeclStmt":
                v = kids(n)
                if len(v) == 1 and v[0].get("kind") == "VarDecl" and v[0].get("name") in skip_decls:
                    continue
                self.fail(n, "unexpected declaration")
            if k == "IfStmt":
                out.append(self.if_stmt(n))
                continue
            if k == "CXXForRangeStmt":
                out.append(self.write_loop(n))
                continue
            if k == "CompoundStmt":
                self.fail(n, "unexpected nested block")
            o = self.simple(n)
            if o is not None:
                out.append(o)
        return out

    def if_stmt(self, n):
        ks = kids(n)
        cond = ks[0]
        pt = ptr_test(cond)
        if pt == ("null", "nextBuffer_") and len(ks) == 2:
            # nextBuffer_ = std::move(newBufferN)
            body = [s for s in block(ks[1]) if not (is_assert(strip(s)) or is_point(s))]
            if len(body) == 1:
                s = strip(body[0])
                if s.get("kind") == "CXXOperatorCallExpr" and len(kids(s)) == 3 and ref_name(kids(s)[1]) == "nextBuffer_":
                    src = moved(kids(s)[2])
                    if src == "newBuffer2":
                        return "refillNext"
                    if src == "newBuffer1":
                        return "refillNext1"
            self.fail(n, "unrecognised `if (!nextBuffer_)`")
        if pt == ("nonnull", "nextBuffer_") and len(ks) == 3:
            if self.ops(block(ks[1])) == ["curFromNext"] and self.ops(block(ks[2])) == ["curNew"]:
                return "curFromNextOrNew"
        self.fail(n, "unrecognised `if`")

    def write_loop(self, n):
        ks = kids(n)
        rng = [v for d in ks if d.get("kind") == "DeclStmt" for v in kids(d) if v.get("name", "").startswith("__range")]
        if len(rng) != 1 or ref_name(kids(rng[0])[-1]) != "buffersToWrite":
            self.fail(n, "range-for over something other than buffersToWrite")
        var = [v for d in ks if d.get("kind") == "DeclStmt" for v in kids(d) if not v.get("name", "").startswith("__")]
        if len(var) != 1:
            self.fail(n, "range-for: loop variable")
        vname = var[0]["name"]
        body = [s for s in block(ks[-1]) if not (is_assert(strip(s)) or is_point(s))]
        if len(body) != 1:
            self.fail(n, "range-for: expected exactly one statement in the body")
        mc = member_call(body[0])
        if mc is None or mc[0] != "output" or mc[1] != "append" or len(mc[2]) != 2:
            self.fail(n, "range-for: body is not output.append(buffer->data(), buffer->length())")
        a0, a1 = member_call(mc[2][0]), member_call(mc[2][1])
        if a0 is None or a1 is None or a0[:2] != ("->" + vname, "data") or a1[:2] != ("->" + vname, "length"):
            self.fail(n, "range-for: body is not output.append(buffer->data(), buffer->length())")
        return "writeAll"


def iter_pos(n, vec="buffersToWrite"):
    """begin()+k -> k ; end() -> 'end'"""
    n = strip(n)
    while n.get("kind") in ("CXXConstructExpr", "MaterializeTemporaryExpr", "ImplicitCastExpr", "CXXBindTemporaryExpr") and kids(n):
        n = strip(kids(n)[0])
    if n.get("kind") == "CXXMemberCallExpr" and callee_name(n) == "end" and mentions(n, vec):
        return "end"
    if n.get("kind") == "CXXMemberCallExpr" and callee_name(n) == "begin" and mentions(n, vec):
        return 0
    if n.get("kind") == "CXXOperatorCallExpr":
        ks = kids(n)
        op = strip(ks[0])
        if op.get("kind") == "DeclRefExpr" and op["referencedDecl"]["name"] == "operator+" and len(ks) == 3:
            base = iter_pos(ks[1])
            k = strip(ks[2])
            if base == 0 and k.get("kind") == "IntegerLiteral":
                return int(k["value"])
    raise ExtractError("threadFunc: erase() range is not begin()+k .. end()")


class BackSeq(Seq):
    """adds the shapes that occur outside the critical sections of threadFunc"""

    def __init__(self, what, out):
        Seq.__init__(self, what)
        self.out = out          # generated definitions (valve, shrink) are appended here, once
        self.seen = set()

    def once(self, key, n):
        if key in self.seen:
            self.fail(n, "a second `%s`" % key)
        self.seen.add(key)

    def if_stmt(self, n):
        ks = kids(n)
        cond = ks[0]
        pt = ptr_test(cond)
        if pt is not None and pt[0] == "null" and pt[1] in ("newBuffer1", "newBuffer2") and len(ks) == 2:
            return self.recycle(n, pt[1])
        if mentions(cond, "buffersToWrite") and len(ks) == 2:
            body = ks[1]
            if calls_named(body, "erase"):
                return self.valve(n)
            if calls_named(body, "resize"):
                return self.shrink(n)
        return Seq.if_stmt(self, n)

    def recycle(self, n, var):
        body = [s for s in block(kids(n)[1]) if not (is_assert(strip(s)) or is_point(s))]
        if len(body) != 3:
            self.fail(n, "recycle block of %s: expected take-back, pop_back, reset" % var)
        s0 = strip(body[0])
        ok0 = (s0.get("kind") == "CXXOperatorCallExpr" and len(kids(s0)) == 3 and ref_name(kids(s0)[1]) == var
               and moved(kids(s0)[2]) == "buffersToWrite.back()")
        m1, m2 = member_call(body[1]), member_call(body[2])
        ok1 = m1 is not None and m1[:2] == ("buffersToWrite", "pop_back") and not m1[2]
        ok2 = m2 is not None and m2[:2] == ("->" + var, "reset") and not m2[2]
        if not (ok0 and ok1 and ok2):
            self.fail(n, "recycle block of %s: expected take-back, pop_back, reset" % var)
        return "recycle1" if var == "newBuffer1" else "recycle2"

    def valve(self, n):
        self.once("valve", n)
        ks = kids(n)
        t = Tr({"buffersToWrite.size()": "n"})
        self.out.append(nat_prop("overloaded", ["n"], unparen(t.expr(if_cond(n))),
                                 "`AsyncLogging::threadFunc`: the overload valve opens iff"))
        body = ks[1]
        order = [id(x) for x in walk(body)]
        er = calls_named(body, "erase")
        if len(er) != 1 or len(kids(er[0])) != 3:
            self.fail(n, "overload valve: unexpected erase() call")
        lo, hi = iter_pos(kids(er[0])[1]), iter_pos(kids(er[0])[2])
        if hi != "end" or lo == "end":
            raise ExtractError("threadFunc: erase() range is not begin()+k .. end()")
        self.out.append("/-- `AsyncLogging::threadFunc`: the valve erases `begin()+dropKeep .. end()` -/\ndef dropKeep : Nat := %d\n" % lo)
        sn = calls_named(body, "snprintf")
        if len(sn) != 1:
            self.fail(n, "overload valve: the announcement is no longer formatted with one snprintf")
        fmt = [x for x in walk(sn[0]) if x.get("kind") == "StringLiteral"]
        if len(fmt) != 1 or "Dropped log messages at %s, %zd larger buffers" not in fmt[0].get("value", ""):
            self.fail(n, "overload valve: the text of the announcement changed")
        self.out.append("/-- `AsyncLogging::threadFunc`: the number of buffers the announcement reports -/\n"
                        "def dropAnnounce (n : Nat) : Nat := %s\n" % unparen(t.expr(kids(sn[0])[-1])))
        # the announcement: to stderr and into the log file, both before the erase
        fp = [c for c in calls_named(body, "fputs") if mentions(c, "stderr") and mentions(c, "buf")]
        ap = [c for c in calls_named(body, "append") if member_call(c) and member_call(c)[0] == "output" and mentions(c, "buf")]
        before = lambda c: order.index(id(c)) < order.index(id(er[0]))
        self.out.append("/-- `AsyncLogging::threadFunc`: the valve announces the drop on stderr (before it erases) -/\n"
                        "def valveAnnouncesStderr : Bool := %s\n" % ("true" if len(fp) == 1 and before(fp[0]) else "false"))
        self.out.append("/-- `AsyncLogging::threadFunc`: the valve writes the announcement into the log file (before it erases) -/\n"
                        "def valveAnnouncesFile : Bool := %s\n" % ("true" if len(ap) == 1 and before(ap[0]) else "false"))
        # nothing else may touch the buffers in there
        for c in walk(body):
            if c.get("kind") == "CXXMemberCallExpr":
                mc = member_call(c)
                if mc and mc[0] == "buffersToWrite" and mc[1] not in ("erase", "begin", "end", "size"):
                    self.fail(n, "overload valve: unexpected buffersToWrite.%s()" % mc[1])
        return "valve"

    def shrink(self, n):
        self.once("shrink", n)
        ks = kids(n)
        t = Tr({"buffersToWrite.size()": "n"})
        self.out.append(nat_prop("shrinkIf", ["n"], unparen(t.expr(if_cond(n))),
                                 "`AsyncLogging::threadFunc`: after the write, the vector is cut down iff"))
        body = [s for s in block(ks[1]) if not (is_assert(strip(s)) or is_point(s))]
        mc = member_call(body[0]) if len(body) == 1 else None
        if mc is None or mc[:2] != ("buffersToWrite", "resize") or len(mc[2]) != 1 or strip(mc[2][0]).get("kind") != "IntegerLiteral":
            self.fail(n, "shrink: expected buffersToWrite.resize(<literal>)")
        self.out.append("/-- `AsyncLogging::threadFunc`: … to this many buffers -/\ndef shrinkTo : Nat := %d\n" % int(strip(mc[2][0])["value"]))
        return "shrink"


def lean_list(ops):
    return "[" + ", ".join("." + o for o in ops) + "]"


def generate():
    out = [HEADER % "muduo/base/AsyncLogging.{h,cc}", "namespace MuduoVerif.Gen.AsyncLog\n", VOCABULARY]
    al = ast_dump("muduo/base/AsyncLogging.cc", "muduo::AsyncLogging")

    size = None
    for d in al:
        for n in walk(d):
            if n.get("kind") == "TypedefDecl" and n.get("name") == "Buffer":
                m = re.search(r"FixedBuffer<(\d+)>", desugared(n))
                if m:
                    size = int(m.group(1))
    if size is None:
        raise ExtractError("AsyncLogging::Buffer is no longer a FixedBuffer<N>")
    out.append("/-- `AsyncLogging::Buffer` is `FixedBuffer<asyncBufferSize>` -/\ndef asyncBufferSize : Nat := %d\n" % size)

    # ------------------------------------------------------------------ constructor: both front-end buffers exist
    ctors = [n for d in al for n in walk(d) if n.get("kind") == "CXXConstructorDecl" and body_of(n) is not None]
    if len(ctors) != 1:
        raise ExtractError("AsyncLogging: expected one constructor definition, found %d" % len(ctors))
    inits = {}
    for c in kids(ctors[0]):
        if c.get("kind") == "CXXCtorInitializer" and c.get("anyInit"):
            inits[c["anyInit"].get("name")] = c
    for f in ("currentBuffer_", "nextBuffer_"):
        if f not in inits or not [x for x in walk(inits[f]) if x.get("kind") == "CXXNewExpr"]:
            raise ExtractError("AsyncLogging::AsyncLogging: %s is no longer initialised with `new Buffer`" % f)
    if "running_" not in inits or not [x for x in walk(inits["running_"]) if x.get("kind") == "CXXBoolLiteralExpr" and not x.get("value")]:
        raise ExtractError("AsyncLogging::AsyncLogging: running_ is no longer initialised with false")
    q = Seq("AsyncLogging::AsyncLogging")
    if q.ops(kids(body_of(ctors[0]))):
        raise ExtractError("AsyncLogging::AsyncLogging: the body does more than bzero()/reserve()")

    # ------------------------------------------------------------------ append
    fa = the_function(al, "append")
    st = kids(body_of(fa))
    if len(st) != 2 or not is_lock_decl(st[0]) or st[1].get("kind") != "IfStmt":
        raise ExtractError("AsyncLogging::append: expected `MutexLockGuard lock(mutex_); if (…) … else …`")
    fits = st[1]
    if len(kids(fits)) != 3:
        raise ExtractError("AsyncLogging::append: the space test lost a branch")
    t = Tr({"currentBuffer_.avail()": "avail", "len": "len"})
    out.append(nat_prop("frontFits", ["avail", "len"], unparen(t.expr(if_cond(fits))),
                        "`AsyncLogging::append`: the record goes into the current buffer iff"))
    q = Seq("AsyncLogging::append")
    out.append("/-- `AsyncLogging::append`, under `mutex_`: the record fits -/\ndef frontThen : List Op := %s\n"
               % lean_list(q.ops(block(kids(fits)[1]))))
    out.append("/-- `AsyncLogging::append`, under `mutex_`: the record does not fit -/\ndef frontElse : List Op := %s\n"
               % lean_list(q.ops(block(kids(fits)[2]))))

    # ------------------------------------------------------------------ threadFunc
    tf = the_function(al, "threadFunc")
    top = kids(body_of(tf))
    loops = [n for n in top if n.get("kind") == "WhileStmt"]
    if len(loops) != 1:
        raise ExtractError("threadFunc: expected one top-level `while (running_)`")
    loop = loops[0]
    lc = strip(kids(loop)[0])
    guard_ok = False
    if lc.get("kind") == "ImplicitCastExpr":
        lc = strip(kids(lc)[0])
    if lc.get("kind") == "CXXMemberCallExpr" and len(kids(lc)) == 1:
        m = strip(kids(lc)[0])
        guard_ok = m.get("kind") == "MemberExpr" and m.get("name") == "operator bool" and ref_name(kids(m)[0]) == "running_"
    if not guard_ok:
        raise ExtractError("threadFunc: the loop guard is no longer exactly `running_`")
    # before the loop: locals
    pre = top[:top.index(loop)]
    locals_new = set()
    for n in pre:
        if n.get("kind") == "DeclStmt":
            for v in kids(n):
                if v.get("name") in ("newBuffer1", "newBuffer2") and [x for x in walk(v) if x.get("kind") == "CXXNewExpr"]:
                    locals_new.add(v["name"])
    if locals_new != {"newBuffer1", "newBuffer2"}:
        raise ExtractError("threadFunc: newBuffer1/newBuffer2 are no longer both created with `new Buffer` before the loop")
    b = BackSeq("AsyncLogging::threadFunc (before the loop)", out)
    if b.ops(pre, skip_decls=("output", "newBuffer1", "newBuffer2", "buffersToWrite")):
        raise ExtractError("threadFunc: statements with an effect on the buffers before the loop")
    outdecl = [v for n in pre if n.get("kind") == "DeclStmt" for v in kids(n) if v.get("name") == "output"]
    if len(outdecl) != 1 or "LogFile" not in ctype(outdecl[0]):
        raise ExtractError("threadFunc: `output` is no longer a LogFile")
    ts = [x for x in walk(outdecl[0]) if x.get("kind") == "CXXBoolLiteralExpr"]
    if len(ts) != 1 or ts[0].get("value"):
        raise ExtractError("threadFunc: `output` is no longer constructed with threadSafe = false")

    def critical(block_stmt, what):
        st = kids(block_stmt)
        if not st or not is_lock_decl(st[0]):
            raise ExtractError("%s: the block does not start with `MutexLockGuard lock(mutex_)`" % what)
        return st[1:]

    # the loop body: [asserts] { critical section } [asserts/points] write phase
    lb = BackSeq("AsyncLogging::threadFunc (loop)", out)
    body = [n for n in kids(kids(loop)[1]) if not (is_assert(strip(n)) or is_point(n))]
    if not body or body[0].get("kind") != "CompoundStmt":
        raise ExtractError("threadFunc: the loop no longer starts with the block that holds mutex_")
    cs = critical(body[0], "threadFunc (loop)")
    # first statement of the critical section: the timed wait
    if not cs or cs[0].get("kind") != "IfStmt" or len(kids(cs[0])) != 2:
        raise ExtractError("threadFunc: the critical section no longer starts with `if (buffers_.empty()) wait`")
    w = cs[0]
    wt = Tr({"buffers_.empty()": "(queued = 0)"})
    out.append(nat_prop("backWaits", ["queued"], unparen(wt.expr(if_cond(w))),
                        "`AsyncLogging::threadFunc`: the back-end waits (timed, result ignored) iff"))
    wb = [s for s in block(kids(w)[1]) if not (is_assert(strip(s)) or is_point(s))]
    mc = member_call(wb[0]) if len(wb) == 1 else None
    if mc is None or mc[:2] != ("cond_", "waitForSeconds"):
        raise ExtractError("threadFunc: the wait is no longer a single cond_.waitForSeconds(…)")
    out.append("/-- `AsyncLogging::threadFunc`, under `mutex_`, after the wait -/\ndef loopCollect : List Op := %s\n"
               % lean_list(lb.ops(cs[1:])))
    out.append("/-- `AsyncLogging::threadFunc`: the rest of one cycle, outside the lock -/\ndef loopWrite : List Op := %s\n"
               % lean_list(lb.ops(body[1:])))
    for need in ("overloaded", "shrinkIf"):
        if not any(("def %s " % need) in o for o in out):
            # keep the model compilable: a constant-false guard, and the op list shows the statement is gone
            if need == "overloaded":
                out.append(nat_prop("overloaded", ["n"], "False ∧ n = n", "`AsyncLogging::threadFunc`: there is no overload valve"))
                out.append("def dropKeep : Nat := 0\ndef dropAnnounce (n : Nat) : Nat := n\n"
                           "def valveAnnouncesStderr : Bool := false\ndef valveAnnouncesFile : Bool := false\n")
            else:
                out.append(nat_prop("shrinkIf", ["n"], "False ∧ n = n", "`AsyncLogging::threadFunc`: the vector is never cut down"))
                out.append("def shrinkTo : Nat := 0\n")

    # after the loop
    after = [n for n in top[top.index(loop) + 1:] if not (is_assert(strip(n)) or is_point(n))]
    fb = BackSeq("AsyncLogging::threadFunc (after the loop)", out)
    fb.seen = {"valve", "shrink"}    # a second valve / shrink after the loop is outside the vocabulary
    if after and after[0].get("kind") == "CompoundStmt":
        fc = fb.ops(critical(after[0], "threadFunc (after the loop)"))
        rest = after[1:]
    else:
        fc, rest = [], after
    out.append("/-- `AsyncLogging::threadFunc`: after `while (running_)`, under `mutex_` -/\ndef finalCollect : List Op := %s\n"
               % lean_list(fc))
    out.append("/-- `AsyncLogging::threadFunc`: after `while (running_)`, outside the lock, up to the end of the thread -/\n"
               "def finalWrite : List Op := %s\n" % lean_list(fb.ops(rest)))

    # ------------------------------------------------------------------ start / stop / destructor
    q = Seq("AsyncLogging::start")
    out.append("/-- `AsyncLogging::start` -/\ndef startOps : List Op := %s\n" % lean_list(q.ops(kids(body_of(the_function(al, "start"))))))
    q = Seq("AsyncLogging::stop")
    out.append("/-- `AsyncLogging::stop` -/\ndef stopOps : List Op := %s\n" % lean_list(q.ops(kids(body_of(the_function(al, "stop"))))))
    dt = [n for d in al for n in walk(d) if n.get("kind") == "CXXDestructorDecl" and body_of(n) is not None]
    if len(dt) != 1:
        raise ExtractError("AsyncLogging: expected one destructor definition")
    ds = [n for n in kids(body_of(dt[0])) if not is_assert(strip(n))]
    stops = False
    if len(ds) == 1 and ds[0].get("kind") == "IfStmt" and len(kids(ds[0])) == 2:
        c = strip(kids(ds[0])[0])
        if c.get("kind") == "ImplicitCastExpr":
            c = strip(kids(c)[0])
        running = (c.get("kind") == "CXXMemberCallExpr" and len(kids(c)) == 1 and strip(kids(c)[0]).get("name") == "operator bool"
                   and mentions(c, "running_"))
        bs = block(kids(ds[0])[1])
        mc = member_call(bs[0]) if len(bs) == 1 else None
        stops = running and mc is not None and mc[:2] == ("this", "stop")
    elif ds:
        raise ExtractError("AsyncLogging::~AsyncLogging: unrecognised body")
    out.append("/-- `AsyncLogging::~AsyncLogging`: `if (running_) stop();` -/\ndef dtorStopsIfRunning : Bool := %s\n"
               % ("true" if stops else "false"))
    out.append("end MuduoVerif.Gen.AsyncLog\n")
    return "\n".join(out)
