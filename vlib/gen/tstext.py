"""T1 for the text forms of `muduo::Timestamp` (C20: "Timestamp text forms ... agree with strftime"):
`Timestamp::toString` and `Timestamp::toFormattedString` of muduo/base/Timestamp.cc.

Extracted (lean/MuduoVerif/Generated/TsText.lean; Model/Calendar.lean CALLS every one of them):
  * the arithmetic that splits the microsecond count: the initialisers of `seconds` / `microseconds` in both functions
    (C `/` and `%` are `Int.tdiv` / `Int.tmod`; the conversions `static_cast<time_t>` / `static_cast<int>` keep the value for
    every count whose seconds fit `time_t` - `kMicroSecondsPerSecond` is the constant of Generated/Calendar.lean);
  * the `snprintf` format of each of the three calls as a list of characters, the size of the buffer it writes to, and the
    argument expressions in order (canonical print; `tm_time.tm_year + 1900` ... are what `gmtime_r` delivered);
  * the test that selects the format with microseconds.
The model renders a format generically (`%[0][width](d|ld)` and literal characters), so a changed width, a dropped `0`
flag, a changed separator or argument order changes the model's text; Model/TsTextDecl.lean declares the values the
theorems were proved for and Proofs/TsTextTie.lean proves `Gen.TsText.x = Decl.x`.

Never guesses: another statement shape (a different number of snprintf calls, arguments that are not the locals / the
`tm_time` fields, a format with a conversion other than `%[0][width]d` / `ld`) raises ExtractError.
"""
from ..extract import HEADER, ExtractError, Tr, ast_dump, body_of, find_ifs, if_cond, kids, strip, the_function, walk

NAME = "TsText"
TU = "muduo/base/Timestamp.cc"


def chars(s):
    return "[" + ", ".join("'%s'" % c if c not in "'\\" else "'\\%s'" % c for c in s) + "]"


def literal(n):
    lits = [x for x in walk(n) if x.get("kind") == "StringLiteral"]
    if len(lits) != 1:
        raise ExtractError("expected one string literal as snprintf format")
    v = lits[0]["value"]
    if not (v.startswith('"') and v.endswith('"')) or "\\" in v:
        raise ExtractError("format %s has an escape the translator does not decode" % v)
    s = v[1:-1]
    # only %[0][width]d / ld conversions
    i = 0
    while i < len(s):
        if s[i] == "%":
            j = i + 1
            while j < len(s) and s[j].isdigit():
                j += 1
            if s[j:j + 2] == "ld":
                j += 2
            elif s[j:j + 1] == "d":
                j += 1
            else:
                raise ExtractError("format `%s`: conversion at %d is not %%[0][width]d / ld" % (s, i))
            i = j
        else:
            i += 1
    return s


def pp(n):
    """canonical print of an snprintf argument: a local, or `tm_time.field [+ literal]`"""
    n = strip(n)
    k = n.get("kind")
    if k == "DeclRefExpr":
        return n["referencedDecl"]["name"]
    if k == "MemberExpr":
        base = strip(kids(n)[0])
        if base.get("kind") != "DeclRefExpr":
            raise ExtractError("snprintf argument: member of something that is not a local")
        return base["referencedDecl"]["name"] + "." + n["name"]
    if k == "BinaryOperator" and n.get("opcode") == "+":
        a, b = kids(n)
        return pp(a) + " + " + pp(b)
    if k == "IntegerLiteral":
        return str(int(n["value"]))
    raise ExtractError("snprintf argument of kind %s" % k)


def snprintf_calls(node):
    return [x for x in walk(node) if x.get("kind") == "CallExpr" and kids(x) and
            strip(kids(x)[0]).get("referencedDecl", {}).get("name") == "snprintf"]


def call_info(c):
    args = kids(c)[1:]
    if len(args) < 3:
        raise ExtractError("snprintf with fewer than three arguments")
    buf = strip(args[0])
    size = strip(args[1])
    if buf.get("kind") != "DeclRefExpr" or size.get("kind") != "UnaryExprOrTypeTraitExpr":
        raise ExtractError("snprintf is not called as snprintf(buf, sizeof buf, ...)")
    import re
    inner = [x for x in walk(size) if x.get("kind") == "DeclRefExpr"]
    m = re.search(r"\[(\d+)\]", inner[0].get("type", {}).get("qualType", "")) if inner else None
    if not m or inner[0]["referencedDecl"]["name"] != buf["referencedDecl"]["name"]:
        raise ExtractError("snprintf: the size is not sizeof of the buffer written")
    return literal(args[2]), int(m.group(1)), [pp(a) for a in args[3:]]


def var_init(fn, name, sym, consts):
    vs = [n for n in walk(body_of(fn)) if n.get("kind") == "VarDecl" and n.get("name") == name and kids(n)]
    if len(vs) != 1:
        raise ExtractError("%s: expected exactly one initialised `%s`" % (fn.get("name"), name))
    tr = Tr(sym, consts, int_mode=True)
    return tr.expr(kids(vs[0])[-1])


def generate():
    docs = ast_dump(TU, "muduo::Timestamp::to")
    ts = the_function(docs, "toString")
    tf = the_function(docs, "toFormattedString")
    sym = {"microSecondsSinceEpoch_": "us"}
    consts = {"kMicroSecondsPerSecond": "Gen.Calendar.kMicroSecondsPerSecond"}
    out = [HEADER % TU, "import MuduoVerif.Generated.Calendar\n",
           "/-!\nText forms of `muduo::Timestamp` as /repo's `Timestamp.cc` has them now: the split of the microsecond count, the\n"
           "`snprintf` formats (as characters), their buffers and arguments.  `Model/Calendar.lean` renders these formats;\n"
           "`Proofs/TsTextTie.lean` proves each definition equal to its declared counterpart (`Model/TsTextDecl.lean`).\n-/\n",
           "namespace MuduoVerif.Gen.TsText\n"]
    # toString
    out.append("/-- `Timestamp::toString`: `int64_t seconds = ..` -/\ndef toStringSeconds (us : Int) : Int := %s\n" % var_init(ts, "seconds", sym, consts))
    out.append("/-- `Timestamp::toString`: `int64_t microseconds = ..` -/\ndef toStringMicros (us : Int) : Int := %s\n" % var_init(ts, "microseconds", sym, consts))
    cs = snprintf_calls(body_of(ts))
    if len(cs) != 1:
        raise ExtractError("Timestamp::toString: expected one snprintf")
    fmt, size, args = call_info(cs[0])
    out.append("/-- its format `\"%s\"` -/\ndef toStringFormat : List Char := %s\n" % (fmt, chars(fmt)))
    out.append("/-- size of the buffer -/\ndef toStringBuf : Nat := %d\n" % size)
    out.append("/-- the arguments after the format -/\ndef toStringArgs : List String := [%s]\n" % ", ".join('"%s"' % a for a in args))
    # toFormattedString
    out.append("/-- `Timestamp::toFormattedString`: `time_t seconds = ..` -/\ndef formattedSeconds (us : Int) : Int := %s\n" % var_init(tf, "seconds", sym, consts))
    out.append("/-- `Timestamp::toFormattedString`: `int microseconds = ..` -/\ndef formattedMicros (us : Int) : Int := %s\n" % var_init(tf, "microseconds", sym, consts))
    ifs = find_ifs(tf)
    if len(ifs) != 1 or len(kids(ifs[0])) != 3:
        raise ExtractError("Timestamp::toFormattedString: expected exactly one if / else")
    cond = Tr({"showMicroseconds": "(showMicroseconds = true)"}).expr(if_cond(ifs[0]))
    out.append("/-- the format with microseconds is used when -/\ndef formattedShowsMicros (showMicroseconds : Bool) : Prop := %s\n"
               "instance : Decidable (formattedShowsMicros b) := by unfold formattedShowsMicros; infer_instance\n" % cond)
    thn, els = kids(ifs[0])[1], kids(ifs[0])[2]
    for node, suffix, doc in ((thn, "Micro", "with"), (els, "", "without")):
        cs = snprintf_calls(node)
        if len(cs) != 1:
            raise ExtractError("Timestamp::toFormattedString: expected one snprintf in the branch %s microseconds" % doc)
        fmt, size, args = call_info(cs[0])
        out.append("/-- the format %s microseconds: `\"%s\"` -/\ndef formattedFormat%s : List Char := %s\n" % (doc, fmt, suffix, chars(fmt)))
        out.append("/-- size of the buffer -/\ndef formattedBuf%s : Nat := %d\n" % (suffix, size))
        out.append("/-- the arguments after the format (`tm_time` is what `gmtime_r(&seconds, &tm_time)` delivered) -/\n"
                   "def formattedArgs%s : List String := [%s]\n" % (suffix, ", ".join('"%s"' % a for a in args)))
    calls = [x for x in walk(body_of(tf)) if x.get("kind") == "CallExpr" and kids(x) and
             strip(kids(x)[0]).get("referencedDecl", {}).get("name") == "gmtime_r"]
    if len(calls) != 1:
        raise ExtractError("Timestamp::toFormattedString: expected one gmtime_r")
    a0 = [x for x in walk(kids(calls[0])[1]) if x.get("kind") == "DeclRefExpr"]
    a1 = [x for x in walk(kids(calls[0])[2]) if x.get("kind") == "DeclRefExpr"]
    if not a0 or not a1:
        raise ExtractError("Timestamp::toFormattedString: gmtime_r arguments")
    out.append("/-- `gmtime_r(&%s, &%s)`: the broken-down time comes from these -/\ndef formattedGmtime : List String := [\"%s\", \"%s\"]\n"
               % (a0[0]["referencedDecl"]["name"], a1[0]["referencedDecl"]["name"], a0[0]["referencedDecl"]["name"], a1[0]["referencedDecl"]["name"]))
    out.append("end MuduoVerif.Gen.TsText")
    return "\n".join(out) + "\n"
