"""T1 for Connector / TcpClient: retry constants, the delay update of `Connector::retry`, the
`switch (savedErrno)` table of `Connector::connect`, the state tests of the connector's handlers,
the reconnect test of `TcpClient::removeConnection`, the branches of `~TcpClient`."""
import re

from ..extract import (HEADER, ExtractError, Tr, ast_dump, body_of, const_int, find_ifs, if_cond, kids, locate_if,
                       mentions, prop_def, strip, the_function, unparen, walk)

NAME = "Client"

# Registry read by vlib/gen/clientskel.py (statement skeletons of the same functions), filled by generate():
#   DOCS     "Connector" / "TcpClient" -> the AST documents the guards below were taken from (the very objects, so that
#            clang node ids mean the same thing in both modules)
#   SITES    (translation unit, clang node id of an `if` condition) -> name of the guard generated from that condition
#   SWITCHES (translation unit, clang node id of a `switch`) -> (name of the generated table,
#            [(labels, statements, class)] in source order, as classified for that table)
DOCS = {}
SITES = {}
SWITCHES = {}
_TU = ["Connector"]


def enum_order(docs, name):
    for d in docs:
        for n in walk(d):
            if n.get("kind") == "EnumDecl" and n.get("name") == name:
                return [c["name"] for c in kids(n) if c.get("kind") == "EnumConstantDecl"]
    raise ExtractError("enum %s not found" % name)


def calls_in(n):
    """names of the functions / methods called anywhere below n"""
    res = []
    for x in walk(n):
        if x.get("kind") in ("CXXMemberCallExpr", "CallExpr", "CXXOperatorCallExpr") and kids(x):
            c = strip(kids(x)[0])
            if c.get("kind") == "MemberExpr":
                res.append(c.get("name"))
            elif c.get("kind") == "DeclRefExpr":
                res.append(c["referencedDecl"]["name"])
    return res


def switch_arms(fn, var):
    """the arms of the `switch (var)` of fn: list of (labels, statements); a label is an int or 'default'"""
    sws = [n for n in walk(body_of(fn)) if n.get("kind") == "SwitchStmt" and mentions(kids(n)[0], var)]
    if len(sws) != 1:
        raise ExtractError("%s: expected one switch on %s, found %d" % (fn.get("name"), var, len(sws)))
    body = [k for k in kids(sws[0]) if k.get("kind") == "CompoundStmt"]
    if not body:
        raise ExtractError("%s: switch without a compound body" % fn.get("name"))
    arms, cur = [], None
    for st in kids(body[0]):
        k = st.get("kind")
        if k in ("CaseStmt", "DefaultStmt"):
            if cur is not None and not cur[2]:
                raise ExtractError("%s: switch arm %s falls through into the next arm" % (fn.get("name"), cur[0]))
            labels = []
            while st.get("kind") in ("CaseStmt", "DefaultStmt"):
                if st["kind"] == "DefaultStmt":
                    labels.append("default")
                    st = kids(st)[0]
                else:
                    ks = kids(st)
                    v = ks[0]
                    if v.get("kind") != "ConstantExpr" or "value" not in v:
                        raise ExtractError("%s: case label is not an integer constant" % fn.get("name"))
                    labels.append(int(v["value"]))
                    if len(ks) != 2:
                        raise ExtractError("%s: unsupported case statement (range?)" % fn.get("name"))
                    st = ks[1]
            cur = [labels, [st], False]
            arms.append(cur)
        elif k == "BreakStmt":
            if cur is None:
                raise ExtractError("break before the first case")
            cur[2] = True
        else:
            if cur is None or cur[2]:
                raise ExtractError("%s: statement outside a switch arm" % fn.get("name"))
            cur[1].append(st)
    return [(a[0], a[1]) for a in arms]


def table(arms, classify, fn_name):
    """(association list errno -> class, default class)"""
    entries, default = [], None
    seen = set()
    for labels, stmts in arms:
        cls = classify(stmts)
        for l in labels:
            if l == "default":
                default = cls
            else:
                if l in seen:
                    raise ExtractError("%s: duplicate case %d" % (fn_name, l))
                seen.add(l)
                entries.append((l, cls))
    if default is None:
        raise ExtractError("%s: switch without default arm" % fn_name)
    return entries, default


def assert_texts(fn):
    return [n.get("value", "").strip('"') for n in walk(body_of(fn)) if n.get("kind") == "StringLiteral"
            and re.match(r'^"[!\w\s=&|()>-]+"$', n.get("value", "")) and ("state_" in n["value"] or "channel_" in n["value"])]


def state_assert(fn, consts):
    """`assert(state_ == kX)` of fn as a Lean proposition over st (by its stringified text)"""
    ts = [t for t in assert_texts(fn) if "state_" in t]
    if len(ts) != 1:
        raise ExtractError("%s: expected one assertion on state_, found %r" % (fn.get("name"), ts))
    m = re.match(r"^state_ == (k\w+)$", ts[0])
    if not m or m.group(1) not in consts:
        raise ExtractError("%s: assertion `%s` is outside the translator's subset" % (fn.get("name"), ts[0]))
    return "st = " + consts[m.group(1)], ts[0]


def handoff(fn):
    calls = [strip(kids(n)[0])["name"] for n in walk(body_of(fn)) if n.get("kind") == "CXXMemberCallExpr" and kids(n)
             and strip(kids(n)[0]).get("kind") == "MemberExpr" and strip(kids(n)[0]).get("name") in ("runInLoop", "queueInLoop")]
    if len(calls) != 1:
        raise ExtractError("%s: expected one runInLoop/queueInLoop hand-off, found %d" % (fn.get("name"), len(calls)))
    return "run" if calls[0] == "runInLoop" else "queue"


def bound_method(fn):
    """name of the member function bound in the (single) std::bind of fn"""
    for n in walk(body_of(fn)):
        if n.get("kind") == "UnaryOperator" and n.get("opcode") == "&":
            d = strip(kids(n)[0])
            if d.get("kind") == "DeclRefExpr" and d["referencedDecl"].get("kind") == "CXXMethodDecl":
                return d["referencedDecl"]["name"]
    raise ExtractError("%s: no bound member function" % fn.get("name"))


def generate():
    DOCS.clear()
    SITES.clear()
    SWITCHES.clear()
    _TU[0] = "Connector"
    docs = ast_dump("muduo/net/Connector.cc", "muduo::net::Connector")
    DOCS["Connector"] = docs
    out = [HEADER % "muduo/net/Connector.cc, Connector.h, TcpClient.cc", "namespace MuduoVerif.Gen.Client\n"]
    out.append("def kInitRetryDelayMs : Nat := %d" % const_int(docs, "kInitRetryDelayMs"))
    out.append("def kMaxRetryDelayMs : Nat := %d\n" % const_int(docs, "kMaxRetryDelayMs"))
    states = enum_order(docs, "States")
    if sorted(states) != sorted(["kDisconnected", "kConnecting", "kConnected"]):
        raise ExtractError("Connector::States changed: %s" % states)
    out.append("/-- `Connector::States`, in declaration order -/\ninductive States\n" +
               "\n".join("  | %s" % s for s in states) + "\nderiving DecidableEq, Repr\n")
    consts = {s: "States." + s for s in states}
    consts.update({"kInitRetryDelayMs": "kInitRetryDelayMs", "kMaxRetryDelayMs": "kMaxRetryDelayMs"})
    ST = ("st", "States")

    def guard(fn, name, params, sym, doc, *locate, index=0, cond=None):
        t = Tr(sym, consts)
        c = cond if cond is not None else if_cond(locate_if(fn, *locate, index=index))
        out.append(prop_def(name, params, unparen(t.expr(c)), doc))
        SITES[(_TU[0], c.get("id"))] = name

    # ---- Connector::retry
    retry = the_function(docs, "retry")
    asg = [n for n in walk(body_of(retry)) if n.get("kind") == "BinaryOperator" and n.get("opcode") == "="
           and mentions(kids(n)[0], "retryDelayMs_")]
    if len(asg) != 1:
        raise ExtractError("retry: expected one assignment to retryDelayMs_, found %d" % len(asg))
    rhs = strip(kids(asg[0])[1])
    t = Tr({"retryDelayMs_": "d"}, consts)
    if rhs.get("kind") == "CallExpr" and strip(kids(rhs)[0]).get("referencedDecl", {}).get("name") == "min" and len(kids(rhs)) == 3:
        upd = "min %s %s" % (t.expr(kids(rhs)[1]), t.expr(kids(rhs)[2]))
    else:
        upd = unparen(t.expr(rhs))
    out.append("/-- `Connector::retry`: `retryDelayMs_ = %s` -/\ndef nextDelay (d : Nat) : Nat := %s\n" % ("…", upd))
    guard(retry, "retrySchedules", [("connect", "Bool")], {"connect_": "connect"}, "`Connector::retry`: schedule another attempt", "connect_")
    then_ = kids(locate_if(retry, "connect_"))[1]
    ra = [n for n in walk(then_) if n.get("kind") == "CXXMemberCallExpr" and strip(kids(n)[0]).get("name") == "runAfter"]
    if len(ra) != 1:
        raise ExtractError("retry: expected one runAfter in the `if (connect_)` branch")
    if asg[0] not in list(walk(then_)):
        raise ExtractError("retry: the delay update left the `if (connect_)` branch")
    # delay argument: retryDelayMs_ / 1000.0 (seconds)  -> microseconds = retryDelayMs_ * 1000
    darg = strip(kids(ra[0])[1])
    ok = (darg.get("kind") == "BinaryOperator" and darg.get("opcode") == "/" and mentions(kids(darg)[0], "retryDelayMs_")
          and strip(kids(darg)[1]).get("kind") == "FloatingLiteral" and float(strip(kids(darg)[1])["value"]) == 1000.0)
    if not ok:
        raise ExtractError("retry: the runAfter delay is no longer retryDelayMs_/1000.0")
    out.append("/-- `Connector::retry`: the timer delay is `retryDelayMs_/1000.0` seconds -/\ndef retryDelayUs (d : Nat) : Nat := d * 1000\n")
    b0 = ra[0]["range"]["begin"].get("offset", 0)
    b1 = asg[0]["range"]["begin"].get("offset", 0)
    out.append("/-- `Connector::retry`: the timer is scheduled with the delay as it was before the update -/\n"
               "def retryUsesOldDelay : Bool := %s\n" % ("true" if b0 < b1 else "false"))
    target = None
    for n in walk(ra[0]):
        if n.get("kind") == "UnaryOperator" and n.get("opcode") == "&":
            d = strip(kids(n)[0])
            if d.get("kind") == "DeclRefExpr":
                target = d["referencedDecl"]["name"]
    if target != "startInLoop":
        raise ExtractError("retry: the timer no longer runs startInLoop (%s)" % target)
    strong = any(x.get("kind") == "MemberExpr" and x.get("name") == "shared_from_this" for x in walk(ra[0]))
    out.append("/-- `Connector::retry`: the timer functor holds a reference to the connector -/\ndef retryTimerHoldsRef : Bool := %s\n"
               % ("true" if strong else "false"))
    top = kids(body_of(retry))
    closes_first = bool(top) and "close" in calls_in(top[0]) and mentions(top[0], "sockfd")
    out.append("/-- `Connector::retry`: its first statement closes the socket of the failed attempt -/\n"
               "def retryClosesSocket : Bool := %s\n" % ("true" if closes_first else "false"))
    sets = [n for n in walk(body_of(retry)) if n.get("kind") == "CXXMemberCallExpr" and strip(kids(n)[0]).get("name") == "setState"]
    if len(sets) != 1 or not mentions(sets[0], "kDisconnected"):
        raise ExtractError("retry: expected setState(kDisconnected)")

    # ---- Connector::connect: errno classification
    conn = the_function(docs, "connect")

    def classify(stmts):
        names = [c for s in stmts for c in calls_in(s)]
        cls = [c for c in ("connecting", "retry", "close") if c in names]
        if len(cls) != 1:
            raise ExtractError("connect: switch arm calls %s — cannot classify" % names)
        return {"connecting": "proceed", "retry": "retry", "close": "giveUp"}[cls[0]]
    entries, default = table(switch_arms(conn, "savedErrno"), classify, "connect")
    for sw in [n for n in walk(body_of(conn)) if n.get("kind") == "SwitchStmt" and mentions(kids(n)[0], "savedErrno")]:
        SWITCHES[(_TU[0], sw.get("id"))] = ("connectTable", [(ls, ss, classify(ss)) for ls, ss in switch_arms(conn, "savedErrno")])
    out.append("inductive ConnectClass | proceed | retry | giveUp\nderiving DecidableEq, Repr\n")
    out.append("/-- `Connector::connect`: `switch (savedErrno)` -/\ndef connectTable : List (Nat × ConnectClass) :=\n  [" +
               ", ".join("(%d, .%s)" % e for e in entries) + "]\n")
    out.append("def connectDefault : ConnectClass := .%s\n" % default)
    out.append("def classifyConnect (errno : Nat) : ConnectClass :=\n  match connectTable.lookup errno with\n  | some c => c\n  | none => connectDefault\n")
    # savedErrno = (ret == 0) ? 0 : errno
    # ---- state tests
    sc = the_function(docs, "startCycleInLoop")
    guard(sc, "cycleClearsState", [ST], {"state_": "st"}, "`Connector::startCycleInLoop`: forget the handed-over socket of the previous cycle", "state_")
    top = [k for k in kids(body_of(sc))]
    resets = [n for n in top if n.get("kind") == "BinaryOperator" and n.get("opcode") == "=" and mentions(kids(n)[0], "retryDelayMs_")
              and mentions(kids(n)[1], "kInitRetryDelayMs")]
    out.append("/-- `Connector::startCycleInLoop`: unconditionally resets the delay to `kInitRetryDelayMs` -/\n"
               "def cycleResetsDelay : Bool := %s\n" % ("true" if len(resets) == 1 else "false"))
    if "startInLoop" not in calls_in(body_of(sc)):
        raise ExtractError("startCycleInLoop no longer calls startInLoop")
    start = the_function(docs, "start")
    if bound_method(start) != "startCycleInLoop":
        raise ExtractError("Connector::start binds %s" % bound_method(start))
    stop = the_function(docs, "stop")
    if bound_method(stop) != "stopInLoop":
        raise ExtractError("Connector::stop binds %s" % bound_method(stop))
    def holds(fn):
        return "true" if any(x.get("kind") == "MemberExpr" and x.get("name") == "shared_from_this" for x in walk(body_of(fn))) else "false"
    out.append("/-- the functors queued by `start()`, `stop()`, `removeAndResetChannel()` hold a reference to the connector "
               "(shared_from_this) rather than the raw `this` -/\ndef startHoldsRef : Bool := %s\ndef stopHoldsRef : Bool := %s\n"
               "def resetHoldsRef : Bool := %s\n" % (holds(start), holds(stop), holds(the_function(docs, "removeAndResetChannel"))))
    out.append("inductive Dispatch | run | queue\nderiving DecidableEq, Repr\n")
    out.append("/-- `Connector::start`: hand-off -/\ndef startDispatch : Dispatch := .%s" % handoff(start))
    out.append("/-- `Connector::stop`: hand-off -/\ndef stopDispatch : Dispatch := .%s\n" % handoff(stop))
    sil = the_function(docs, "startInLoop")
    prop, text = state_assert(sil, consts)
    out.append(prop_def("startAssert", [ST], prop, "`Connector::startInLoop`: `assert(%s)`" % text))
    guard(sil, "startConnects", [("connect", "Bool")], {"connect_": "connect"}, "`Connector::startInLoop`: `if (connect_)`", "connect_")
    spl = the_function(docs, "stopInLoop")
    guard(spl, "stopActs", [ST], {"state_": "st"}, "`Connector::stopInLoop`: an attempt is in progress", "state_")
    names = calls_in(body_of(spl))
    if "retry" not in names:
        raise ExtractError("stopInLoop no longer calls retry(sockfd)")
    now = "reset" in names and "removeAndResetChannel" not in names
    if not now and "removeAndResetChannel" not in names:
        raise ExtractError("stopInLoop: neither channel_.reset() nor removeAndResetChannel()")
    out.append("/-- `Connector::stopInLoop`: destroys the channel at once (true) or through the queued `resetChannel` (false) -/\n"
               "def stopResetsChannelNow : Bool := %s\n" % ("true" if now else "false"))
    # ---- the back-off timer as an object that can be cancelled (F33): `retryTimer_ = loop_->runAfter(..)` in retry(),
    # `loop_->cancel(retryTimer_)` in a member function of its own, called when a cycle starts (before startInLoop()) and
    # in stopInLoop() (unconditionally / under a test of connect_ / not at all)
    def _member_of_this(n):
        n = strip(n)
        while n.get("kind") in ("ImplicitCastExpr", "CXXConstructExpr") and len(kids(n)) == 1:
            n = strip(kids(n)[0])
        if n.get("kind") == "MemberExpr" and kids(n) and strip(kids(n)[0]).get("kind") == "CXXThisExpr":
            return n.get("name")
        return None
    stored = [_member_of_this(kids(n)[1]) for n in walk(body_of(retry)) if n.get("kind") == "CXXOperatorCallExpr" and len(kids(n)) == 3
              and ra[0] in list(walk(kids(n)[2])) and _member_of_this(kids(n)[1]) is not None]
    if len(stored) > 1:
        raise ExtractError("retry: the timer id is stored more than once")
    timer_member = stored[0] if stored else None
    cancel_fns = []
    for d in docs:
        for f in walk(d):
            if f.get("kind") == "CXXMethodDecl" and body_of(f) and timer_member is not None:
                cs = [n for n in kids(body_of(f)) if strip(n).get("kind") == "CXXMemberCallExpr"
                      and strip(kids(strip(n))[0]).get("name") == "cancel" and len(kids(strip(n))) == 2
                      and _member_of_this(kids(strip(n))[1]) == timer_member]
                if cs:
                    if f.get("name") in ("retry", "startInLoop", "connect", "connecting", "handleWrite", "handleError"):
                        raise ExtractError("%s cancels the retry timer: outside the translator's subset" % f.get("name"))
                    cancel_fns.append(f.get("name"))
    cancel_fns = sorted(set(cancel_fns))

    def _is_cancel(n):
        """statement n is a direct call `cancelRetryTimer()` (a member function whose top level cancels the stored timer)"""
        n = strip(n)
        return (n.get("kind") == "CXXMemberCallExpr" and strip(kids(n)[0]).get("kind") == "MemberExpr"
                and strip(kids(n)[0]).get("name") in cancel_fns and strip(kids(strip(kids(n)[0]))[0]).get("kind") == "CXXThisExpr")
    for f in (retry, sil, conn):
        if any(_is_cancel(n) for n in walk(body_of(f))):
            raise ExtractError("%s cancels the retry timer: outside the translator's subset" % f.get("name"))
    out.append("/-- `Connector::retry`: the id of the back-off timer is kept in a member (`%s`) -/\n"
               "def retryTimerStored : Bool := %s\n" % (timer_member or "-", "true" if timer_member else "false"))
    sc_top = kids(body_of(sc))
    c_at = [i for i, n in enumerate(sc_top) if _is_cancel(n)]
    s_at = [i for i, n in enumerate(sc_top) if "startInLoop" in calls_in(n)]
    if any(_is_cancel(n) for n in walk(body_of(sc))) and not c_at:
        raise ExtractError("startCycleInLoop: the retry timer is cancelled under a condition")
    if len(s_at) != 1:
        raise ExtractError("startCycleInLoop: expected one top-level call of startInLoop")
    out.append("/-- `Connector::startCycleInLoop`: the pending back-off timer (of the previous cycle) is cancelled before "
               "`startInLoop()` -/\ndef cycleStartCancelsRetryTimer : Bool := %s\n"
               % ("true" if c_at and c_at[0] < s_at[0] else "false"))
    sp_top = kids(body_of(spl))
    acts_if = locate_if(spl, "state_")
    if acts_if not in sp_top:
        raise ExtractError("stopInLoop: the state test is no longer a top-level statement")
    before = sp_top[:sp_top.index(acts_if)]
    if any(_is_cancel(n) for n in walk(body_of(spl)) if n not in [x for b in before for x in walk(b)]):
        raise ExtractError("stopInLoop: the retry timer is cancelled after / inside the state test")
    uncond = [n for n in before if _is_cancel(n)]
    cond = [n for n in before if n.get("kind") == "IfStmt" and any(_is_cancel(x) for x in walk(n))]
    if uncond and not cond:
        out.append(prop_def("stopCancelsRetryTimer", [("connect", "Bool")], "True",
                            "`Connector::stopInLoop`: cancels the pending back-off timer first, unconditionally"))
    elif len(cond) == 1 and not uncond:
        ks = kids(cond[0])
        body = kids(ks[1]) if ks[1].get("kind") == "CompoundStmt" else [ks[1]]
        if len(ks) != 2 or not any(_is_cancel(n) for n in body) or mentions(if_cond(cond[0]), "state_"):
            raise ExtractError("stopInLoop: `if (..) cancelRetryTimer()` has an else branch / a nested condition / tests state_")
        guard(spl, "stopCancelsRetryTimer", [("connect", "Bool")], {"connect_": "connect"},
              "`Connector::stopInLoop`: cancels the pending back-off timer first, under this test", cond=if_cond(cond[0]))
    elif not uncond and not cond:
        out.append(prop_def("stopCancelsRetryTimer", [("connect", "Bool")], "False",
                            "`Connector::stopInLoop`: does not cancel the pending back-off timer"))
    else:
        raise ExtractError("stopInLoop: the retry timer is cancelled twice")
    hw = the_function(docs, "handleWrite")
    guard(hw, "writeActs", [ST], {"state_": "st"}, "`Connector::handleWrite`: the state test", "state_")
    guard(hw, "writeSoError", [("err", "Nat")], {"err": "err"}, "`Connector::handleWrite`: `if (err)`", "err")
    guard(hw, "writeSelfConnect", [("selfConnect", "Bool")], {"isSelfConnect(sockfd)": "selfConnect"},
          "`Connector::handleWrite`: `else if (sockets::isSelfConnect(sockfd))`", "isSelfConnect")
    guard(hw, "writeHandsOver", [("connect", "Bool")], {"connect_": "connect"},
          "`Connector::handleWrite`: `if (connect_)` before `newConnectionCallback_`", "connect_")
    # the branch guarded by connect_ must be the one that calls the callback, its else the one that closes
    ifc = locate_if(hw, "connect_")
    ks = kids(ifc)
    if len(ks) != 3 or "operator()" not in calls_in(ks[1]) or "close" not in calls_in(ks[2]):
        raise ExtractError("handleWrite: `if (connect_)` no longer selects newConnectionCallback_ / close")
    prop, text = state_assert(hw, consts)
    out.append(prop_def("writeElseAssert", [ST], prop, "`Connector::handleWrite`: `assert(%s)` in the else branch" % text))
    he = the_function(docs, "handleError")
    guard(he, "errorActs", [ST], {"state_": "st"}, "`Connector::handleError`: the state test", "state_")
    cg = the_function(docs, "connecting")
    ts = [t for t in assert_texts(cg) if "channel_" in t]
    if ts != ["!channel_"]:
        raise ExtractError("connecting: expected assert(!channel_), found %r" % ts)
    out.append(prop_def("connectingAssert", [("hasChannel", "Bool")], "¬ hasChannel", "`Connector::connecting`: `assert(!channel_)`"))
    rs = the_function(docs, "restart")
    top = kids(body_of(rs))
    ok = (any(n.get("kind") == "CXXMemberCallExpr" and strip(kids(n)[0]).get("name") == "setState" and mentions(n, "kDisconnected") for n in top)
          and any(n.get("kind") == "BinaryOperator" and mentions(kids(n)[0], "retryDelayMs_") and mentions(kids(n)[1], "kInitRetryDelayMs") for n in top)
          and "startInLoop" in calls_in(body_of(rs)))
    if not ok:
        raise ExtractError("restart: no longer `setState(kDisconnected); retryDelayMs_ = kInitRetryDelayMs; connect_ = true; startInLoop()`")
    rr = the_function(docs, "removeAndResetChannel")
    if handoff(rr) != "queue" or bound_method(rr) != "resetChannel":
        raise ExtractError("removeAndResetChannel no longer queues resetChannel")
    out.append("/-- `Connector::removeAndResetChannel`: the channel object is destroyed by a queued functor -/\ndef resetChannelQueued : Bool := true\n")

    # ---- TcpClient
    _TU[0] = "TcpClient"
    cdocs = ast_dump("muduo/net/TcpClient.cc", "muduo::net::TcpClient")
    DOCS["TcpClient"] = cdocs
    rc = the_function(cdocs, "removeConnection")
    guard(rc, "reconnects", [("retry", "Bool"), ("connect", "Bool")], {"retry_": "retry", "connect_": "connect"},
          "`TcpClient::removeConnection`: `if (retry_ && connect_)`", "retry_", "connect_")
    if "restart" not in calls_in(kids(locate_if(rc, "retry_", "connect_"))[1]):
        raise ExtractError("removeConnection: the reconnect branch no longer calls restart()")
    # TcpClient::newConnection: is `connection_ = conn` (what connection() returns, what disconnect() / ~TcpClient act on)
    # stored before `conn->connectEstablished()` runs the user's callback with UP?  (order in the statement walk)
    nc = the_function(cdocs, "newConnection")
    order = list(walk(body_of(nc)))

    def _callee(n):
        c = strip(kids(n)[0]) if kids(n) else {}
        return c.get("name") if c.get("kind") == "MemberExpr" else c.get("referencedDecl", {}).get("name")
    pub = [i for i, n in enumerate(order) if n.get("kind") == "CXXOperatorCallExpr" and _callee(n) == "operator="
           and len(kids(n)) == 3 and mentions(kids(n)[1], "connection_") and mentions(kids(n)[2], "conn")]
    est = [i for i, n in enumerate(order) if n.get("kind") == "CXXMemberCallExpr" and _callee(n) == "connectEstablished"]
    if len(pub) != 1 or len(est) != 1:
        raise ExtractError("TcpClient::newConnection: expected one `connection_ = conn` and one `conn->connectEstablished()`, "
                           "found %d and %d" % (len(pub), len(est)))
    out.append("/-- `TcpClient::newConnection`: `connection_ = conn` precedes `conn->connectEstablished()` (the UP callback sees "
               "the connection through `connection()`, `disconnect()` inside it acts on it) -/\n"
               "def publishBeforeEstablish : Bool := %s\n" % ("true" if pub[0] < est[0] else "false"))
    dt = [f for d in cdocs for f in walk(d) if f.get("kind") == "CXXDestructorDecl" and body_of(f)]
    if len(dt) != 1:
        raise ExtractError("~TcpClient not found")
    dt = dt[0]
    ifs = find_ifs(dt)
    outer = [i for i in ifs if mentions(if_cond(i), "conn")]
    inner = [i for i in ifs if mentions(if_cond(i), "unique")]
    if len(outer) != 1 or len(inner) != 1 or len(kids(outer[0])) != 3:
        raise ExtractError("~TcpClient: expected `if (conn) {… if (unique) …} else {…}`")
    then_, else_ = kids(outer[0])[1], kids(outer[0])[2]
    if inner[0] not in list(walk(then_)):
        raise ExtractError("~TcpClient: `if (unique)` is no longer inside `if (conn)`")
    if "forceClose" not in calls_in(kids(inner[0])[1]):
        raise ExtractError("~TcpClient: `if (unique)` no longer calls forceClose")
    if "stop" not in calls_in(else_) or "runAfter" not in calls_in(else_):
        raise ExtractError("~TcpClient: the else branch no longer stops the connector and parks it on a timer")
    out.append(prop_def("dtorHasConn", [("conn", "Bool")], "conn", "`~TcpClient`: `if (conn)`"))
    SITES[(_TU[0], if_cond(outer[0]).get("id"))] = "dtorHasConn"
    SITES[(_TU[0], if_cond(inner[0]).get("id"))] = "dtorForceCloses"
    out.append(prop_def("dtorForceCloses", [("unique", "Bool")], "unique", "`~TcpClient`: `if (unique)` → `conn->forceClose()`"))
    sccb = [n for n in walk(then_) if n.get("kind") == "CXXMemberCallExpr" and strip(kids(n)[0]).get("name") in ("runInLoop", "queueInLoop")]
    if len(sccb) != 1:
        raise ExtractError("~TcpClient: expected one hand-off of setCloseCallback")
    out.append("/-- `~TcpClient`: how `setCloseCallback(detail::removeConnection)` reaches the loop -/\n"
               "def dtorSetCbDispatch : Dispatch := .%s\n" % ("run" if strip(kids(sccb[0])[0])["name"] == "runInLoop" else "queue"))
    ra = [n for n in walk(else_) if n.get("kind") == "CXXMemberCallExpr" and strip(kids(n)[0]).get("name") == "runAfter"][0]
    lit = strip(kids(ra)[1])
    while lit.get("kind") == "ImplicitCastExpr":
        lit = kids(lit)[0]
    if lit.get("kind") != "IntegerLiteral":
        raise ExtractError("~TcpClient: the parking delay is no longer an integer literal")
    out.append("/-- `~TcpClient`: seconds the connector is kept alive after the destructor (`runAfter(1, removeConnector)`) -/\n"
               "def dtorParkUs : Nat := %d\n" % (int(lit["value"]) * 1000000))
    # TcpClient::stop / disconnect / connect: flags
    for nm, expect in (("stop", "stop"), ("connect", "start")):
        f = the_function(cdocs, nm)
        if expect not in calls_in(body_of(f)):
            raise ExtractError("TcpClient::%s no longer calls connector_->%s()" % (nm, expect))
    dc = the_function(cdocs, "disconnect")
    if "shutdown" not in calls_in(body_of(dc)):
        raise ExtractError("TcpClient::disconnect no longer calls connection_->shutdown()")
    out.append("end MuduoVerif.Gen.Client\n")
    return "\n".join(out)
