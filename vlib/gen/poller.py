"""T1 for the dispatch engine (C09): Channel's interest arithmetic and the masks / interest re-tests of
Channel::handleEventWithGuard, the index case splits of EPollPoller::updateChannel/removeChannel/update,
the array bookkeeping tests of PollPoller::updateChannel/removeChannel/fillActiveChannels, the event-array
doubling, kPollTimeMs."""
from ..extract import (HEADER, ExtractError, Tr, ast_dump, body_of, find_ifs, if_cond, kids, mentions, prop_def, strip,
                       the_function, unparen, walk)

NAME = "Poller"

# registry for vlib/gen/pollerskel.py (additive; the generated text does not depend on it):
#   SITES    (translation unit, clang node id of an `if` condition) -> name of the guard generated from that condition
# filled by generate(); `_TU[0]` is the translation unit the sites being registered belong to
SITES = {}
_TU = [None]


def _then_else(ifs):
    ks = kids(ifs)
    return ks[1], (ks[2] if len(ks) > 2 else None)


def _calls(node, name):
    res = []
    for n in walk(node):
        if n.get("kind") == "CXXMemberCallExpr" and kids(n):
            c = strip(kids(n)[0])
            if c.get("kind") == "MemberExpr" and c.get("name") == name:
                res.append(n)
    return res


def _ifs_in(node):
    return [n for n in walk(node) if n.get("kind") == "IfStmt"]


def _has_return(node):
    return any(n.get("kind") == "ReturnStmt" for n in walk(node))


def _only(lst, what):
    if len(lst) != 1:
        raise ExtractError("expected exactly one %s, found %d" % (what, len(lst)))
    return lst[0]


def _var_init(docs, name):
    for d in docs:
        for n in walk(d):
            if n.get("kind") == "VarDecl" and n.get("name") == name and kids(n):
                return kids(n)[-1]
    raise ExtractError("constant %s has no initialiser" % name)


def generate():
    out = [HEADER % "muduo/net/Channel.{h,cc}, poller/EPollPoller.{h,cc}, poller/PollPoller.cc, EventLoop.cc",
           "set_option linter.unusedVariables false\nnamespace MuduoVerif.Gen.Poller\n"]
    SITES.clear()

    def guard(name, params, sym, cond, doc, consts=None):
        if cond.get("id") is not None:
            SITES[(_TU[0], cond.get("id"))] = name
        t = Tr(sym, consts or {})
        out.append(prop_def(name, params, unparen(t.expr(cond)), doc))

    def fun(name, params, rty, sym, e, doc, consts=None):
        t = Tr(sym, consts or {})
        ps = " ".join("(%s : %s)" % p for p in params)
        out.append("/-- %s -/\ndef %s %s : %s := %s\n" % (doc, name, ps, rty, unparen(t.expr(e))))

    # ------------------------------------------------------------------ Channel: interest arithmetic
    _TU[0] = "muduo/net/Channel.cc"
    cdocs = ast_dump("muduo/net/Channel.cc", "muduo::net::Channel")
    kc = {"kNoneEvent": "kNoneEvent", "kReadEvent": "kReadEvent", "kWriteEvent": "kWriteEvent"}
    for k in ("kNoneEvent", "kReadEvent", "kWriteEvent"):
        out.append("/-- `Channel::%s` -/\ndef %s : Nat := %s\n" % (k, k, unparen(Tr({}).expr(_var_init(cdocs, k)))))
    for op in ("enableReading", "disableReading", "enableWriting", "disableWriting", "disableAll"):
        fn = the_function(cdocs, op)
        stmts = kids(body_of(fn))
        if len(stmts) != 2 or not _calls(stmts[1], "update"):
            raise ExtractError("Channel::%s is no longer `events_ <op>= k; update();`" % op)
        a = stmts[0]
        lhs = strip(kids(a)[0])
        if not (lhs.get("kind") == "MemberExpr" and lhs.get("name") == "events_"):
            raise ExtractError("Channel::%s does not assign events_" % op)
        rhs = strip(kids(a)[1])
        t = Tr({"events_": "events"}, kc)
        if a.get("kind") == "CompoundAssignOperator" and a.get("opcode") == "|=":
            e = "events ||| %s" % t.expr(rhs)
        elif a.get("kind") == "CompoundAssignOperator" and a.get("opcode") == "&=" and rhs.get("kind") == "UnaryOperator" \
                and rhs.get("opcode") == "~":
            # `int` complement, restricted to the 32 bits an `int` has (events_ is a non-negative int)
            e = "events &&& (4294967295 ^^^ %s)" % t.expr(kids(rhs)[0])
        elif a.get("kind") == "BinaryOperator" and a.get("opcode") == "=":
            e = t.expr(rhs)
        else:
            raise ExtractError("Channel::%s: unsupported update of events_" % op)
        out.append("/-- `Channel::%s`: the new value of `events_` (then `update()`) -/\ndef %s (events : Nat) : Nat := %s\n"
                   % (op, op, e))
    for q in ("isNoneEvent", "isReading", "isWriting"):
        fn = the_function(cdocs, q)
        ret = _only([n for n in walk(body_of(fn)) if n.get("kind") == "ReturnStmt"], "return in " + q)
        guard(q, [("events", "Nat")], {"events_": "events"}, kids(ret)[0], "`Channel::%s`" % q, kc)

    # ------------------------------------------------------------------ Channel::handleEventWithGuard
    hg = the_function(cdocs, "handleEventWithGuard")
    outer = [i for i in find_ifs(hg) if mentions(if_cond(i), "revents_")]
    if len(outer) != 5:
        raise ExtractError("handleEventWithGuard: expected 5 tests of revents_, found %d" % len(outer))
    names = ["dispClose", "dispNvalLog", "dispError", "dispRead", "dispWrite"]
    cbs = {"dispClose": "closeCallback_", "dispError": "errorCallback_", "dispRead": "readCallback_", "dispWrite": "writeCallback_"}
    gnames = {"dispClose": "guardClose", "dispError": "guardError", "dispRead": "guardRead", "dispWrite": "guardWrite"}
    for nm, i in zip(names, outer):
        guard(nm, [("revents", "Nat")], {"revents_": "revents"}, if_cond(i),
              "`Channel::handleEventWithGuard`: outer test of `revents_` (%s)" % nm)
        if nm == "dispNvalLog":
            continue
        then, _ = _then_else(i)
        inner = [j for j in _ifs_in(then) if mentions(if_cond(j), cbs[nm])]
        j = _only(inner, "`if` that calls %s" % cbs[nm])
        sym = {cbs[nm] + ".operator bool()": "True", "isNoneEvent()": "(isNoneEvent events)",
               "isReading()": "(isReading events)", "isWriting()": "(isWriting events)"}
        t = Tr(sym, {})
        body = unparen(t.expr(if_cond(j)))
        if not (t.used - {cbs[nm] + ".operator bool()"}):
            raise ExtractError("handleEventWithGuard: %s is no longer guarded by the channel's current interest" % cbs[nm])
        SITES[(_TU[0], if_cond(j).get("id"))] = gnames[nm]
        out.append(prop_def(gnames[nm], [("events", "Nat")], body,
                            "`Channel::handleEventWithGuard`: the test of the channel's *current* interest before `%s` "
                            "(the callback itself is installed: `True`)" % cbs[nm]))

    # ------------------------------------------------------------------ EPollPoller
    edocs = ast_dump("muduo/net/poller/EPollPoller.cc", "kNew") + ast_dump("muduo/net/poller/EPollPoller.cc", "kAdded") \
        + ast_dump("muduo/net/poller/EPollPoller.cc", "kDeleted")
    ke = {"kNew": "kNew", "kAdded": "kAdded", "kDeleted": "kDeleted"}
    for k in ("kNew", "kAdded", "kDeleted"):
        out.append("/-- `EPollPoller.cc`: `%s` -/\ndef %s : Int := %s\n" % (k, k, unparen(Tr({}).expr(_var_init(edocs, k)))))
    _TU[0] = "muduo/net/poller/EPollPoller.cc"
    pdocs = ast_dump("muduo/net/poller/EPollPoller.cc", "muduo::net::EPollPoller")
    out.append("/-- `EPollPoller::kInitEventListSize` -/\ndef kInitEventListSize : Nat := %s\n"
               % unparen(Tr({}).expr(_var_init(pdocs, "kInitEventListSize"))))
    up = the_function(pdocs, "updateChannel")
    IDX = ("index", "Int")
    EV = ("events", "Nat")
    symi = {"index": "index", "channel.isNoneEvent()": "(isNoneEvent events)"}
    o = _only([i for i in find_ifs(up) if mentions(if_cond(i), "kNew") and mentions(if_cond(i), "kDeleted")],
              "`if (index == kNew || index == kDeleted)`")
    guard("epAddBranch", [IDX], symi, if_cond(o), "`EPollPoller::updateChannel`: the slot is *new* or *deleted*", ke)
    othen, oelse = _then_else(o)
    if oelse is None:
        raise ExtractError("EPollPoller::updateChannel: no else branch")
    inner_new = _only([i for i in _ifs_in(othen) if mentions(if_cond(i), "kNew")], "`if (index == kNew)`")
    guard("epIsNew", [IDX], symi, if_cond(inner_new), "`EPollPoller::updateChannel`: a new channel enters `channels_`", ke)
    new_branch, del_branch = _then_else(inner_new)
    if del_branch is None:
        raise ExtractError("EPollPoller::updateChannel: no branch for the deleted slot")
    # a new channel without interest: recorded in channels_, not handed to the kernel (early return)
    nskips = [i for i in _ifs_in(new_branch) if mentions(if_cond(i), "isNoneEvent") and _has_return(_then_else(i)[0])]
    nsk = _only(nskips, "early return for an interest-less *new* channel")
    guard("epNewSkips", [EV], symi, if_cond(nsk),
          "`EPollPoller::updateChannel`: a *new* channel without interest enters `channels_` only (early return, no `epoll_ctl`)", ke)
    if _calls(_then_else(nsk)[0], "update"):
        raise ExtractError("EPollPoller::updateChannel: the interest-less *new* branch calls update()")
    stmts_new = kids(new_branch)
    pos_skip = [k for k, s_ in enumerate(stmts_new) if nsk in list(walk(s_))]
    pos_map = [k for k, s_ in enumerate(stmts_new) if s_.get("kind") in ("CXXOperatorCallExpr", "BinaryOperator", "ExprWithCleanups")
               and mentions(s_, "channels_") and mentions(s_, "channel")]
    if not pos_skip or not pos_map or min(pos_map) > pos_skip[0]:
        raise ExtractError("EPollPoller::updateChannel: `channels_[fd] = channel` no longer precedes the interest-less early return")
    skips = [i for i in _ifs_in(del_branch) if mentions(if_cond(i), "isNoneEvent") and _has_return(_then_else(i)[0])]
    sk = _only(skips, "early return for an interest-less *deleted* channel")
    guard("epDeletedSkips", [EV], symi, if_cond(sk),
          "`EPollPoller::updateChannel`: a *deleted* channel that still has no interest is left alone (early return)", ke)

    def ctl_arg(node, what):
        c = _only(_calls(node, "update"), "call of update() in " + what)
        return unparen(Tr({}).expr(kids(c)[1]))

    def setidx_arg(node, what, obj="channel", exclude=None):
        inside = list(walk(exclude)) if exclude is not None else []
        cs = [c for c in _calls(node, "set_index")
              if strip(kids(strip(kids(c)[0]))[0]).get("referencedDecl", {}).get("name") == obj
              and not any(c is x for x in inside)]
        c = _only(cs, "call of %s->set_index() in %s" % (obj, what))
        return unparen(Tr({}, ke).expr(kids(c)[1]))

    out.append("/-- `EPollPoller::updateChannel`: slot state of a *new* channel registered without interest -/\n"
               "def epIndexAfterNewSkip : Int := %s\n" % setidx_arg(_then_else(nsk)[0], "the interest-less new branch"))
    out.append("/-- `EPollPoller::updateChannel`, add branch: the `epoll_ctl` operation and the new slot state -/\n"
               "def epCtlAdd : Nat := %s\ndef epIndexAfterAdd : Int := %s\n"
               % (ctl_arg(othen, "the add branch"), setidx_arg(othen, "the add branch", exclude=nsk)))
    ex = _only([i for i in _ifs_in(oelse) if mentions(if_cond(i), "isNoneEvent")], "`if (channel->isNoneEvent())` of the existing branch")
    guard("epExistingDeletes", [EV], symi, if_cond(ex), "`EPollPoller::updateChannel`: an *added* channel lost its last interest", ke)
    ethen, eelse = _then_else(ex)
    if eelse is None:
        raise ExtractError("EPollPoller::updateChannel: no MOD branch")
    out.append("/-- `EPollPoller::updateChannel`, existing branch: operations and slot state -/\n"
               "def epCtlNoInterest : Nat := %s\ndef epIndexAfterDel : Int := %s\ndef epCtlModify : Nat := %s\n"
               % (ctl_arg(ethen, "the no-interest branch"), setidx_arg(ethen, "the no-interest branch"), ctl_arg(eelse, "the modify branch")))
    if _calls(eelse, "set_index"):
        raise ExtractError("EPollPoller::updateChannel: the modify branch now changes the slot state")
    rm = the_function(pdocs, "removeChannel")
    r = _only([i for i in find_ifs(rm) if mentions(if_cond(i), "kAdded")], "`if (index == kAdded)` in removeChannel")
    guard("epRemoveDels", [IDX], symi, if_cond(r), "`EPollPoller::removeChannel`: the kernel still knows the descriptor", ke)
    out.append("/-- `EPollPoller::removeChannel`: operation and final slot state -/\ndef epCtlRemove : Nat := %s\ndef epIndexAfterRemove : Int := %s\n"
               % (ctl_arg(_then_else(r)[0], "removeChannel"), setidx_arg(body_of(rm), "removeChannel")))
    upd = the_function(pdocs, "update")
    f = _only([i for i in find_ifs(upd) if mentions(if_cond(i), "operation") and not mentions(if_cond(i), "epoll_ctl")],
              "`if (operation == EPOLL_CTL_DEL)`")
    guard("epCtlFailureIsSyserr", [("operation", "Nat")], {"operation": "operation"}, if_cond(f),
          "`EPollPoller::update`: a failed `epoll_ctl` is logged (SYSERR) instead of fatal (SYSFATAL)")
    fail = [i for i in find_ifs(upd) if mentions(if_cond(i), "epoll_ctl")]
    if len(fail) != 1 or f not in _ifs_in(_then_else(fail[0])[0]):
        raise ExtractError("EPollPoller::update: failure handling restructured")
    pl = the_function(pdocs, "poll")
    ne = [i for i in find_ifs(pl) if mentions(if_cond(i), "numEvents")]
    full = _only([i for i in ne if mentions(if_cond(i), "events_")], "array-full test in EPollPoller::poll")
    guard("epArrayFull", [("numEvents", "Nat"), ("size", "Nat")], {"numEvents": "numEvents", "events_.size()": "size"}, if_cond(full),
          "`EPollPoller::poll`: the result array was filled completely")
    rs = _only(_calls(_then_else(full)[0], "resize"), "events_.resize")
    fun("epGrowTo", [("size", "Nat")], "Nat", {"events_.size()": "size"}, kids(rs)[1], "`EPollPoller::poll`: new size of the result array")
    has = [i for i in ne if i is not full and full in _ifs_in(_then_else(i)[0])]
    h = _only(has, "`if (numEvents > 0)` enclosing the array-full test")
    guard("epHasEvents", [("numEvents", "Int")], {"numEvents": "numEvents"}, if_cond(h), "`EPollPoller::poll`: something was reported")
    if not _calls(_then_else(h)[0], "fillActiveChannels"):
        raise ExtractError("EPollPoller::poll: fillActiveChannels is no longer called when numEvents > 0")

    # ------------------------------------------------------------------ PollPoller
    _TU[0] = "muduo/net/poller/PollPoller.cc"
    qdocs = ast_dump("muduo/net/poller/PollPoller.cc", "muduo::net::PollPoller")
    pu = the_function(qdocs, "updateChannel")
    symp = {"channel.index()": "index", "channel.isNoneEvent()": "(isNoneEvent events)", "channel.fd()": "fd",
            "idx": "idx", "pollfds_.size()": "size", "channelAtEnd": "channelAtEnd", "pfd.revents": "revents"}
    n_ = _only([i for i in find_ifs(pu) if mentions(if_cond(i), "index")], "`if (channel->index() < 0)`")
    guard("pollIsNew", [IDX], symp, if_cond(n_), "`PollPoller::updateChannel`: the channel has no slot yet")
    nthen, nelse = _then_else(n_)
    if nelse is None:
        raise ExtractError("PollPoller::updateChannel: no existing-entry branch")
    nig = _only([i for i in _ifs_in(nthen) if mentions(if_cond(i), "isNoneEvent")],
                "`if (channel->isNoneEvent())` in the new-entry branch of PollPoller::updateChannel")
    guard("pollNewIgnores", [EV], symp, if_cond(nig), "`PollPoller::updateChannel`: a new entry without interest is pushed as an ignored one")
    ig = _only([i for i in _ifs_in(nelse) if mentions(if_cond(i), "isNoneEvent")], "`if (channel->isNoneEvent())` in PollPoller::updateChannel")
    guard("pollUpdateIgnores", [EV], symp, if_cond(ig), "`PollPoller::updateChannel`: no interest, make poll(2) ignore the entry")

    def assigns(node, pred):
        return [n for n in walk(node) if n.get("kind") == "BinaryOperator" and n.get("opcode") == "=" and pred(strip(kids(n)[0]))]

    a = _only(assigns(_then_else(ig)[0], lambda l: l.get("kind") == "MemberExpr" and l.get("name") == "fd"), "assignment to pfd.fd for an ignored entry")
    fun("pollIgnoreFd", [("fd", "Int")], "Int", symp, kids(a)[1], "`PollPoller::updateChannel`: the `fd` field of an ignored entry")
    # the unconditional assignments before it: pfd.fd = channel->fd()
    plain = [x for x in assigns(nelse, lambda l: l.get("kind") == "MemberExpr" and l.get("name") == "fd") if x is not a]
    b = _only(plain, "assignment pfd.fd = channel->fd() in the existing branch")
    if unparen(Tr(symp).expr(kids(b)[1])) != "fd":
        raise ExtractError("PollPoller::updateChannel: pfd.fd is no longer set to channel->fd()")
    # the new-entry branch: pfd.fd = channel->fd(); the ignored form when there is no interest; then push_back; channels_ keyed by channel->fd()
    na = _only(assigns(_then_else(nig)[0], lambda l: l.get("kind") == "MemberExpr" and l.get("name") == "fd"),
               "assignment to pfd.fd for a new ignored entry")
    fun("pollNewIgnoreFd", [("fd", "Int")], "Int", symp, kids(na)[1], "`PollPoller::updateChannel`: the `fd` field of a new ignored entry")
    nplain = [x for x in assigns(nthen, lambda l: l.get("kind") == "MemberExpr" and l.get("name") == "fd") if x is not na]
    nb = _only(nplain, "assignment pfd.fd = channel->fd() in the new-entry branch")
    if unparen(Tr(symp).expr(kids(nb)[1])) != "fd":
        raise ExtractError("PollPoller::updateChannel: a new pfd.fd is no longer set to channel->fd()")
    nst = kids(nthen)
    where = lambda node: [k for k, s_ in enumerate(nst) if any(node is x for x in walk(s_))]
    pb = _only(_calls(nthen, "push_back"), "pollfds_.push_back in the new-entry branch")
    if not (where(nb)[0] < where(nig)[0] < where(pb)[0]):
        raise ExtractError("PollPoller::updateChannel: order `pfd.fd = fd; if (isNoneEvent) ...; push_back` changed")
    keyed = [n for n in walk(nthen) if n.get("kind") == "CXXOperatorCallExpr" and mentions(n, "channels_")
             and len(kids(n)) == 3 and not mentions(kids(n)[2], "channels_") and strip(kids(n)[1]).get("kind") != "CXXOperatorCallExpr"]
    kx = _only(keyed, "channels_[...] in the new-entry branch")
    if unparen(Tr(symp).expr(kids(kx)[2])) != "fd":
        raise ExtractError("PollPoller::updateChannel: channels_ is no longer keyed by channel->fd() for a new entry")
    pr = the_function(qdocs, "removeChannel")
    l_ = _only([i for i in find_ifs(pr) if mentions(if_cond(i), "idx") and mentions(if_cond(i), "pollfds_")], "last-entry test in removeChannel")
    guard("pollRemoveIsLast", [("idx", "Nat"), ("size", "Nat")], symp, if_cond(l_), "`PollPoller::removeChannel`: the entry is the last one (plain pop)")
    lthen, lelse = _then_else(l_)
    if lelse is None:
        raise ExtractError("PollPoller::removeChannel: no swap branch")
    if len(_calls(lthen, "pop_back")) != 1 or len(_calls(lelse, "pop_back")) != 1:
        raise ExtractError("PollPoller::removeChannel: pop_back calls restructured")
    ng = _only([i for i in _ifs_in(lelse) if mentions(if_cond(i), "channelAtEnd")], "`if (channelAtEnd < 0)`")
    guard("pollEndIsIgnored", [("channelAtEnd", "Int")], symp, if_cond(ng), "`PollPoller::removeChannel`: the moved entry is an ignored one")
    d = _only(assigns(_then_else(ng)[0], lambda l: l.get("kind") == "DeclRefExpr" and l["referencedDecl"]["name"] == "channelAtEnd"),
              "decoding of channelAtEnd")
    fun("pollDecodeFd", [("channelAtEnd", "Int")], "Int", symp, kids(d)[1], "`PollPoller::removeChannel`: descriptor of an ignored entry")
    # the index fix-up of the moved channel: channels_[channelAtEnd]->set_index(idx)
    fix = [c for c in _calls(lelse, "set_index") if mentions(c, "channels_") and mentions(c, "channelAtEnd")]
    fx = _only(fix, "index fix-up channels_[channelAtEnd]->set_index(idx)")
    if unparen(Tr(symp).expr(kids(fx)[1])) != "idx":
        raise ExtractError("PollPoller::removeChannel: the moved channel's index is no longer set to idx")
    out.append("/-- `PollPoller::removeChannel`: the moved channel's index is set to the vacated slot -/\ndef pollFixesMovedIndex : Bool := true\n")
    out.append("/-- `PollPoller::removeChannel`: index of the removed channel afterwards -/\ndef pollIndexAfterRemove : Int := %s\n"
               % setidx_arg(body_of(pr), "PollPoller::removeChannel"))
    fa = the_function(qdocs, "fillActiveChannels")
    ra = _only([i for i in find_ifs(fa) if mentions(if_cond(i), "revents")], "`if (pfd->revents > 0)`")
    guard("pollActive", [("revents", "Int")], symp, if_cond(ra), "`PollPoller::fillActiveChannels`: the entry was reported")

    # ------------------------------------------------------------------ EventLoop
    ldocs = ast_dump("muduo/net/EventLoop.cc", "kPollTimeMs")
    out.append("/-- `EventLoop.cc`: the time-out every `poll` is called with (ms) -/\ndef kPollTimeMs : Nat := %s\n"
               % unparen(Tr({}).expr(_var_init(ldocs, "kPollTimeMs"))))
    lp = ast_dump("muduo/net/EventLoop.cc", "muduo::net::EventLoop::loop")
    loop = the_function(lp, "loop")
    pc = _only(_calls(body_of(loop), "poll"), "poller_->poll call in EventLoop::loop")
    arg = strip(kids(pc)[1])
    if not (arg.get("kind") == "DeclRefExpr" and arg["referencedDecl"]["name"] == "kPollTimeMs"):
        raise ExtractError("EventLoop::loop no longer polls with kPollTimeMs")
    out.append("end MuduoVerif.Gen.Poller\n")
    return "\n".join(out)
