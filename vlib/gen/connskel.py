"""T1 for the connection engine, second part - STATEMENT SKELETONS of the TcpConnection member functions that
Model/Conn.lean implements (+ Channel::handleEventWithGuard), from clang's AST of /repo's current sources.

vlib/gen/conn.py extracts every branch GUARD and hand-off kind; what it cannot see is the ORDER and NESTING of the
statements between the guards (two independent `if`s merged into `if / else if`, a callback moved before the channel
update, closeCallback_ before connectionCallback_ ...).  This module walks each function body in source order and
emits a tree

    Skel ::= act Act | ite <guard name> <then : List Skel> <else : List Skel>

of the "significant actions" (vocabulary: lean/MuduoVerif/Model/ConnSkelDecl.lean): state stores, channel
operations, user/channel callbacks, hand-offs to the loop (queueInLoop / runInLoop / runAfter of which function),
direct calls of other member functions, system calls, buffer operations, assignments to members and to the locals
that feed a guard, assertions on members, `return`.  An `if` is named after the guard vlib/gen/conn.py generated
from that very condition (its registry `conn.SITES`, keyed by clang's node id, so that both files always talk about
the same site); any other condition is printed in a canonical form.  A compare-and-swap gate on `state_`
(`conn.CAS`) is the test plus the store: `ite <gate> (setState kDisconnecting :: then) else`.

Lean side: Model/ConnSkelDecl.lean declares the skeleton each model function implements; Proofs/ConnSkelTie.lean
proves `Gen.ConnSkel.<fn> = Decl.<fn>` by `decide`; Props/C01, C02, C03, C13 re-export the conjunction.

Never guesses: a call that is neither significant nor in one of the (short, explicit) lists of value-only
getters, a statement kind outside {compound, if, return, declaration, expression, empty}, a side effect inside a
condition, a functor whose target cannot be named -> ExtractError.

IGNORED (the model abstracts from exactly these; listed again in the header of the generated file):
  I1  log statements (LOG_*): `if (logLevel() <= L) Logger(..).stream() << ..` and unconditional
      `Logger(..).stream() << ..` - only value getters may be called inside (LOG_PURE), anything else is an error
  I2  `loop_->assertInLoopThread()` (the model runs every *InLoop function on the loop thread by construction)
  I3  assertions over local variables only (`assert(remaining <= len)`: true by construction in the model)
  I4  declarations of locals whose initialiser performs no significant call and that are not of arithmetic type
      (`TcpConnectionPtr guardThis(shared_from_this())`, `StateE expected = kConnected` of a CAS gate), casts
  I5  errno bookkeeping for the log line (`savedErrno`, `errno = savedErrno`) and Channel's `eventHandling_` flag
      (read only by `~Channel`'s assertion)
  I6  an `if` none of whose branches contains a significant action (what remains of `if (logHup_) LOG_WARN ..`)
  I7  MUDUO_VERIF_POINT (an empty `do { } while (0)` in a normal build)
"""
from ..extract import HEADER, ExtractError, ast_dump, body_of, ctype, kids, the_function, walk
from . import conn

NAME = "ConnSkel"

# (Lean name, C++ function, number of parameters or None)
CONN_FUNCTIONS = [
    ("sendInLoop", "sendInLoop", 2), ("shutdown", "shutdown", None), ("shutdownInLoop", "shutdownInLoop", None),
    ("forceClose", "forceClose", None), ("forceCloseWithDelay", "forceCloseWithDelay", None),
    ("forceCloseInLoop", "forceCloseInLoop", None), ("startReadInLoop", "startReadInLoop", None),
    ("stopReadInLoop", "stopReadInLoop", None), ("connectEstablished", "connectEstablished", None),
    ("connectDestroyed", "connectDestroyed", None), ("handleRead", "handleRead", None),
    ("handleWrite", "handleWrite", None), ("handleClose", "handleClose", None), ("handleError", "handleError", None),
    # the remaining public entry points and forwarders
    ("startRead", "startRead", None), ("stopRead", "stopRead", None), ("setTcpNoDelay", "setTcpNoDelay", None)]
# overloads: (Lean name, C++ function, number of parameters, text the first parameter's type contains)
CONN_OVERLOADS = [("sendPtr", "send", 2, "void"), ("sendPiece", "send", 1, "StringPiece"), ("sendBuf", "send", 1, "Buffer"),
                  ("sendInLoopPiece", "sendInLoop", 1, "StringPiece")]

CHAN_OPS = ("enableReading", "disableReading", "enableWriting", "disableWriting", "disableAll", "remove", "tie")
CB_OF = {"TcpConnection": {"connectionCallback_": "connection", "messageCallback_": "message",
                           "writeCompleteCallback_": "writeComplete", "highWaterMarkCallback_": "highWater",
                           "closeCallback_": "close"},
         "Channel": {"readCallback_": "read", "writeCallback_": "write", "errorCallback_": "error",
                     "closeCallback_": "closeEvent"}}
HANDOFF = {"queueInLoop": "queue", "runInLoop": "run", "runAfter": "timer"}
SYS_FREE = {"write": "write", "getSocketError": "getSocketError"}           # sockets::write, sockets::getSocketError
BUF_OPS = ("append", "retrieve", "retrieveAll")
BUFFERS = ("outputBuffer_", "inputBuffer_")

# value-only getters, by the object they are called on
PURE_THIS = ("shared_from_this", "stateToString", "isNoneEvent", "isReading", "isWriting", "reventsToString",
             "eventsToString", "connected", "disconnected", "getLoop", "name")
PURE_ON = {"channel_": ("fd", "isWriting", "isReading", "isNoneEvent"),
           "loop_": ("isInLoopThread",),
           "outputBuffer_": ("readableBytes", "peek", "writableBytes"),
           "inputBuffer_": ("readableBytes", "peek", "writableBytes"),
           "socket_": ("fd",),
           "state_": ("load",)}
PURE_FREE = ("__errno_location",)
LOG_PURE = ("operator<<", "stream", "fd", "stateToString", "strerror_tl", "reventsToString", "eventsToString",
            "operator->", "operator*", "get", "c_str", "name", "toIpPort", "logLevel", "__errno_location",
            "localAddress", "peerAddress", "connected")
FUNCTOR_BUILDERS = ("bind", "makeWeakCallback", "shared_from_this", "operator->", "operator*")
# calls that produce a bound VALUE of a functor (printed as part of what the functor runs)
FUNCTOR_VALUES = ("as_string", "retrieveAllAsString")
# value getters of a parameter / local object (StringPiece, Buffer*)
PURE_LOCAL = ("peek", "readableBytes", "data", "size", "as_string")
# types whose construction / conversion is not an action
VALUE_TYPES = ("std::", "shared_ptr<", "weak_ptr<", "muduo::net::TcpConnectionPtr", "TcpConnectionPtr", "muduo::StringPiece",
               "StringPiece", "muduo::string", "string", "const std::", "muduo::WeakCallback<", "WeakCallback<",
               "muduo::Timestamp", "Timestamp", "const muduo::net::TcpConnectionPtr", "muduo::net::TimerCallback",
               "muduo::net::EventLoop::Functor", "Functor", "TimerCallback", "const shared_ptr<", "const weak_ptr<")
IGNORED_ASSIGN = ("savedErrno", "errno", "err", "eventHandling_")
ARITH = ("int", "long", "unsigned", "size_t", "ssize_t", "bool", "double", "float", "char", "short", "int64_t", "uint64_t",
         "int32_t", "uint32_t")

PEEL_KINDS = ("ParenExpr", "ExprWithCleanups", "MaterializeTemporaryExpr", "CXXBindTemporaryExpr", "ConstantExpr",
              "ImplicitCastExpr", "CStyleCastExpr", "CXXStaticCastExpr", "CXXReinterpretCastExpr", "CXXConstCastExpr")
CALL_KINDS = ("CXXMemberCallExpr", "CallExpr", "CXXOperatorCallExpr")
CTOR_KINDS = ("CXXConstructExpr", "CXXTemporaryObjectExpr")


def peel(n):
    """skip parentheses, temporaries and every cast (casts are not actions)"""
    while True:
        k = n.get("kind")
        if k in PEEL_KINDS and kids(n):
            n = kids(n)[0]
        elif k == "CXXFunctionalCastExpr" and kids(n) and n.get("castKind") != "ConstructorConversion":
            n = kids(n)[0]
        else:
            return n


def lean_str(s):
    return '"' + s.replace("\\", "\\\\").replace('"', '\\"').replace("\n", "\\n") + '"'


def callee_name(n):
    """name of the function a call node calls (member, operator or free function), else None"""
    ks = kids(n)
    if not ks:
        return None
    c = peel(ks[0])
    if c.get("kind") == "MemberExpr":
        return c.get("name")
    if c.get("kind") == "DeclRefExpr":
        return c.get("referencedDecl", {}).get("name")
    return None


def deref(n):
    """the object a (smart) pointer expression points to: `p->`, `*p`"""
    n = peel(n)
    if n.get("kind") == "CXXOperatorCallExpr" and callee_name(n) in ("operator->", "operator*") and len(kids(n)) == 2:
        return deref(kids(n)[1])
    if n.get("kind") == "UnaryOperator" and n.get("opcode") == "*":
        return deref(kids(n)[0])
    return n


def this_member(n):
    """name of the member when `n` is `this->m` / `m` (through `->`/`*` of a smart pointer member), else None"""
    n = deref(n)
    if n.get("kind") == "MemberExpr" and kids(n) and peel(kids(n)[0]).get("kind") == "CXXThisExpr":
        return n.get("name")
    return None


def is_this(n):
    return deref(n).get("kind") == "CXXThisExpr"


def is_errno(n):
    n = peel(n)
    return n.get("kind") == "CallExpr" and callee_name(n) == "__errno_location"


def is_assert(n):
    n = peel(n)
    return n.get("kind") == "ConditionalOperator" and any(
        x.get("referencedDecl", {}).get("name") in ("__assert_fail", "__assert_perror_fail") for x in walk(n))


def assert_text(n):
    for x in walk(peel(n)):
        if x.get("kind") == "CallExpr" and callee_name(x) == "__assert_fail":
            lits = [y for y in walk(kids(x)[1]) if y.get("kind") == "StringLiteral"]
            if lits:
                v = lits[0]["value"]
                return v[1:-1] if v.startswith('"') and v.endswith('"') else v
    raise ExtractError("assertion without text")


def mentions_member(n):
    return any(x.get("kind") in ("CXXThisExpr",) for x in walk(n))


def is_log_expr(n):
    """`Logger(..).stream() << ..`"""
    n = peel(n)
    if n.get("kind") != "CXXOperatorCallExpr" or callee_name(n) != "operator<<":
        return False
    return any(x.get("kind") in CTOR_KINDS and ctype(x).replace("muduo::", "") == "Logger" for x in walk(n))


def is_log_stmt(n):
    n0 = peel(n)
    if is_log_expr(n0):
        return True
    if n0.get("kind") == "IfStmt":
        ks = kids(n0)
        if len(ks) == 2 and any(x.get("kind") == "DeclRefExpr" and x.get("referencedDecl", {}).get("name") == "logLevel"
                                for x in walk(ks[0])) and is_log_expr(ks[1]):
            return True
    return False


BINOPS = ("+", "-", "*", "/", "%", "<", "<=", ">", ">=", "==", "!=", "&&", "||", "&", "|", "^", "<<", ">>")


class Walker:
    """one function body -> list of Skel (as nested Python tuples)"""

    def __init__(self, cls, fname):
        self.cls, self.fname = cls, fname
        self.fnptrs = {}       # id of a local `void (C::*fp)(..) = &C::f` -> "f"

    def err(self, msg):
        raise ExtractError("%s::%s: %s" % (self.cls, self.fname, msg))

    # ------------------------------------------------------------------ canonical printing
    def pp(self, n, top=True):
        n = peel(n)
        k = n.get("kind")
        if k == "IntegerLiteral":
            return str(int(n["value"]))
        if k == "CXXBoolLiteralExpr":
            return "true" if n["value"] else "false"
        if k == "CXXNullPtrLiteralExpr" or k == "GNUNullExpr":
            return "nullptr"
        if k == "FloatingLiteral":
            return str(n["value"])
        if k == "StringLiteral":
            return n["value"]
        if k == "CXXThisExpr":
            return "this"
        if k == "DeclRefExpr":
            return n["referencedDecl"]["name"]
        if k == "MemberExpr":
            if not kids(n) or peel(kids(n)[0]).get("kind") == "CXXThisExpr":
                return n["name"]
            return self.pp(deref(kids(n)[0]), False) + "." + n["name"]
        if k == "CXXMemberCallExpr":
            callee = peel(kids(n)[0])
            if callee.get("kind") != "MemberExpr":
                self.err("cannot print a call through %s" % callee.get("kind"))
            if callee.get("name", "").startswith("operator ") and len(kids(n)) == 1:
                return self.pp(deref(kids(callee)[0]), False)          # conversion operator: the object itself
            return "%s(%s)" % (self.pp(callee, False), ", ".join(self.pp(a) for a in kids(n)[1:]))
        if k == "CXXOperatorCallExpr":
            op = callee_name(n) or "operator?"
            args = kids(n)[1:]
            if op in ("operator->", "operator*") and len(args) == 1:
                return self.pp(args[0], False)
            if op == "operator()":
                return "%s(%s)" % (self.pp(args[0], False), ", ".join(self.pp(a) for a in args[1:]))
            sym = op[len("operator"):]
            if len(args) == 2:
                s = "%s %s %s" % (self.pp(args[0], False), sym, self.pp(args[1], False))
                return s if top else "(" + s + ")"
            if len(args) == 1:
                return sym + self.pp(args[0], False)
            self.err("cannot print operator call %s" % op)
        if k == "CallExpr":
            if is_errno(n):
                return "&errno"
            nm = callee_name(n)
            if nm is None:
                self.err("cannot print an indirect call")
            return "%s(%s)" % (nm, ", ".join(self.pp(a) for a in kids(n)[1:]))
        if k == "UnaryOperator":
            op = n.get("opcode")
            a = kids(n)[0]
            if op == "*" and is_errno(a):
                return "errno"
            if n.get("isPostfix"):
                return self.pp(a, False) + op
            return op + self.pp(a, False)
        if k in ("BinaryOperator", "CompoundAssignOperator"):
            l, r = kids(n)
            s = "%s %s %s" % (self.pp(l, False), n.get("opcode"), self.pp(r, False))
            return s if top else "(" + s + ")"
        if k == "ConditionalOperator":
            c, a, b = kids(n)
            return "(%s ? %s : %s)" % (self.pp(c, False), self.pp(a, False), self.pp(b, False))
        if k in CTOR_KINDS or k == "CXXFunctionalCastExpr":
            args = kids(n)
            t = ctype(n)
            if len(args) == 1 and k != "CXXTemporaryObjectExpr":
                return self.pp(args[0], top)                           # copy / conversion: the value itself
            return "%s(%s)" % (t, ", ".join(self.pp(a) for a in args))
        if k == "UnaryExprOrTypeTraitExpr":
            return "%s(%s)" % (n.get("name", "sizeof"), ", ".join(self.pp(a) for a in kids(n)) or n.get("argType", {}).get("qualType", ""))
        if k == "CXXDefaultArgExpr":
            return "<default>"
        self.err("cannot print expression node %s" % k)

    # ------------------------------------------------------------------ calls
    def functor(self, call, kind):
        """Act of `loop_->queueInLoop/runInLoop/runAfter(...)`: which function the functor runs (+ its bound value arguments)"""
        args = kids(call)[1:]
        delay = None
        if kind == "timer":
            if len(args) != 2:
                self.err("runAfter with %d arguments" % len(args))
            delay, args = self.pp(args[0]), args[1:]
        if len(args) != 1:
            self.err("%s with %d arguments" % (kind, len(args)))
        f = args[0]
        targets, extra = [], []
        for x in walk(f):
            k = x.get("kind")
            if k == "LambdaExpr":
                self.err("a lambda is handed to the loop (cannot name what it runs)")
            if k in CALL_KINDS:
                nm = callee_name(x)
                if nm not in FUNCTOR_BUILDERS and nm not in FUNCTOR_VALUES:
                    self.err("call of `%s` while building the functor handed to %s" % (nm, kind))
            if k == "DeclRefExpr" and x.get("referencedDecl", {}).get("id") in self.fnptrs:
                targets.append(self.fnptrs[x["referencedDecl"]["id"]])
            if k == "UnaryOperator" and x.get("opcode") == "&":
                t = peel(kids(x)[0])
                if t.get("kind") == "DeclRefExpr" and t.get("referencedDecl", {}).get("kind") in ("CXXMethodDecl", "FunctionDecl"):
                    targets.append(t["referencedDecl"]["name"])
        # bound arguments of std::bind after the target: keep what is a value (not the object, not a callback member)
        binds = [x for x in walk(f) if x.get("kind") == "CallExpr" and callee_name(x) == "bind"]
        if len(binds) > 1:
            self.err("nested std::bind in a functor")
        if binds:
            bargs = kids(binds[0])[1:]
            first = peel(bargs[0]) if bargs else None
            if first is not None and not targets:
                m = this_member(first)
                if m is not None:
                    targets.append(m)                                   # std::bind(someCallback_, ...)
            for a in bargs[1:]:
                if any(y.get("kind") == "MemberExpr" and y.get("name") == "shared_from_this" for y in walk(a)):
                    continue
                if peel(a).get("kind") == "CXXThisExpr":
                    continue
                m = this_member(a)
                if m is not None and m in CB_OF.get(self.cls, {}):
                    extra.append(m)
                    continue
                extra.append(self.pp(a))
        if len(targets) != 1:
            self.err("cannot name the function the functor handed to %s runs (candidates: %s)" % (kind, targets))
        what = targets[0] + ("(%s)" % ", ".join(extra) if extra else "")
        if kind == "timer":
            return ".timer %s %s" % (lean_str(delay), lean_str(what))
        return ".%s %s" % (kind, lean_str(what))

    def classify(self, n):
        """(act or None, descend into the arguments?) of one call node; unknown -> ExtractError"""
        k = n.get("kind")
        nm = callee_name(n)
        args = kids(n)[1:]
        if k == "CXXMemberCallExpr":
            callee = peel(kids(n)[0])
            base = kids(callee)[0] if kids(callee) else None
            if base is None or is_this(base):
                if nm == "setState":
                    e = peel(args[0]) if len(args) == 1 else {}
                    if e.get("kind") != "DeclRefExpr" or e.get("referencedDecl", {}).get("kind") != "EnumConstantDecl":
                        self.err("setState with an argument that is not an enumerator")
                    return ".setState .%s" % e["referencedDecl"]["name"], False
                if nm in PURE_THIS:
                    return None, True
                return ".call %s" % lean_str(nm), True
            m = this_member(base)
            if m is not None:
                if nm.startswith("operator ") and not args:
                    return None, True                                   # `callback_` / `state_` read as a value
                if m == "channel_" and nm in CHAN_OPS:
                    return ".chan .%s" % nm, True
                if m == "loop_" and nm == "assertInLoopThread":
                    return None, False                                  # I2
                if m == "loop_" and nm in HANDOFF:
                    return self.functor(n, HANDOFF[nm]), False
                if m == "socket_" and nm in ("shutdownWrite", "setTcpNoDelay"):
                    return ".sys .%s %s" % (nm, lean_str(", ".join(self.pp(a) for a in args))), True
                if m in BUFFERS and nm == "readFd":
                    return ".sys .readFd %s" % lean_str(m + ": " + ", ".join(self.pp(a) for a in args)), True
                if m in BUFFERS and nm in BUF_OPS:
                    return ".bufOp .%s %s %s" % (nm, lean_str(m), lean_str(", ".join(self.pp(a) for a in args))), True
                if nm in PURE_ON.get(m, ()):
                    return None, True
                self.err("call of `%s` on member `%s` is not in the vocabulary" % (nm, m))
            b = deref(base)
            if b.get("kind") == "DeclRefExpr":
                lname = b["referencedDecl"]["name"]
                if nm in PURE_LOCAL:
                    return None, True
                if nm in BUF_OPS:
                    return ".bufOp .%s %s %s" % (nm, lean_str(lname), lean_str(", ".join(self.pp(a) for a in args))), True
                self.err("call of `%s` on local `%s` is not in the vocabulary" % (nm, lname))
            self.err("call of `%s` on an object I cannot name" % nm)
        if k == "CXXOperatorCallExpr":
            if nm in ("operator->", "operator*"):
                return None, True
            if nm == "operator()":
                m = this_member(args[0]) if args else None
                if m is not None and m in CB_OF.get(self.cls, {}):
                    return ".cb .%s" % CB_OF[self.cls][m], True
                self.err("call of a function object that is not a known callback member")
            self.err("operator call `%s` is not in the vocabulary" % nm)
        if k == "CallExpr":
            if nm in SYS_FREE:
                return ".sys .%s %s" % (SYS_FREE[nm], lean_str(", ".join(self.pp(a) for a in args))), True
            if nm in PURE_FREE:
                return None, True
            self.err("call of free function `%s` is not in the vocabulary" % nm)
        self.err("unexpected call node %s" % k)

    def is_local(self, n):
        n = peel(n)
        return n.get("kind") == "DeclRefExpr" and n.get("referencedDecl", {}).get("kind") in ("VarDecl", "ParmVarDecl")

    def lhs_name(self, n):
        n = peel(n)
        if n.get("kind") == "UnaryOperator" and n.get("opcode") == "*" and is_errno(kids(n)[0]):
            return "errno"
        if self.is_local(n):
            return n["referencedDecl"]["name"]
        m = this_member(n) if n.get("kind") == "MemberExpr" else None
        if m is not None:
            return m
        self.err("assignment to something that is neither a local nor a member (%s)" % n.get("kind"))

    def expr(self, n, out, in_cond=False):
        """append the acts of expression `n` to `out`, in evaluation order (arguments before the call)"""
        n = peel(n)
        k = n.get("kind")
        if k == "LambdaExpr":
            self.err("lambda expression")
        if k in CALL_KINDS:
            act, descend = self.classify(n)
            if descend:
                for c in kids(n):
                    self.expr(c, out, in_cond)
            if act is not None:
                if in_cond:
                    self.err("side effect inside a condition: %s" % act)
                out.append(("act", act))
            return
        if k in CTOR_KINDS or k == "CXXFunctionalCastExpr":
            t = ctype(n)
            if not t.startswith(VALUE_TYPES):
                self.err("construction of a `%s` is not in the vocabulary" % t)
            for c in kids(n):
                self.expr(c, out, in_cond)
            return
        if k in ("BinaryOperator", "CompoundAssignOperator") and (n.get("opcode") == "=" or k == "CompoundAssignOperator"):
            l, r = kids(n)
            name = self.lhs_name(l)
            sub = []
            self.expr(r, sub, in_cond)
            if in_cond:
                self.err("assignment inside a condition")
            out.extend(sub)
            # `x = <significant call>`: the call is the action (as for `T x = <call>`); otherwise the value stored
            if name not in IGNORED_ASSIGN and not sub:
                out.append(("act", ".assign %s %s" % (lean_str(name), lean_str(self.pp(r) if n.get("opcode") == "=" else self.pp(n)))))
            return
        if k == "UnaryOperator" and n.get("opcode") in ("++", "--"):
            name = self.lhs_name(kids(n)[0])
            if in_cond:
                self.err("increment inside a condition")
            if name not in IGNORED_ASSIGN:
                out.append(("act", ".assign %s %s" % (lean_str(name), lean_str(self.pp(n)))))
            return
        if k in ("CXXNewExpr", "CXXDeleteExpr", "CXXThrowExpr", "StmtExpr"):
            self.err("%s is not in the vocabulary" % k)
        for c in kids(n):
            self.expr(c, out, in_cond)

    # ------------------------------------------------------------------ statements
    def check_log(self, n):
        for x in walk(n):
            if x.get("kind") in CALL_KINDS and callee_name(x) not in LOG_PURE:
                self.err("call of `%s` inside a log statement" % callee_name(x))
            if x.get("kind") == "LambdaExpr" or (x.get("kind") in ("BinaryOperator", "CompoundAssignOperator") and
                                                  (x.get("opcode") == "=" or x.get("kind") == "CompoundAssignOperator")):
                self.err("assignment or lambda inside a log statement")
            if x.get("kind") == "UnaryOperator" and x.get("opcode") in ("++", "--"):
                self.err("increment inside a log statement")

    def cond(self, c):
        """(name, acts to prepend to the then-branch)"""
        cid = c.get("id")
        pre = []
        if cid in conn.CAS:
            pre.append(("act", ".setState .%s" % conn.CAS[cid]))        # test and store in one step
        else:
            sink = []
            self.expr(c, sink, in_cond=True)
        if cid in conn.SITES:
            return conn.SITES[cid], pre
        if cid in conn.CAS:
            self.err("compare-and-swap gate without a guard name")
        return self.pp(c), pre

    def stmt(self, s, out):
        k = s.get("kind")
        if k == "NullStmt":
            return
        if k == "CompoundStmt":
            for c in kids(s):
                self.stmt(c, out)
            return
        if is_log_stmt(s):                                              # I1
            self.check_log(s)
            return
        if k == "IfStmt":
            ks = kids(s)
            if s.get("hasInit") or s.get("hasVar") or len(ks) not in (2, 3):
                self.err("`if` with an init statement / condition variable")
            name, pre = self.cond(ks[0])
            thn, els = list(pre), []
            self.stmt(ks[1], thn)
            if len(ks) == 3:
                self.stmt(ks[2], els)
            if thn or els:                                              # I6
                out.append(("ite", name, thn, els))
            return
        if k == "ReturnStmt":
            for c in kids(s):
                self.expr(c, out)
            out.append(("act", ".ret"))
            return
        if k == "DoStmt":
            body, cnd = kids(s)[0], kids(s)[1]
            if body.get("kind") == "CompoundStmt" and not kids(body) and peel(cnd).get("kind") in ("IntegerLiteral", "CXXBoolLiteralExpr"):
                return                                                  # I7
            self.err("a do-loop that is not an empty MUDUO_VERIF_POINT")
        if k == "DeclStmt":
            for v in kids(s):
                if v.get("kind") != "VarDecl":
                    self.err("declaration of a %s inside the body" % v.get("kind"))
                init = kids(v)
                if not init:
                    continue
                i0 = peel(init[0])
                if i0.get("kind") == "UnaryOperator" and i0.get("opcode") == "&":
                    t0 = peel(kids(i0)[0])
                    if t0.get("kind") == "DeclRefExpr" and t0.get("referencedDecl", {}).get("kind") == "CXXMethodDecl":
                        self.fnptrs[v.get("id")] = t0["referencedDecl"]["name"]     # `fp = &TcpConnection::sendInLoop` (I4)
                        continue
                sub = []
                self.expr(init[0], sub)
                t = ctype(v).replace("const ", "").strip()
                if sub:
                    out.extend(sub)                                     # e.g. `ssize_t n = sockets::write(..)`: the call
                elif t in ARITH and v["name"] not in IGNORED_ASSIGN:
                    out.append(("act", ".assign %s %s" % (lean_str(v["name"]), lean_str(self.pp(init[0])))))
            return
        if is_assert(s):
            cnd = kids(peel(s))[0]
            sink = []
            self.expr(cnd, sink, in_cond=True)
            if mentions_member(cnd):
                out.append(("act", ".assertion %s" % lean_str(assert_text(s))))
            return                                                      # I3 otherwise
        if k.endswith("Stmt") and k not in ("DeclStmt",):
            self.err("statement kind %s is outside the supported subset" % k)
        # an expression statement
        self.expr(s, out)


class FreeWalker(Walker):
    """Free functions of TcpConnection.cc (the notification trampolines, the default callbacks) and
    `WeakCallback::operator()`: the objects are parameters, locals and (WeakCallback) members, by name.
    Extra vocabulary: `shared_ptr p(<weak>.lock())` -> `lockWeak <weak> <p>`; `<callable>(args)` on a parameter / member
    function object -> `invoke <callable> <args>`; `buf->retrieveAll()` on a Buffer parameter -> `bufOp`.
    `operator bool` / `get()` of a local smart pointer and `std::forward` are values.  For `WeakCallback` the forwarded
    parameter pack is printed as `args...` whatever its length, so that every instantiation has the same skeleton."""
    LOCAL_PURE = ("get",)

    def obj_name(self, base):
        if base is None:
            return None
        b = deref(base)
        if b.get("kind") == "DeclRefExpr" and b.get("referencedDecl", {}).get("kind") in ("VarDecl", "ParmVarDecl"):
            return b["referencedDecl"]["name"]
        return this_member(base)

    def is_forward(self, a):
        a = peel(a)
        return a.get("kind") == "CallExpr" and callee_name(a) == "forward"

    def classify(self, n):
        k = n.get("kind")
        nm = callee_name(n)
        args = kids(n)[1:]
        if k == "CXXMemberCallExpr":
            callee = peel(kids(n)[0])
            obj = self.obj_name(kids(callee)[0] if kids(callee) else None)
            if obj is None:
                self.err("call of `%s` on an object I cannot name" % nm)
            if nm.startswith("operator ") and not args:
                return None, True                                       # `if (conn)`: the pointer read as a boolean
            if nm in self.LOCAL_PURE and not args:
                return None, True
            if nm in BUF_OPS:
                return ".bufOp .%s %s %s" % (nm, lean_str(obj), lean_str(", ".join(self.pp(a) for a in args))), True
            self.err("call of `%s` on `%s` is not in the vocabulary" % (nm, obj))
        if k == "CXXOperatorCallExpr":
            if nm in ("operator->", "operator*"):
                return None, True
            if nm == "operator()" and args:
                obj = self.obj_name(args[0])
                if obj is None:
                    self.err("call of a function object I cannot name")
                shown = [self.pp(a) for a in args[1:] if not self.is_forward(a)]
                if self.cls == "WeakCallback":
                    shown.append("args...")
                return ".invoke %s %s" % (lean_str(obj), lean_str(", ".join(shown))), True
            self.err("operator call `%s` is not in the vocabulary" % nm)
        if k == "CallExpr" and nm == "forward":
            return None, True
        self.err("call of `%s` is not in the vocabulary" % nm)

    def stmt(self, s, out):
        if s.get("kind") == "DeclStmt" and len(kids(s)) == 1 and kids(s)[0].get("kind") == "VarDecl" and kids(kids(s)[0]):
            v = kids(s)[0]
            e = peel(kids(v)[0])
            while e.get("kind") in CTOR_KINDS and len(kids(e)) == 1:
                e = peel(kids(e)[0])
            if e.get("kind") == "CXXMemberCallExpr" and callee_name(e) == "lock" and len(kids(e)) == 1:
                callee = peel(kids(e)[0])
                obj = self.obj_name(kids(callee)[0] if kids(callee) else None)
                if obj is None:
                    self.err("lock() on an object I cannot name")
                out.append(("act", ".lockWeak %s %s" % (lean_str(obj), lean_str(v["name"]))))
                return
        Walker.stmt(self, s, out)


def free_function(name):
    docs = ast_dump("muduo/net/TcpConnection.cc", name)
    fs = [f for d in docs for f in walk(d) if f.get("kind") == "FunctionDecl" and f.get("name") == name and body_of(f) is not None]
    seen, uniq = set(), []
    for f in fs:
        if f.get("id") not in seen:
            seen.add(f.get("id"))
            uniq.append(f)
    if len(uniq) != 1:
        raise ExtractError("expected exactly one definition of %s, found %d" % (name, len(uniq)))
    return uniq[0]


def weak_callback_instances():
    docs = ast_dump("muduo/net/TcpConnection.cc", "muduo::WeakCallback")
    ms = [m for d in docs for sp in walk(d) if sp.get("kind") == "ClassTemplateSpecializationDecl" and sp.get("name") == "WeakCallback"
          for m in kids(sp) if m.get("kind") == "CXXMethodDecl" and m.get("name") == "operator()" and body_of(m) is not None]
    if not ms:
        raise ExtractError("WeakCallback::operator(): no instantiation in TcpConnection.cc")
    return ms


FREE_FUNCTIONS = ["notifyWriteComplete", "notifyHighWaterMark", "defaultConnectionCallback", "defaultMessageCallback"]


def render(items, ind):
    pad = " " * ind
    lines = []
    for it in items:
        if it[0] == "act":
            lines.append("%s.act (%s)" % (pad, it[1]))
        else:
            _, name, thn, els = it
            s = "%s.ite %s" % (pad, lean_str(name))
            for br in (thn, els):
                if br:
                    s += "\n%s  [\n%s\n%s  ]" % (pad, render(br, ind + 4), pad)
                else:
                    s += " []"
            lines.append(s)
    return ",\n".join(lines)


HEAD_DOC = """/-!
Statement skeletons of the `TcpConnection` member functions modelled in `Model/Conn.lean` and of
`Channel::handleEventWithGuard`: the significant actions in source order, `if`s as `ite <guard> then else` named
after the guard `Generated/Conn.lean` took from that very condition (any other condition is printed).  A
compare-and-swap gate on `state_` appears as the test with the store at the head of its then-branch.
`Proofs/ConnSkelTie.lean` proves each one equal to the skeleton the model implements (`Model/ConnSkelDecl.lean`).

Not part of a skeleton (the model abstracts from exactly these):
* I1 log statements (`LOG_*`; only value getters may be called inside one, anything else stops the extraction);
* I2 `loop_->assertInLoopThread()` - the model runs the `*InLoop` functions on the loop thread by construction;
* I3 assertions over local variables only (`assert(remaining <= len)`);
* I4 declarations of non-arithmetic locals without a significant call (`guardThis`, the `expected` of a CAS), casts;
* I5 errno bookkeeping for the log line (`savedErrno`, `errno = ..`, `err`) and `Channel::eventHandling_`;
* I6 an `if` none of whose branches contains a significant action (`if (logHup_) LOG_WARN ..`);
* I7 `MUDUO_VERIF_POINT` (an empty `do { } while (0)`).
Value getters (`channel_->fd()/isWriting()/isReading()`, `readableBytes()`, `peek()`, `shared_from_this()`, reads
of `state_`, `callback_` tested as a boolean, `errno`) are not actions; every other call must be in the vocabulary
or the extraction fails.
-/
"""


def generate():
    conn.generate()            # fills conn.SITES / conn.CAS for the tree as it is now (same cached AST dump)
    docs = ast_dump("muduo/net/TcpConnection.cc", "muduo::net::TcpConnection")
    cdocs = ast_dump("muduo/net/Channel.cc", "muduo::net::Channel::handleEventWithGuard")
    out = [HEADER % "muduo/net/TcpConnection.cc, Channel.cc, muduo/base/WeakCallback.h", "import MuduoVerif.Model.ConnSkelDecl\n", HEAD_DOC,
           "namespace MuduoVerif.Gen.ConnSkel", "open MuduoVerif.ConnSkel\n"]
    todo = [(lean, "TcpConnection", the_function(docs, cxx, nparams=np)) for lean, cxx, np in CONN_FUNCTIONS]
    todo += [(lean, "TcpConnection", the_function(docs, cxx, nparams=np, param_type=pt)) for lean, cxx, np, pt in CONN_OVERLOADS]
    todo.append(("handleEventWithGuard", "Channel", the_function(cdocs, "handleEventWithGuard")))
    for lean, cls, fn in todo:
        w = Walker(cls, fn["name"])
        items = []
        w.stmt(body_of(fn), items)
        ptypes = [ctype(k) for k in kids(fn) if k.get("kind") == "ParmVarDecl"]
        out.append("/-- `%s::%s(%s)` -/" % (cls, fn["name"], ", ".join(ptypes)))
        if items:
            out.append("def %s : List Skel :=\n  [\n%s\n  ]\n" % (lean, render(items, 4)))
        else:
            out.append("def %s : List Skel := []\n" % lean)
    # the trampolines that run the connection's weak functors, and the default callbacks
    for name in FREE_FUNCTIONS:
        fn = free_function(name)
        w = FreeWalker("TcpConnection.cc", name)
        items = []
        w.stmt(body_of(fn), items)
        ptypes = [ctype(k) for k in kids(fn) if k.get("kind") == "ParmVarDecl"]
        out.append("/-- `%s(%s)` (TcpConnection.cc) -/" % (name, ", ".join(ptypes)))
        out.append(("def %s : List Skel :=\n  [\n%s\n  ]\n" % (name, render(items, 4))) if items else "def %s : List Skel := []\n" % name)
    skels = []
    for m in weak_callback_instances():
        w = FreeWalker("WeakCallback", "operator()")
        items = []
        w.stmt(body_of(m), items)
        skels.append(items)
    if any(sk != skels[0] for sk in skels[1:]):
        raise ExtractError("WeakCallback::operator(): the instantiations in TcpConnection.cc differ in statement structure")
    out.append("/-- `WeakCallback::operator()(ARGS&&...)` (muduo/base/WeakCallback.h; %d instantiation%s in TcpConnection.cc, all\n"
               "with this skeleton; the forwarded parameter pack is printed as `args...`) -/" % (len(skels), "" if len(skels) == 1 else "s"))
    out.append("def weakCallbackCall : List Skel :=\n  [\n%s\n  ]\n" % render(skels[0], 4))
    out.append("end MuduoVerif.Gen.ConnSkel")
    return "\n".join(out) + "\n"
