"""T1 for the log back-end (C16, LogFile half), second part - STATEMENT SKELETONS of the member functions of
muduo::LogFile and muduo::FileUtil::AppendFile that Model/LogFile.lean implements, from clang's AST of /repo's
current muduo/base/LogFile.cc and FileUtil.cc.

vlib/gen/logfile.py extracts the constants, every branch guard, the period arithmetic and the loop tests; what it
cannot see is the ORDER and NESTING of the statements between the guards (the roll test before the write,
`count_ = 0` after the clock was read, `lastFlush_ = now` dropped or moved out of its branch, the two clock branches
merged or split, `written += n` moved in front of the error test, `writtenBytes_` updated inside the loop, a second
`rollFile()`, the lock taken after the work ...).  This module walks each function body in source order and emits a tree

    Skel ::= act Act | ite <guard> <then> <else> | loop <whileDo | doWhile> <guard> <body>

(vocabulary: lean/MuduoVerif/Model/LogFileSkelDecl.lean; walker: vlib/logskel_common.py).  Actions: stores to members
and through pointers (`x += e` is the store of `x + e`, `++x` of `x + 1`), initialised locals and assignments to
locals, calls of other functions of the engine (`rollFile`, `append_unlocked`, `file_.append`, `file_.flush`,
`file_.reset`, `write`, `getLogFileName`, `filename.reserve`), libc calls (`time`, `gmtime_r`, `strftime`,
`snprintf`, `fopen`, `setbuffer`, `fclose`, `fflush`, `fwrite_unlocked`, `ferror`), `MutexLockGuard` (`lock`),
assertions, `break`, `return <value>`.  An `if` / `while` is named after the guard vlib/gen/logfile.py generated from
that very condition (its registry `logfile.SITES`, keyed by translation unit and clang node id); any other condition
(`mutex_`, `err`) is printed.

Lean side: Model/LogFileSkelDecl.lean declares the skeleton each model function implements;
Proofs/LogFileSkelTie.lean proves `Gen.LogFileSkel.<fn> = Decl.<fn>` by `decide`; Props/C16.lean re-exports the
conjunction (`statement_order_tied`).

Never guesses: every call must be classified (value getter / engine call / libc call) by the type of the object it is
made on or by its name; an action call nested inside another expression, an assignment inside an expression, a
statement kind outside {compound, if, while, do, break, return, declaration, expression, empty}, a lambda ->
ExtractError.

IGNORED (the model abstracts from exactly these; listed again in the header of the generated file):
  I1  diagnostic output: `fprintf(stderr, ..)` whose arguments call nothing but `strerror_tl`
  I2  declarations of locals without an initialiser or default-constructed (`char timebuf[32]`, `struct tm tm`,
      `string filename`): storage only
  I3  casts of every kind (C-style, `static_cast`, implicit conversions, temporaries, `StringArg(filename)`), `(void)x`
  I4  the base-class initialiser (`noncopyable`) and default-constructed members (`file_()`) of a constructor
  I5  `MUDUO_VERIF_POINT` (an empty `do { } while (0)` in a normal build) and empty statements
"""
from ..extract import HEADER, ExtractError, ast_dump, ctype
from ..logskel_common import Engine, Walker, index_functions, param_types, pick, render, skeleton_of, type_name
from . import logfile

NAME = "LogFileSkel"


class LogFileEngine(Engine):
    methods = {
        "LogFile": {"value": ()},
        "AppendFile": {"value": ("writtenBytes",), "call": ("append", "flush")},
        "unique_ptr": {"value": ("get",), "call": ("reset",)},
        "string": {"value": ("size", "find", "c_str", "data", "length", "empty"), "call": ("reserve",)},
        "StringArg": {"value": ("c_str",)},
    }
    free_value = ("hostname", "pid", "strerror_tl")
    free_call = ("getLogFileName",)
    free_sys = ("time", "gmtime_r", "strftime", "snprintf", "fopen", "setbuffer", "fclose", "fflush", "fwrite_unlocked",
                "ferror")
    diag_streams = ("stderr",)
    diag_pure = ("strerror_tl",)
    lock_types = ("MutexLockGuard",)
    storage_types = ("tm",)
    object_types = ()


# (Lean name, translation unit key, owner class, C++ name)
FUNCTIONS = [
    ("ctor", "LogFile.cc", "LogFile", "LogFile"),
    ("append", "LogFile.cc", "LogFile", "append"),
    ("flush", "LogFile.cc", "LogFile", "flush"),
    ("appendUnlocked", "LogFile.cc", "LogFile", "append_unlocked"),
    ("rollFile", "LogFile.cc", "LogFile", "rollFile"),
    ("getLogFileName", "LogFile.cc", "LogFile", "getLogFileName"),
    ("fileCtor", "FileUtil.cc", "AppendFile", "AppendFile"),
    ("fileDtor", "FileUtil.cc", "AppendFile", "~AppendFile"),
    ("fileAppend", "FileUtil.cc", "AppendFile", "append"),
    ("fileFlush", "FileUtil.cc", "AppendFile", "flush"),
    ("fileWrite", "FileUtil.cc", "AppendFile", "write"),
]

# Used ONLY when vlib/gen/logfile.py stopped with an ExtractError (reported as such by the engine "LogFile") before it
# had registered all its sites: the canonical print each site has on the tree logfile.py accepts.  A condition it had
# not reached and that prints exactly like this keeps the site's name, so that the functions the change did not touch
# still tie and the broken `skeleton_<fn>` theorems name the changed function(s) only.
FALLBACK_SITES = {"file_.writtenBytes() > rollSize_": "rollBySize", "count_ >= checkEveryN_": "checkDue",
                  "thisPeriod_ != startOfPeriod_": "periodChanged", "now - lastFlush_ > flushInterval_": "flushDue",
                  "now > lastRoll_": "rollAllowed", "written != len": "appendContinues", "n != remain": "appendShort"}

HEAD_DOC = """/-!
Statement skeletons of the member functions of `muduo::LogFile` and `muduo::FileUtil::AppendFile` modelled in
`Model/LogFile.lean`: the significant actions in source order - stores to members and through pointers (`x += e` is the
store of `x + e`), initialised locals and assignments to locals (`assign`), calls of other functions of the engine
(`call`), libc calls (`sys`), `MutexLockGuard` (`lock`), assertions, `break`, `return <value>` - with every expression
printed canonically (casts and smart-pointer dereferences dropped, minimal parentheses).  An `if` is
`ite <guard> then else`, a `while` is `loop .whileDo <guard> body`, named after the guard `Generated/LogFile.lean` took
from that very condition; any other condition is printed.  `<result>` is the value of the action just before it.
`Proofs/LogFileSkelTie.lean` proves each one equal to the skeleton the model implements (`Model/LogFileSkelDecl.lean`).

Not part of a skeleton (the model abstracts from exactly these):
* I1 diagnostic output: `fprintf(stderr, ..)` whose arguments call nothing but `strerror_tl`;
* I2 declarations of locals without an initialiser or default-constructed (`char timebuf[32]`, `struct tm tm`,
  `string filename`): storage only;
* I3 casts of every kind (C-style, `static_cast`, implicit conversions, temporaries, `StringArg(filename)`), `(void)x`;
* I4 the base-class initialiser (`noncopyable`) and default-constructed members (`file_()`) of a constructor;
* I5 `MUDUO_VERIF_POINT` (an empty `do { } while (0)`) and empty statements.
Value getters (`file_->writtenBytes()`, `string::size/find/c_str`, `ProcessInfo::hostname()/pid()`, `strerror_tl`) are
printed inside the expression that uses them; every other call must be classified as an action of the vocabulary or the
extraction fails, and every `for`, `switch`, `goto`, `try`, lambda stops it.
-/
"""


def generate():
    fallback = {}
    try:
        logfile.generate()         # fills logfile.SITES for the tree as it is now (same cached AST dumps)
    except ExtractError:
        fallback = FALLBACK_SITES  # reported by the engine "LogFile" itself; the sites found so far stay registered
    dumps = {"LogFile.cc": index_functions(ast_dump("muduo/base/LogFile.cc", "muduo::LogFile")),
             "FileUtil.cc": index_functions(ast_dump("muduo/base/FileUtil.cc", "muduo::FileUtil::AppendFile"))}
    out = [HEADER % "muduo/base/LogFile.cc, FileUtil.cc", "import MuduoVerif.Model.LogFileSkelDecl\n", HEAD_DOC,
           "namespace MuduoVerif.Gen.LogFileSkel", "open MuduoVerif.LogFileSkel\n"]
    for lean, tu, owner, cxx in FUNCTIONS:
        fs = pick(dumps[tu], owner, cxx)
        if len(fs) != 1:
            raise ExtractError("expected exactly one definition of %s::%s, found %d" % (owner, cxx, len(fs)))
        sites = {i: nm for (t, i), nm in logfile.SITES.items() if t == tu}
        items = skeleton_of(Walker, LogFileEngine, owner, fs[0], sites, fallback)
        out.append("/-- `%s::%s(%s)` -/" % (owner, cxx, ", ".join(t for t in param_types(fs[0]))))
        if items:
            out.append("def %s : List Skel :=\n  [\n%s\n  ]\n" % (lean, render(items, 4)))
        else:
            out.append("def %s : List Skel := []\n" % lean)
    out.append("end MuduoVerif.Gen.LogFileSkel")
    return "\n".join(out) + "\n"
