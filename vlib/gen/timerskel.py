"""T1 for the timer engine, second part - STATEMENT SKELETONS of the functions of TimerQueue.cc / Timer.cc that
Model/Timer.lean implements, from clang's AST of /repo's current sources.

vlib/gen/timer.py extracts the constants, the small integer functions and every branch GUARD; it also pins a few
statement sequences by hand (`handleRead`'s list of steps, the two statements of `reset`'s restart branch).  What it
does not see in general is the ORDER and NESTING of the statements between the guards: `delete` before the last
dereference, `activeTimers_.erase` moved out of its loop, `cancelingTimers_.clear()` after the callbacks, the two
independent `if`s at the end of `reset` merged into `if / else if`, `resetTimerfd` called unconditionally ...
This module walks each function body in source order and emits a tree

    Skel ::= act Act | ite <guard name> <then : List Skel> <else : List Skel> | each <var> <range> <body : List Skel>

of the "significant actions" (vocabulary: lean/MuduoVerif/Model/TimerSkelDecl.lean): clock readings, system calls,
`new Timer` / `delete`, every member call through a `Timer*` (each one is a dereference: `sequence()`,
`expiration()`, `repeat()`, `restart(now)`, `run()`), the mutating operations of the three sets (`timers_`,
`activeTimers_`, `cancelingTimers_`), `std::copy`, `memZero`, hand-offs to the loop (`runInLoop` / `queueInLoop` of
which function), direct calls of other functions of the engine, every store (declaration with an initialiser,
assignment to a local, a field or a member) and `return <value>`.  An `if` is named after the guard
vlib/gen/timer.py generated from that very condition (its registry `timer.SITES`, keyed by clang's node id, so that
both files always talk about the same site); any other condition is printed in a canonical form.  A range-based
`for` is `each <loop variable> <range> <body>`.

Evaluation order: the actions of the arguments precede the call; the actions of a right-hand side precede the store;
the `Timer*` getters evaluated by an `if` condition precede the `ite` (nothing else may act inside a condition).

Lean side: Model/TimerSkelDecl.lean declares the skeleton each model function implements;
Proofs/TimerSkelTie.lean proves `Gen.TimerSkel.<fn> = Decl.<fn>` by `decide`; Props/C06, C07 re-export the conjunction.

Never guesses: a call that is neither significant nor in one of the (short, explicit) lists of value-only getters,
a statement kind outside {compound, if, range-for, return, declaration, expression, empty}, a side effect inside a
condition or an assertion, a functor whose target cannot be named, a construction of a type that is not a plain
value -> ExtractError.

IGNORED (the model abstracts from exactly these; listed again in the header of the generated file):
  I1  log statements (LOG_*): `if (logLevel() <= L) Logger(..).stream() << ..` and unconditional
      `Logger(..).stream() << ..` - only value getters may be called inside (LOG_PURE), anything else is an error
  I2  `loop_->assertInLoopThread()` (the model runs every *InLoop function on the loop thread by construction)
  I3  `assert(..)` (the model has no abort event: C06 `sets_agree` proves the size assertions for every reachable
      state of the model, the asserts-on build of the differential run would show a firing one) - its condition
      may only call value getters, anything else is an error
  I4  declarations of locals without an initialiser or default-constructed (`uint64_t howmany`, `struct timespec ts`,
      `struct itimerspec newValue`, `Timestamp nextExpire` = `Timestamp()` = `Gen.Timer.timestampInvalid`,
      `std::vector<Entry> expired`), casts (`static_cast`, `reinterpret_cast`, `(void)n`)
  I6  an `if` none of whose branches contains a significant action (what remains of `if (n != sizeof howmany)
      LOG_ERROR ..` and `if (ret) LOG_SYSERR ..`)
  I7  MUDUO_VERIF_POINT (an empty `do { } while (0)` in a normal build)
"""
import re

from ..extract import HEADER, ExtractError, ast_dump, body_of, ctype, kids, the_function, walk
from . import timer
from .connskel import (CALL_KINDS, CTOR_KINDS, callee_name, deref, is_assert, is_log_stmt, is_this, lean_str, peel,
                       this_member)

NAME = "TimerSkel"

# (Lean name, class ("detail" = free function of muduo::net::detail), C++ function), in source order
TQ_FUNCTIONS = [("howMuchTimeFromNow", "detail", "howMuchTimeFromNow"), ("readTimerfd", "detail", "readTimerfd"),
                ("resetTimerfd", "detail", "resetTimerfd"), ("addTimer", "TimerQueue", "addTimer"),
                ("cancel", "TimerQueue", "cancel"), ("addTimerInLoop", "TimerQueue", "addTimerInLoop"),
                ("cancelInLoop", "TimerQueue", "cancelInLoop"), ("handleRead", "TimerQueue", "handleRead"),
                ("getExpired", "TimerQueue", "getExpired"), ("reset", "TimerQueue", "reset"),
                ("insert", "TimerQueue", "insert")]
TIMER_FUNCTIONS = [("restart", "Timer", "restart")]

SETS = {"timers_": "timers", "activeTimers_": "active", "cancelingTimers_": "cancelling"}
SET_PURE = ("find", "lower_bound", "begin", "end", "empty", "size")
TIMER_OPS = ("sequence", "expiration", "repeat", "restart", "run")
TIMER_GETTERS = ("sequence", "expiration", "repeat")            # may be evaluated by an `if` condition
TIMESTAMP_PURE = ("microSecondsSinceEpoch", "secondsSinceEpoch", "valid", "toString")
HANDOFF = {"queueInLoop": "queue", "runInLoop": "run"}
SYS_FREE = {"read": "read", "timerfd_settime": "timerfdSettime"}
ENGINE_CALLS = ("howMuchTimeFromNow", "readTimerfd", "resetTimerfd")        # free functions of the engine
PURE_FREE = ("move", "back_inserter", "addTime", "invalid")                 # value builders / pure functions
PURE_OPS = ("operator->", "operator*", "operator==", "operator!=", "operator<")
LOG_PURE = ("operator<<", "stream", "toString", "strerror_tl", "logLevel", "__errno_location", "c_str")
FUNCTOR_BUILDERS = ("bind",)
# types whose construction / copy is not an action (after `short_type`)
VALUE_TYPES = ("std::", "Entry", "ActiveTimer", "Timestamp", "TimerId", "TimerCallback", "TimerList::", "ActiveTimerSet::",
               "itimerspec", "timespec", "Functor", "EventLoop::Functor", "back_insert_iterator<", "__gnu_cxx::",
               "_Rb_tree_const_iterator<", "function<", "pair<", "typename _Bind_helper<")


def short_type(t):
    t = t.strip()
    for p in ("const ", "struct "):
        while t.startswith(p):
            t = t[len(p):]
    for q in ("muduo::net::", "muduo::", "TimerQueue::"):
        if t.startswith(q):
            t = t[len(q):]
    return t.strip()


def is_timer_ptr(n):
    """the expression `n` (the base of `n->f()`) is a `Timer*`"""
    for x in (n, peel(n)):
        t = ctype(x).replace("const", "").strip()
        if re.search(r"(^|::)Timer \*$", t):
            return True
    return False


def is_timestamp(n):
    for x in (n, peel(n)):
        if short_type(ctype(x)).rstrip(" &") == "Timestamp":
            return True
    return False


class Walker:
    """one function body -> list of Skel (as nested Python tuples)"""

    def __init__(self, cls, fname):
        self.cls, self.fname = cls, fname

    def err(self, msg):
        raise ExtractError("%s::%s: %s" % (self.cls, self.fname, msg))

    # ------------------------------------------------------------------ canonical printing
    def pp(self, n, top=True):
        n = peel(n)
        k = n.get("kind")
        if k == "IntegerLiteral":
            return str(int(n["value"]))
        if k == "CXXBoolLiteralExpr":
            return "true" if n["value"] else "false"
        if k in ("CXXNullPtrLiteralExpr", "GNUNullExpr"):
            return "nullptr"
        if k == "FloatingLiteral":
            return str(n["value"])
        if k == "StringLiteral":
            return n["value"]
        if k == "CXXThisExpr":
            return "this"
        if k == "DeclRefExpr":
            return n["referencedDecl"]["name"]
        if k == "MemberExpr":
            if not kids(n) or peel(kids(n)[0]).get("kind") == "CXXThisExpr":
                return n["name"]
            return self.pp(deref(kids(n)[0]), False) + "." + n["name"]
        if k == "CXXMemberCallExpr":
            callee = peel(kids(n)[0])
            if callee.get("kind") != "MemberExpr":
                self.err("cannot print a call through %s" % callee.get("kind"))
            if callee.get("name", "").startswith("operator ") and len(kids(n)) == 1:
                return self.pp(deref(kids(callee)[0]), False)          # conversion operator: the object itself
            return "%s(%s)" % (self.pp(callee, False), ", ".join(self.pp(a) for a in kids(n)[1:]))
        if k == "CXXOperatorCallExpr":
            op = callee_name(n) or "operator?"
            args = kids(n)[1:]
            if op in ("operator->", "operator*") and len(args) == 1:
                return self.pp(args[0], False)
            sym = op[len("operator"):]
            if len(args) == 2:
                s = "%s %s %s" % (self.pp(args[0], False), sym, self.pp(args[1], False))
                return s if top else "(" + s + ")"
            if len(args) == 1:
                return sym + self.pp(args[0], False)
            self.err("cannot print operator call %s" % op)
        if k == "CallExpr":
            nm = callee_name(n)
            if nm is None:
                self.err("cannot print an indirect call")
            return "%s(%s)" % (nm, ", ".join(self.pp(a) for a in kids(n)[1:]))
        if k == "UnaryOperator":
            op = n.get("opcode")
            a = kids(n)[0]
            if n.get("isPostfix"):
                return self.pp(a, False) + op
            return op + self.pp(a, False)
        if k in ("BinaryOperator", "CompoundAssignOperator"):
            l, r = kids(n)
            s = "%s %s %s" % (self.pp(l, False), n.get("opcode"), self.pp(r, False))
            return s if top else "(" + s + ")"
        if k == "ConditionalOperator":
            c, a, b = kids(n)
            return "(%s ? %s : %s)" % (self.pp(c, False), self.pp(a, False), self.pp(b, False))
        if k in CTOR_KINDS or k == "CXXFunctionalCastExpr":
            args = kids(n)
            if len(args) == 1 and k != "CXXTemporaryObjectExpr":
                return self.pp(args[0], top)                           # copy / conversion: the value itself
            return "%s(%s)" % (short_type(ctype(n)), ", ".join(self.pp(a) for a in args))
        if k == "CXXNewExpr":
            ks = kids(n)
            if len(ks) != 1 or ks[0].get("kind") != "CXXConstructExpr":
                self.err("`new` of something that is not one constructor call")
            return "new %s(%s)" % (short_type(ctype(ks[0])), ", ".join(self.pp(a) for a in kids(ks[0])))
        if k == "UnaryExprOrTypeTraitExpr":
            return "%s(%s)" % (n.get("name", "sizeof"), ", ".join(self.pp(a) for a in kids(n)) or n.get("argType", {}).get("qualType", ""))
        if k == "CXXDefaultArgExpr":
            return "<default>"
        self.err("cannot print expression node %s" % k)

    def args(self, call):
        return lean_str(", ".join(self.pp(a) for a in kids(call)[1:]))

    # ------------------------------------------------------------------ calls
    def functor(self, call, kind):
        """Act of `loop_->queueInLoop/runInLoop(functor)`: which member function it runs, with its bound value arguments"""
        args = kids(call)[1:]
        if len(args) != 1:
            self.err("%s with %d arguments" % (kind, len(args)))
        f = args[0]
        targets = []
        for x in walk(f):
            k = x.get("kind")
            if k == "LambdaExpr":
                self.err("a lambda is handed to the loop (cannot name what it runs)")
            if k in CALL_KINDS and callee_name(x) not in FUNCTOR_BUILDERS:
                self.err("call of `%s` while building the functor handed to %s" % (callee_name(x), kind))
            if k == "UnaryOperator" and x.get("opcode") == "&":
                t = peel(kids(x)[0])
                if t.get("kind") == "DeclRefExpr" and t.get("referencedDecl", {}).get("kind") in ("CXXMethodDecl", "FunctionDecl"):
                    targets.append(t["referencedDecl"]["name"])
        binds = [x for x in walk(f) if x.get("kind") == "CallExpr" and callee_name(x) == "bind"]
        if len(binds) != 1 or len(targets) != 1:
            self.err("cannot name the function the functor handed to %s runs (candidates: %s)" % (kind, targets))
        bargs = kids(binds[0])[1:]
        if len(bargs) < 2 or peel(bargs[1]).get("kind") != "CXXThisExpr":
            self.err("the functor handed to %s is not bound to `this`" % kind)
        extra = [self.pp(a) for a in bargs[2:]]
        return ".%s %s" % (kind, lean_str("%s(%s)" % (targets[0], ", ".join(extra))))

    def classify(self, n):
        """(act or None, descend into the arguments?) of one call node; unknown -> ExtractError"""
        k = n.get("kind")
        nm = callee_name(n)
        if k == "CXXMemberCallExpr":
            callee = peel(kids(n)[0])
            base = kids(callee)[0] if kids(callee) else None
            if base is None or is_this(base):
                return ".call %s %s" % (lean_str(nm), self.args(n)), True
            if nm.startswith("operator ") and len(kids(n)) == 1:
                return None, True                                       # conversion operator: a value
            m = this_member(base)
            if m in SETS:
                if nm in SET_PURE:
                    return None, True
                if nm in ("insert", "clear") or (nm == "erase" and len(kids(n)) in (2, 3)):
                    op = "eraseRange" if (nm == "erase" and len(kids(n)) == 3) else nm
                    return ".setOp .%s .%s %s" % (SETS[m], op, self.args(n)), True
                self.err("operation `%s` on the set `%s` is not in the vocabulary" % (nm, m))
            if m == "loop_":
                if nm == "assertInLoopThread":
                    return None, False                                  # I2
                if nm in HANDOFF:
                    return self.functor(n, HANDOFF[nm]), False
                self.err("call of `%s` on `loop_` is not in the vocabulary" % nm)
            if callee.get("isArrow") and is_timer_ptr(base):
                if nm in TIMER_OPS:
                    return ".tmr .%s %s %s" % ("repeats" if nm == "repeat" else nm, lean_str(self.pp(base)), self.args(n)), True
                self.err("call of `%s` through a Timer* is not in the vocabulary" % nm)
            if is_timestamp(base) and nm in TIMESTAMP_PURE:
                return None, True
            if m is not None:
                self.err("call of `%s` on member `%s` is not in the vocabulary" % (nm, m))
            self.err("call of `%s` on `%s` is not in the vocabulary" % (nm, self.pp(base)))
        if k == "CXXOperatorCallExpr":
            if nm in PURE_OPS:
                return None, True
            self.err("operator call `%s` is not in the vocabulary" % nm)
        if k == "CallExpr":
            c = peel(kids(n)[0])
            rd = c.get("referencedDecl", {}) if c.get("kind") == "DeclRefExpr" else {}
            if nm == "now" and rd.get("kind") == "CXXMethodDecl" and len(kids(n)) == 1:
                return ".clock", False                                  # Timestamp::now()
            if nm in SYS_FREE:
                return ".sys .%s %s" % (SYS_FREE[nm], self.args(n)), True
            if nm == "memZero":
                return ".zero %s" % self.args(n), True
            if nm == "copy":
                return ".copyOut %s" % self.args(n), True
            if nm in ENGINE_CALLS:
                return ".call %s %s" % (lean_str(nm), self.args(n)), True
            if nm in PURE_FREE:
                return None, True
            self.err("call of free function `%s` is not in the vocabulary" % nm)
        self.err("unexpected call node %s" % k)

    def lhs_name(self, n):
        n = peel(n)
        if n.get("kind") in ("DeclRefExpr", "MemberExpr"):
            for x in walk(n):
                if x.get("kind") in CALL_KINDS:
                    self.err("assignment through a call")
            return self.pp(n)
        self.err("assignment to something that is neither a local, a field nor a member (%s)" % n.get("kind"))

    def emit(self, out, act, in_cond):
        if in_cond == "pure":
            self.err("side effect inside an assertion or a log statement: %s" % act)
        if in_cond and not any(act.startswith(".tmr .%s " % ("repeats" if g == "repeat" else g)) for g in TIMER_GETTERS):
            self.err("side effect inside a condition: %s" % act)
        out.append(("act", act))

    def expr(self, n, out, in_cond=False):
        """append the acts of expression `n` to `out`, in evaluation order (arguments before the call, right-hand
        side before the store)"""
        n = peel(n)
        k = n.get("kind")
        if k == "LambdaExpr":
            self.err("lambda expression")
        if k == "CXXOperatorCallExpr" and callee_name(n) == "operator=":
            ks = kids(n)
            self.store(ks[1], ks[2], out, in_cond)
            return
        if k in CALL_KINDS:
            act, descend = self.classify(n)
            if descend:
                for c in kids(n):
                    self.expr(c, out, in_cond)
            if act is not None:
                self.emit(out, act, in_cond)
            return
        if k in CTOR_KINDS or k == "CXXFunctionalCastExpr":
            t = short_type(ctype(n))
            if not t.startswith(VALUE_TYPES):
                self.err("construction of a `%s` is not in the vocabulary" % t)
            for c in kids(n):
                self.expr(c, out, in_cond)
            return
        if k == "CXXNewExpr":
            ks = kids(n)
            if len(ks) != 1 or ks[0].get("kind") != "CXXConstructExpr" or short_type(ctype(ks[0])) != "Timer":
                self.err("`new` of something that is not a Timer")
            for c in kids(ks[0]):
                self.expr(c, out, in_cond)
            self.emit(out, ".alloc %s" % lean_str(self.pp(n)[len("new "):]), in_cond)
            return
        if k == "CXXDeleteExpr":
            a = kids(n)[0]
            self.expr(a, out, in_cond)
            self.emit(out, ".free %s" % lean_str(self.pp(a)), in_cond)
            return
        if k == "BinaryOperator" and n.get("opcode") == "=":
            l, r = kids(n)
            self.store(l, r, out, in_cond)
            return
        if k == "CompoundAssignOperator" or (k == "UnaryOperator" and n.get("opcode") in ("++", "--")):
            name = self.lhs_name(kids(n)[0])
            if k == "CompoundAssignOperator":
                self.expr(kids(n)[1], out, in_cond)
            self.emit(out, ".assign %s %s" % (lean_str(name), lean_str(self.pp(n))), in_cond)
            return
        if k in ("CXXThrowExpr", "StmtExpr"):
            self.err("%s is not in the vocabulary" % k)
        for c in kids(n):
            self.expr(c, out, in_cond)

    def store(self, l, r, out, in_cond):
        name = self.lhs_name(l)
        self.expr(r, out, in_cond)
        self.emit(out, ".assign %s %s" % (lean_str(name), lean_str(self.pp(r))), in_cond)

    # ------------------------------------------------------------------ statements
    def check_log(self, n):
        for x in walk(n):
            if x.get("kind") in CALL_KINDS and callee_name(x) not in LOG_PURE:
                self.err("call of `%s` inside a log statement" % callee_name(x))
            if x.get("kind") in ("LambdaExpr", "CXXNewExpr", "CXXDeleteExpr", "CompoundAssignOperator") or (
                    x.get("kind") == "BinaryOperator" and x.get("opcode") == "="):
                self.err("assignment, allocation or lambda inside a log statement")
            if x.get("kind") == "UnaryOperator" and x.get("opcode") in ("++", "--"):
                self.err("increment inside a log statement")

    def cond(self, c, out):
        """name of the condition; the Timer* getters it evaluates go to `out` (before the `ite`)"""
        self.expr(c, out, in_cond=True)
        cid = c.get("id")
        if cid in timer.SITES:
            return timer.SITES[cid]
        return self.pp(c)

    def stmt(self, s, out):
        k = s.get("kind")
        if k == "NullStmt":
            return
        if k == "CompoundStmt":
            for c in kids(s):
                self.stmt(c, out)
            return
        if is_log_stmt(s):                                              # I1
            self.check_log(s)
            return
        if k == "IfStmt":
            ks = kids(s)
            if s.get("hasInit") or s.get("hasVar") or len(ks) not in (2, 3):
                self.err("`if` with an init statement / condition variable")
            name = self.cond(ks[0], out)
            thn, els = [], []
            self.stmt(ks[1], thn)
            if len(ks) == 3:
                self.stmt(ks[2], els)
            if thn or els:                                              # I6
                out.append(("ite", name, thn, els))
            return
        if k == "CXXForRangeStmt":
            ks = kids(s)
            if len(ks) != 7 or [x.get("kind") for x in ks[:3]] != ["DeclStmt"] * 3 or ks[5].get("kind") != "DeclStmt":
                self.err("range-based `for` of an unexpected shape")
            rng, var = kids(ks[0])[0], kids(ks[5])[0]
            if rng.get("name", "").find("__range") != 0 or var.get("kind") != "VarDecl" or not kids(rng) or not kids(var):
                self.err("range-based `for` of an unexpected shape")
            it = peel(kids(var)[0])
            if not (it.get("kind") == "CXXOperatorCallExpr" and callee_name(it) == "operator*") and not (
                    it.get("kind") == "UnaryOperator" and it.get("opcode") == "*"):
                self.err("range-based `for` whose variable is not the element itself")
            sink = []
            self.expr(kids(rng)[0], sink, in_cond="pure")
            body = []
            self.stmt(ks[6], body)
            out.append(("each", var["name"], self.pp(kids(rng)[0]), body))
            return
        if k == "ReturnStmt":
            val = ""
            for c in kids(s):
                self.expr(c, out)
                val = self.pp(c)
            out.append(("act", ".ret %s" % lean_str(val)))
            return
        if k == "DoStmt":
            body, cnd = kids(s)[0], kids(s)[1]
            if body.get("kind") == "CompoundStmt" and not kids(body) and peel(cnd).get("kind") in ("IntegerLiteral", "CXXBoolLiteralExpr"):
                return                                                  # I7
            self.err("a do-loop that is not an empty MUDUO_VERIF_POINT")
        if k == "DeclStmt":
            for v in kids(s):
                if v.get("kind") != "VarDecl":
                    self.err("declaration of a %s inside the body" % v.get("kind"))
                init = kids(v)
                if not init:
                    continue                                            # I4: no initialiser
                i0 = peel(init[0])
                if i0.get("kind") == "CXXConstructExpr" and not kids(i0):
                    t = short_type(ctype(i0))
                    if not t.startswith(VALUE_TYPES):
                        self.err("default construction of a `%s` is not in the vocabulary" % t)
                    continue                                            # I4: default-constructed
                self.expr(init[0], out)
                out.append(("act", ".assign %s %s" % (lean_str(v["name"]), lean_str(self.pp(init[0])))))
            return
        if is_assert(s):                                                # I3
            sink = []
            self.expr(kids(peel(s))[0], sink, in_cond="pure")
            return
        if k.endswith("Stmt"):
            self.err("statement kind %s is outside the supported subset" % k)
        # an expression statement
        self.expr(s, out)


def render(items, ind):
    pad = " " * ind
    lines = []
    for it in items:
        if it[0] == "act":
            lines.append("%s.act (%s)" % (pad, it[1]))
        elif it[0] == "each":
            _, var, rng, body = it
            s = "%s.each %s %s" % (pad, lean_str(var), lean_str(rng))
            s += "\n%s  [\n%s\n%s  ]" % (pad, render(body, ind + 4), pad) if body else " []"
            lines.append(s)
        else:
            _, name, thn, els = it
            s = "%s.ite %s" % (pad, lean_str(name))
            for br in (thn, els):
                if br:
                    s += "\n%s  [\n%s\n%s  ]" % (pad, render(br, ind + 4), pad)
                else:
                    s += " []"
            lines.append(s)
    return ",\n".join(lines)


HEAD_DOC = """/-!
Statement skeletons of the functions of `TimerQueue.cc` / `Timer.cc` modelled in `Model/Timer.lean`: the significant
actions in source order - clock readings, system calls, `new Timer` / `delete`, every member call through a `Timer*`
(a dereference), the mutating operations of `timers_` / `activeTimers_` / `cancelingTimers_`, `std::copy`, `memZero`,
hand-offs to the loop, calls of other functions of the engine, every store (declaration with an initialiser or
assignment; the actions of the right-hand side come first) and `return <value>`.  `if`s are `ite <guard> then else`,
named after the guard `Generated/Timer.lean` took from that very condition (any other condition is printed); the
`Timer*` getters a condition evaluates precede the `ite`.  A range-based `for` is `each <variable> <range> <body>`.
`Proofs/TimerSkelTie.lean` proves each one equal to the skeleton the model implements (`Model/TimerSkelDecl.lean`).

Not part of a skeleton (the model abstracts from exactly these):
* I1 log statements (`LOG_*`; only value getters may be called inside one, anything else stops the extraction);
* I2 `loop_->assertInLoopThread()` - the model runs the `*InLoop` functions on the loop thread by construction;
* I3 `assert(..)` - the model has no abort event (C06 `sets_agree` proves the size assertions for every reachable state
  of the model); a condition that does more than call value getters stops the extraction;
* I4 declarations of locals without an initialiser or default-constructed (`howmany`, `ts`, `newValue`, `oldValue`,
  `expired`, `Timestamp nextExpire` - the invalid `Timestamp()`, `Gen.Timer.timestampInvalid`), casts (incl. `(void)n`);
* I6 an `if` none of whose branches contains a significant action (`if (n != sizeof howmany) LOG_ERROR ..`,
  `if (ret) LOG_SYSERR ..`);
* I7 `MUDUO_VERIF_POINT` (an empty `do { } while (0)`).
Value getters (`find`, `lower_bound`, `begin`, `end`, `empty`, `size` of the sets, `Timestamp`'s
`microSecondsSinceEpoch()/valid()`, `Timestamp::invalid()`, `addTime`, `std::move`, `back_inserter`, iterator `->`/`*`,
comparisons) are not actions; every other call, construction or statement kind must be in the vocabulary or the
extraction fails.
-/
"""


def generate():
    timer.generate()           # fills timer.SITES for the tree as it is now (same cached AST dump)
    docs = ast_dump("muduo/net/TimerQueue.cc", "muduo::net::TimerQueue")
    ddocs = ast_dump("muduo/net/TimerQueue.cc", "muduo::net::detail::")
    rdocs = ast_dump("muduo/net/Timer.cc", "muduo::net::Timer")
    out = [HEADER % "muduo/net/TimerQueue.cc, muduo/net/Timer.cc", "import MuduoVerif.Model.TimerSkelDecl\n", HEAD_DOC,
           "namespace MuduoVerif.Gen.TimerSkel", "open MuduoVerif.TimerSkel\n"]
    todo = [(lean, cls, the_function(ddocs if cls == "detail" else docs, cxx)) for lean, cls, cxx in TQ_FUNCTIONS]
    todo += [(lean, cls, the_function(rdocs, cxx)) for lean, cls, cxx in TIMER_FUNCTIONS]
    for lean, cls, fn in todo:
        w = Walker(cls, fn["name"])
        items = []
        w.stmt(body_of(fn), items)
        ptypes = [short_type(ctype(k)) for k in kids(fn) if k.get("kind") == "ParmVarDecl"]
        out.append("/-- `%s::%s(%s)` -/" % (cls, fn["name"], ", ".join(ptypes)))
        if items:
            out.append("def %s : List Skel :=\n  [\n%s\n  ]\n" % (lean, render(items, 4)))
        else:
            out.append("def %s : List Skel := []\n" % lean)
    out.append("end MuduoVerif.Gen.TimerSkel")
    return "\n".join(out) + "\n"
