"""T1 for the Buffer engine, second part - STATEMENT SKELETONS of the member functions of muduo::net::Buffer that
Model/Buffer.lean implements, from clang's AST of /repo's current muduo/net/Buffer.h and Buffer.cc.

vlib/gen/buffer.py extracts the constants and the five branch guards; what it cannot see is WHICH index moves by
how much, in which ORDER, under which guard, what `makeSpace` copies where, how `readFd` lays out its two iovecs and
what it appends afterwards.  This module walks each function body in source order and emits a tree

    Skel ::= act Act | ite <guard name | printed condition> <then : List Skel> <else : List Skel>

(vocabulary: lean/MuduoVerif/Model/BufferSkelDecl.lean).  Actions: stores to `readerIndex_` / `writerIndex_`
(`x += e` is the store of `x + e`), `buffer_.resize`, `std::copy`, `memcpy`, exchanges (`std::swap`,
`buffer_.swap`), calls of other member functions (on `this` or on a local Buffer), `sockets::readv`, every other
assignment and every initialised local, assertions, `return <value>`.  All expressions are printed canonically
(casts dropped, minimal parentheses by C precedence).  An `if` is named after the guard vlib/gen/buffer.py generates
from that very condition (`buffer.locate_sites`, same cached AST dump, matched by clang's node id); `iovcnt`'s
initialiser is printed as `Gen.readFdIovcnt(writable)` for the same reason; any other condition is printed.

Lean side: Model/BufferSkelDecl.lean declares the skeleton each model function implements;
Proofs/BufferSkelTie.lean proves `Gen.BufferSkel.<fn> = Decl.<fn>` by `decide`; Props/C10.lean re-exports the
conjunction (`statement_order_tied`).

Never guesses: every call must be either a known value getter (printed inside the expression it occurs in) or a
known action at statement level; an action call nested inside another expression, a side effect inside a condition
or an argument, a statement kind outside {compound, if, return, declaration, expression, empty} (so: every loop,
switch, goto, try), a lambda -> ExtractError.

IGNORED (the model abstracts from exactly these; listed again in the header of the generated file):
  I1  declarations of locals without an initialiser (`char extrabuf[65536]`, `struct iovec vec[2]`: storage only; the
      size and storage class of `extrabuf` are tied by Generated/Buffer.lean)
  I2  casts of every kind (`static_cast`, `implicit_cast<T>(x)`, C-style, implicit conversions, temporaries)
  I3  the base-class initialiser of the constructor (`muduo::copyable`, an empty tag class)
  I4  `MUDUO_VERIF_POINT` (an empty `do { } while (0)` in a normal build) and empty statements
No log statement occurs in Buffer.h / Buffer.cc; one would stop the extraction (`Logger` is not in the vocabulary).
NOT extracted (no counterpart in the model): `begin()` (address of the storage), `internalCapacity()`, the implicit
copy / move operations.
"""
from ..extract import HEADER, ExtractError, ast_dump, body_of, ctype, kids, walk
from . import buffer

NAME = "BufferSkel"

# (Lean name, C++ name, parameter types as clang prints them or None when the name is not overloaded, const-qualified or None)
FUNCTIONS = [
    ("ctor", "Buffer", None, None),
    ("swap", "swap", None, None),
    ("readableBytes", "readableBytes", None, None),
    ("writableBytes", "writableBytes", None, None),
    ("prependableBytes", "prependableBytes", None, None),
    ("peek", "peek", None, None),
    ("findCRLF", "findCRLF", [], None),
    ("findCRLFFrom", "findCRLF", ["const char *"], None),
    ("findEOL", "findEOL", [], None),
    ("findEOLFrom", "findEOL", ["const char *"], None),
    ("retrieve", "retrieve", None, None),
    ("retrieveUntil", "retrieveUntil", None, None),
    ("retrieveInt64", "retrieveInt64", None, None),
    ("retrieveInt32", "retrieveInt32", None, None),
    ("retrieveInt16", "retrieveInt16", None, None),
    ("retrieveInt8", "retrieveInt8", None, None),
    ("retrieveAll", "retrieveAll", None, None),
    ("retrieveAllAsString", "retrieveAllAsString", None, None),
    ("retrieveAsString", "retrieveAsString", None, None),
    ("toStringPiece", "toStringPiece", None, None),
    ("appendPiece", "append", ["const muduo::StringPiece &"], None),
    ("append", "append", ["const char *", "size_t"], None),
    ("appendVoid", "append", ["const void *", "size_t"], None),
    ("ensureWritableBytes", "ensureWritableBytes", None, None),
    ("beginWrite", "beginWrite", [], False),
    ("beginWriteConst", "beginWrite", [], True),
    ("hasWritten", "hasWritten", None, None),
    ("unwrite", "unwrite", None, None),
    ("appendInt64", "appendInt64", None, None),
    ("appendInt32", "appendInt32", None, None),
    ("appendInt16", "appendInt16", None, None),
    ("appendInt8", "appendInt8", None, None),
    ("readInt64", "readInt64", None, None),
    ("readInt32", "readInt32", None, None),
    ("readInt16", "readInt16", None, None),
    ("readInt8", "readInt8", None, None),
    ("peekInt64", "peekInt64", None, None),
    ("peekInt32", "peekInt32", None, None),
    ("peekInt16", "peekInt16", None, None),
    ("peekInt8", "peekInt8", None, None),
    ("prependInt64", "prependInt64", None, None),
    ("prependInt32", "prependInt32", None, None),
    ("prependInt16", "prependInt16", None, None),
    ("prependInt8", "prependInt8", None, None),
    ("prepend", "prepend", None, None),
    ("shrink", "shrink", None, None),
    ("makeSpace", "makeSpace", None, None),
    ("readFd", "readFd", None, None),
]

# value getters: printed inside the expression they occur in, never an action
PURE_THIS = ("readableBytes", "writableBytes", "prependableBytes", "peek", "beginWrite", "begin", "toStringPiece",
             "peekInt64", "peekInt32", "peekInt16", "peekInt8", "internalCapacity")
PURE_STORAGE = ("size", "capacity")                                      # on buffer_
PURE_PIECE = ("data", "size")                                            # on a StringPiece
PURE_FREE = ("search", "memchr", "hostToNetwork64", "hostToNetwork32", "hostToNetwork16", "networkToHost64",
             "networkToHost32", "networkToHost16")
CAST_FREE = ("implicit_cast", "down_cast")
SYS_FREE = {"readv": "readv"}
INDEX = {"readerIndex_": "setReader", "writerIndex_": "setWriter"}
STORAGE = "buffer_"
BUFFER_TYPES = ("muduo::net::Buffer", "Buffer")
PIECE_TYPES = ("muduo::StringPiece", "StringPiece")

PEEL_KINDS = ("ParenExpr", "ExprWithCleanups", "MaterializeTemporaryExpr", "CXXBindTemporaryExpr", "ConstantExpr",
              "ImplicitCastExpr", "CStyleCastExpr", "CXXStaticCastExpr", "CXXReinterpretCastExpr", "CXXConstCastExpr")
CALL_KINDS = ("CXXMemberCallExpr", "CallExpr", "CXXOperatorCallExpr")
CTOR_KINDS = ("CXXConstructExpr", "CXXTemporaryObjectExpr")

# C precedence (larger binds tighter)
PREC = {"*": 13, "/": 13, "%": 13, "+": 12, "-": 12, "<<": 11, ">>": 11, "<": 9, "<=": 9, ">": 9, ">=": 9,
        "==": 8, "!=": 8, "&": 7, "^": 6, "|": 5, "&&": 4, "||": 3}
P_ATOM, P_UNARY, P_COND = 16, 15, 2


def base_type(t):
    t = t.replace("const ", "").replace("struct ", "").strip()
    while t.endswith("&") or t.endswith("*"):
        t = t[:-1].strip()
    return t


def peel(n):
    """skip parentheses, temporaries and every cast (I2)"""
    while True:
        k = n.get("kind")
        if k in PEEL_KINDS and kids(n):
            n = kids(n)[0]
        elif k == "CXXFunctionalCastExpr" and kids(n) and n.get("castKind") != "ConstructorConversion":
            n = kids(n)[0]
        elif k == "CallExpr" and callee_name(n) in CAST_FREE and len(kids(n)) == 2:
            n = kids(n)[1]
        else:
            return n


def peel_plain(n):
    while n.get("kind") in PEEL_KINDS and kids(n):
        n = kids(n)[0]
    return n


def lean_str(s):
    return '"' + s.replace("\\", "\\\\").replace('"', '\\"').replace("\n", "\\n") + '"'


def callee_name(n):
    ks = kids(n)
    if not ks:
        return None
    c = peel_plain(ks[0])
    if c.get("kind") == "MemberExpr":
        return c.get("name")
    if c.get("kind") == "DeclRefExpr":
        return c.get("referencedDecl", {}).get("name")
    return None


def is_assert(n):
    n = peel_plain(n)
    return n.get("kind") == "ConditionalOperator" and any(
        x.get("referencedDecl", {}).get("name") in ("__assert_fail", "__assert_perror_fail") for x in walk(n))


def is_errno(n):
    n = peel_plain(n)
    return n.get("kind") == "CallExpr" and callee_name(n) == "__errno_location"


class Walker:
    """one function -> list of Skel (nested Python tuples)"""

    def __init__(self, fname, sites, ctor_default):
        self.fname, self.sites, self.ctor_default = fname, sites, ctor_default

    def err(self, msg):
        raise ExtractError("Buffer::%s: %s" % (self.fname, msg))

    # ------------------------------------------------------------------ what a call is
    def classify(self, n):
        """('value', None) for a getter, ('cast', None), or ('action', act-builder) for a call node"""
        k = n.get("kind")
        nm = callee_name(n)
        args = kids(n)[1:]
        if k == "CXXMemberCallExpr":
            callee = peel_plain(kids(n)[0])
            if callee.get("kind") != "MemberExpr":
                self.err("call through %s" % callee.get("kind"))
            base = peel_plain(kids(callee)[0]) if kids(callee) else {"kind": "CXXThisExpr"}
            bk = base.get("kind")
            if bk == "CXXThisExpr":
                if nm in PURE_THIS:
                    return "value", None
                return "action", lambda: ".call %s %s" % (lean_str(nm), lean_str(self.args(args)))
            if bk == "MemberExpr" and base.get("name") == STORAGE:
                owner = peel_plain(kids(base)[0]) if kids(base) else {"kind": "CXXThisExpr"}
                if nm in PURE_STORAGE:
                    return "value", None
                if owner.get("kind") != "CXXThisExpr":
                    self.err("`%s.%s.%s(..)` changes the storage of another buffer" % (self.pp(owner), STORAGE, nm))
                if nm == "resize" and len(args) == 1:
                    return "action", lambda: ".resize %s" % lean_str(self.pp(args[0]))
                if nm == "swap" and len(args) == 1:
                    return "action", lambda: ".swap %s %s" % (lean_str(STORAGE), lean_str(self.pp(args[0])))
                self.err("call of `%s` on the storage is not in the vocabulary" % nm)
            if bk == "DeclRefExpr":
                t = base_type(ctype(base))
                obj = base["referencedDecl"]["name"]
                if t in BUFFER_TYPES:
                    if nm in PURE_THIS:
                        return "value", None
                    return "action", lambda: ".call %s %s" % (lean_str(obj + "." + nm), lean_str(self.args(args)))
                if t in PIECE_TYPES and nm in PURE_PIECE:
                    return "value", None
                self.err("call of `%s` on `%s` (a %s) is not in the vocabulary" % (nm, obj, t))
            self.err("call of `%s` on an object I cannot name (%s)" % (nm, bk))
        if k == "CallExpr":
            if nm in CAST_FREE and len(args) == 1:
                return "cast", None
            if nm in PURE_FREE or nm == "__errno_location":
                return "value", None
            if nm == "copy" and len(args) == 3:
                return "action", lambda: ".copy %s %s %s" % tuple(lean_str(self.pp(a)) for a in args)
            if nm == "memcpy" and len(args) == 3:
                return "action", lambda: ".memcpy %s %s %s" % tuple(lean_str(self.pp(a)) for a in args)
            if nm == "swap" and len(args) == 2:
                return "action", lambda: ".swap %s %s" % tuple(lean_str(self.pp(a)) for a in args)
            if nm in SYS_FREE:
                return "action", lambda: ".sys .%s %s" % (SYS_FREE[nm], lean_str(self.args(args)))
            self.err("call of free function `%s` is not in the vocabulary" % nm)
        if k == "CXXOperatorCallExpr":
            self.err("operator call `%s` is not in the vocabulary" % nm)
        self.err("unexpected call node %s" % k)

    def args(self, args):
        return ", ".join(self.pp(a) for a in args)

    # ------------------------------------------------------------------ canonical printing (values only)
    def pp(self, n, ctx=0):
        s, p = self.pp_(n)
        return s if p >= ctx else "(" + s + ")"

    def pp_(self, n):
        """(text, precedence); raises on anything with a side effect"""
        n = peel(n)
        k = n.get("kind")
        if k == "IntegerLiteral":
            return str(int(n["value"])), P_ATOM
        if k == "CharacterLiteral":
            return "char(%d)" % int(n["value"]), P_ATOM
        if k == "CXXBoolLiteralExpr":
            return ("true" if n["value"] else "false"), P_ATOM
        if k in ("CXXNullPtrLiteralExpr", "GNUNullExpr"):
            return "NULL", P_ATOM
        if k == "StringLiteral":
            return n["value"], P_ATOM
        if k == "CXXThisExpr":
            return "this", P_ATOM
        if k == "DeclRefExpr":
            return n["referencedDecl"]["name"], P_ATOM
        if k == "MemberExpr":
            if not kids(n) or peel_plain(kids(n)[0]).get("kind") == "CXXThisExpr":
                return n["name"], P_ATOM
            return self.pp(kids(n)[0], P_ATOM) + "." + n["name"], P_ATOM
        if k == "ArraySubscriptExpr":
            a, i = kids(n)
            return "%s[%s]" % (self.pp(a, P_ATOM), self.pp(i)), P_ATOM
        if k in ("CXXMemberCallExpr", "CallExpr"):
            kind, _ = self.classify(n)
            if kind != "value":
                self.err("the call of `%s` (an action) is nested inside another expression" % callee_name(n))
            if is_errno(n):
                return "&errno", P_UNARY
            if k == "CXXMemberCallExpr":
                return "%s(%s)" % (self.pp(kids(n)[0], P_ATOM), self.args(kids(n)[1:])), P_ATOM
            return "%s(%s)" % (callee_name(n), self.args(kids(n)[1:])), P_ATOM
        if k == "UnaryOperator":
            op = n.get("opcode")
            a = kids(n)[0]
            if op in ("++", "--"):
                self.err("`%s` inside an expression" % op)
            if op == "*" and is_errno(a):
                return "errno", P_ATOM
            if op == "__extension__":
                return self.pp_(a)
            return op + self.pp(a, P_UNARY), P_UNARY
        if k == "BinaryOperator":
            op = n.get("opcode")
            if op not in PREC:
                self.err("operator `%s` inside an expression" % op)
            l, r = kids(n)
            p = PREC[op]
            return "%s %s %s" % (self.pp(l, p), op, self.pp(r, p + 1)), p
        if k == "CompoundAssignOperator":
            self.err("assignment inside an expression")
        if k == "ConditionalOperator":
            c, a, b = kids(n)
            if n.get("id") in self.sites:
                return self.site_text(n), P_ATOM
            return "%s ? %s : %s" % (self.pp(c, P_COND + 1), self.pp(a, P_COND + 1), self.pp(b, P_COND)), P_COND
        if k == "UnaryExprOrTypeTraitExpr":
            ks = kids(n)
            return "%s(%s)" % (n.get("name", "sizeof"), self.pp(ks[0]) if ks else n.get("argType", {}).get("qualType", "?")), P_ATOM
        if k == "CXXDefaultArgExpr":
            return "<default>", P_ATOM
        if k in CTOR_KINDS or k == "CXXFunctionalCastExpr":
            args = [a for a in kids(n) if a.get("kind") != "CXXDefaultArgExpr"]
            t = base_type(ctype(n))
            if t in BUFFER_TYPES:
                self.err("a Buffer is constructed inside an expression")
            if len(args) == 1 and k != "CXXTemporaryObjectExpr":
                return self.pp_(args[0])                                 # copy / conversion: the value itself
            return "%s(%s)" % (t.replace("muduo::", ""), self.args(args)), P_ATOM
        self.err("cannot print expression node %s" % k)

    def site_text(self, n):
        """the generated definition that stands for this node, applied to the variables it reads"""
        name = self.sites[n["id"]]
        seen = []
        for x in walk(n):
            if x.get("kind") == "DeclRefExpr" and x["referencedDecl"].get("kind") in ("VarDecl", "ParmVarDecl"):
                nm = x["referencedDecl"]["name"]
                if nm not in seen and not ctype(x).endswith("]"):
                    seen.append(nm)
        return "Gen.%s(%s)" % (name, ", ".join(seen))

    # ------------------------------------------------------------------ expressions at statement level
    def value_or_action(self, n, out):
        """a value that may be, as a whole, the result of an action call: the action is emitted, `<result>` returned"""
        p = peel(n)
        while p.get("kind") == "CXXConstructExpr" and base_type(ctype(p)) not in BUFFER_TYPES \
                and len([a for a in kids(p) if a.get("kind") != "CXXDefaultArgExpr"]) == 1:
            p = peel([a for a in kids(p) if a.get("kind") != "CXXDefaultArgExpr"][0])   # copy / move of the value
        if p.get("kind") in ("CXXMemberCallExpr", "CallExpr"):
            kind, build = self.classify(p)
            if kind == "action":
                out.append(("act", build()))
                return "<result>"
        if p.get("id") in self.sites:
            return self.site_text(p)
        return self.pp(n)

    def store(self, lhs, value, out):
        l = peel(lhs)
        if l.get("kind") == "MemberExpr" and (not kids(l) or peel_plain(kids(l)[0]).get("kind") == "CXXThisExpr") \
                and l.get("name") in INDEX:
            out.append(("act", ".%s %s" % (INDEX[l["name"]], lean_str(value))))
        else:
            out.append(("act", ".assign %s %s" % (lean_str(self.pp(lhs)), lean_str(value))))

    def expr_stmt(self, s, out):
        n = peel(s)
        k = n.get("kind")
        if k == "BinaryOperator" and n.get("opcode") == "=":
            l, r = kids(n)
            self.store(l, self.value_or_action(r, out), out)
            return
        if k == "CompoundAssignOperator":
            l, r = kids(n)
            op = n.get("opcode")[:-1]
            if op not in PREC:
                self.err("compound assignment `%s`" % n.get("opcode"))
            p = PREC[op]
            self.store(l, "%s %s %s" % (self.pp(l, p), op, self.pp(r, p + 1)), out)
            return
        if k == "UnaryOperator" and n.get("opcode") in ("++", "--"):
            a = kids(n)[0]
            self.store(a, "%s %s 1" % (self.pp(a, 12), n["opcode"][0]), out)
            return
        if k in ("CXXMemberCallExpr", "CallExpr", "CXXOperatorCallExpr"):
            kind, build = self.classify(n)
            if kind == "action":
                out.append(("act", build()))
                return
            self.pp(n)                                                  # a value computed and dropped: check it, no action
            return
        if k in ("LambdaExpr", "CXXNewExpr", "CXXDeleteExpr", "CXXThrowExpr", "StmtExpr"):
            self.err("%s is not in the vocabulary" % k)
        self.pp(n)

    # ------------------------------------------------------------------ statements
    def cond(self, c):
        text = self.pp(c)                                               # also checks: no action, no side effect
        return self.sites.get(c.get("id"), text)

    def stmt(self, s, out):
        k = s.get("kind")
        if k == "NullStmt":
            return                                                      # I4
        if k == "CompoundStmt":
            for c in kids(s):
                self.stmt(c, out)
            return
        if k == "IfStmt":
            ks = kids(s)
            if s.get("hasInit") or s.get("hasVar") or len(ks) not in (2, 3):
                self.err("`if` with an init statement / condition variable")
            name = self.cond(ks[0])
            thn, els = [], []
            self.stmt(ks[1], thn)
            if len(ks) == 3:
                self.stmt(ks[2], els)
            out.append(("ite", name, thn, els))
            return
        if k == "ReturnStmt":
            ks = kids(s)
            out.append(("act", ".ret %s" % lean_str(self.value_or_action(ks[0], out) if ks else "")))
            return
        if k == "DoStmt":
            body, cnd = kids(s)[0], kids(s)[1]
            if body.get("kind") == "CompoundStmt" and not kids(body) and peel(cnd).get("kind") in ("IntegerLiteral", "CXXBoolLiteralExpr"):
                return                                                  # I4
            self.err("a do-loop that is not an empty MUDUO_VERIF_POINT")
        if k == "DeclStmt":
            for v in kids(s):
                if v.get("kind") != "VarDecl":
                    self.err("declaration of a %s inside the body" % v.get("kind"))
                if v.get("storageClass") == "static" and kids(v) and base_type(ctype(v)) in BUFFER_TYPES:
                    self.err("a static Buffer")
                init = kids(v)
                t = base_type(ctype(v))
                if t in BUFFER_TYPES:
                    self.local_buffer(v, out)
                    continue
                if not init:
                    continue                                            # I1
                i0 = peel(init[0])
                if i0.get("kind") in CTOR_KINDS and not [a for a in kids(i0) if a.get("kind") != "CXXDefaultArgExpr"]:
                    if ctype(v).endswith("]") or t == "iovec":
                        continue                                        # I1: `struct iovec vec[2]` (trivial default construction)
                out.append(("act", ".assign %s %s" % (lean_str(v["name"]), lean_str(self.value_or_action(init[0], out)))))
            return
        if is_assert(s):
            out.append(("act", ".assertion %s" % lean_str(self.pp(kids(peel_plain(s))[0]))))
            return
        if k.endswith("Stmt"):
            self.err("statement kind %s is outside the supported subset" % k)
        self.expr_stmt(s, out)

    def local_buffer(self, v, out):
        """`Buffer other;` / `Buffer other(n);`: the construction of a second buffer is an action"""
        init = kids(v)
        if not init or peel(init[0]).get("kind") not in CTOR_KINDS:
            self.err("local Buffer `%s` without a constructor call" % v["name"])
        c = peel(init[0])
        args = []
        for a in kids(c):
            if a.get("kind") == "CXXDefaultArgExpr":
                if self.ctor_default is None:
                    self.err("default argument of the Buffer constructor not found")
                args.append(self.ctor_default)
            else:
                args.append(self.pp(a))
        out.append(("act", ".assign %s %s" % (lean_str(v["name"]), lean_str("Buffer(%s)" % ", ".join(args)))))

    def ctor_inits(self, fn, out):
        for c in kids(fn):
            if c.get("kind") != "CXXCtorInitializer":
                continue
            if "baseInit" in c:
                continue                                                # I3
            m = c.get("anyInit", {}).get("name")
            e = peel(kids(c)[0])
            if m in INDEX:
                out.append(("act", ".%s %s" % (INDEX[m], lean_str(self.pp(e)))))
            elif m == STORAGE:
                args = [a for a in kids(e) if a.get("kind") != "CXXDefaultArgExpr"] if e.get("kind") in CTOR_KINDS else None
                if args is None or len(args) != 1:
                    self.err("the storage is not constructed as `buffer_(size)`")
                out.append(("act", ".resize %s" % lean_str(self.pp(args[0]))))      # a fresh vector of that size
            else:
                self.err("member initialiser for `%s` is not in the vocabulary" % m)


def render(items, ind):
    pad = " " * ind
    lines = []
    for it in items:
        if it[0] == "act":
            lines.append("%s.act (%s)" % (pad, it[1]))
        else:
            _, name, thn, els = it
            s = "%s.ite %s" % (pad, lean_str(name))
            for br in (thn, els):
                if br:
                    s += "\n%s  [\n%s\n%s  ]" % (pad, render(br, ind + 4), pad)
                else:
                    s += " []"
            lines.append(s)
    return ",\n".join(lines)


HEAD_DOC = """/-!
Statement skeletons of the member functions of `muduo::net::Buffer` modelled in `Model/Buffer.lean`: the significant
actions in source order - stores to `readerIndex_` / `writerIndex_` (`x += e` is the store of `x + e`),
`buffer_.resize`, `std::copy`, `memcpy`, exchanges, calls of other member functions (`other.f` on a local Buffer),
`sockets::readv`, every other assignment and every initialised local, assertions, `return <value>` - with every
expression printed canonically (casts dropped, minimal parentheses).  An `if` is `ite <guard> then else`, named after
the guard `Generated/Buffer.lean` took from that very condition (`Gen.readFdIovcnt(..)` likewise stands for the
initialiser of `iovcnt`); any other condition is printed.  `<result>` is the value of the action just before it.
`Proofs/BufferSkelTie.lean` proves each one equal to the skeleton the model implements (`Model/BufferSkelDecl.lean`).

Not part of a skeleton (the model abstracts from exactly these):
* I1 declarations of locals without an initialiser (`char extrabuf[65536]`, `struct iovec vec[2]`: storage only);
* I2 casts of every kind (`static_cast`, `implicit_cast<T>(x)`, C-style, implicit conversions, temporaries);
* I3 the base-class initialiser of the constructor (`muduo::copyable`, an empty tag class);
* I4 `MUDUO_VERIF_POINT` (an empty `do { } while (0)`) and empty statements.
Value getters (`readableBytes()`, `writableBytes()`, `prependableBytes()`, `peek()`, `beginWrite()`, `begin()`,
`toStringPiece()`, `peekIntN()`, `buffer_.size()`, `StringPiece::data()/size()`, `std::search`, `memchr`, the
byte-order conversions, `errno`) are printed inside the expression that uses them; every other call must be an action
of the vocabulary at statement level, and every loop, `switch`, `goto`, lambda stops the extraction.
Not extracted (no counterpart in the model): `begin()`, `internalCapacity()`, the implicit copy / move operations.
-/
"""


def pick(docs, cxx, ptypes, const):
    fs = []
    seen = set()
    for d in docs:
        for n in walk(d):
            if n.get("kind") in ("CXXMethodDecl", "CXXConstructorDecl") and n.get("name") == cxx and body_of(n) is not None \
                    and n.get("id") not in seen and not n.get("isImplicit"):
                seen.add(n.get("id"))
                fs.append(n)
    if ptypes is not None:
        fs = [f for f in fs if [ctype(k) for k in kids(f) if k.get("kind") == "ParmVarDecl"] == ptypes]
    if const is not None:
        fs = [f for f in fs if ctype(f).rstrip().endswith("const") == const]
    if len(fs) != 1:
        raise ExtractError("expected exactly one definition of Buffer::%s%s, found %d"
                           % (cxx, "" if ptypes is None else "(%s)" % ", ".join(ptypes), len(fs)))
    return fs[0]


def generate():
    docs = ast_dump("muduo/net/Buffer.cc", "muduo::net::Buffer")
    sites = {n["id"]: name for name, n in buffer.locate_sites(docs, strict=False).items()}
    ctor = pick(docs, "Buffer", None, None)
    ctor_default = None
    for p in kids(ctor):
        if p.get("kind") == "ParmVarDecl" and kids(p):
            ctor_default = Walker("Buffer", sites, None).pp(kids(p)[0])
    out = [HEADER % "muduo/net/Buffer.h, muduo/net/Buffer.cc", "import MuduoVerif.Model.BufferSkelDecl\n", HEAD_DOC,
           "namespace MuduoVerif.Gen.BufferSkel", "open MuduoVerif.BufferSkel\n"]
    for lean, cxx, ptypes, const in FUNCTIONS:
        fn = pick(docs, cxx, ptypes, const)
        w = Walker(cxx, sites, ctor_default)
        items = []
        if fn.get("kind") == "CXXConstructorDecl":
            w.ctor_inits(fn, items)
        w.stmt(body_of(fn), items)
        sig = ", ".join(ctype(k) for k in kids(fn) if k.get("kind") == "ParmVarDecl")
        out.append("/-- `Buffer::%s(%s)%s` -/" % (cxx, sig, " const" if ctype(fn).rstrip().endswith("const") else ""))
        if items:
            out.append("def %s : List Skel :=\n  [\n%s\n  ]\n" % (lean, render(items, 4)))
        else:
            out.append("def %s : List Skel := []\n" % lean)
    out.append("end MuduoVerif.Gen.BufferSkel")
    return "\n".join(out) + "\n"
