"""T1 for the HTTP request parser (muduo/net/http/HttpContext.{h,cc}, HttpRequest.h).

Generated: the `Method`, `Version` and parse-state enums, the method table of `HttpRequest::setMethod`
(the if-chain, its fall-back value and the returned test), the `methodString` table, the separators
`processRequestLine` searches for (with the pointer range of each `std::find`), the guard it puts on the
request-target (`space != end && question != start && std::find_if(start, space, isControl) == space`, as a
proposition over offsets from `start`) and the byte predicate `isControl` that guard uses, its version test
(length, prefix literal, final-character table), the
header separator and the line-terminator length of `parseRequest`, and which parse states have an arm in
`parseRequest`'s `while (hasMore)` loop and which of those arms are empty.
Loops and the pointer walk itself are hand-modelled (DESIGN.md section 8).
"""
from ..extract import HEADER, ExtractError, Tr, ast_dump, body_of, kids, prop_def, strip, unparen, walk

NAME = "Http"

# Registry for vlib/gen/httpskel.py (statement skeletons): clang node id of a condition -> the generated guard made
# from it.  Filled by generate() (same cached AST dump as httpskel.py reads); the output does not depend on it.
SITES = {}


def lean_bytes(s):
    return "[" + ", ".join(str(b) for b in s.encode()) + "]"


def lean_str(s):
    return '"' + s.replace("\\", "\\\\").replace('"', '\\"') + '"'


def string_value(lit):
    v = lit["value"]
    if not (v.startswith('"') and v.endswith('"')) or "\\" in v:
        raise ExtractError("string literal %r is outside the subset" % v)
    return v[1:-1]


def record(docs, name):
    for d in docs:
        for n in walk(d):
            if n.get("kind") == "CXXRecordDecl" and n.get("name") == name and any(
                    k.get("kind") in ("CXXMethodDecl", "FieldDecl") for k in kids(n)):
                return n
    raise ExtractError("class %s not found" % name)


def method(rec, name):
    fs = [k for k in kids(rec) if k.get("kind") == "CXXMethodDecl" and k.get("name") == name and body_of(k) is not None]
    if len(fs) != 1:
        raise ExtractError("expected one inline definition of %s, found %d" % (name, len(fs)))
    return fs[0]


def out_of_line(docs, name):
    fs = [d for d in docs if d.get("kind") == "CXXMethodDecl" and d.get("name") == name and body_of(d) is not None]
    if len(fs) != 1:
        raise ExtractError("expected one out-of-line definition of %s, found %d" % (name, len(fs)))
    return fs[0]


def enum_constants(rec, name):
    for c in kids(rec):
        if c.get("kind") == "EnumDecl" and c.get("name") == name:
            res, nxt = [], 0
            for e in kids(c):
                if e.get("kind") != "EnumConstantDecl":
                    continue
                val = nxt
                for x in walk(e):
                    if x.get("kind") == "ConstantExpr" and "value" in x:
                        val = int(x["value"])
                        break
                res.append((e["name"], val))
                nxt = val + 1
            if res:
                return res
    raise ExtractError("enum %s not found" % name)


def enum_ref(n):
    n = strip(n)
    if n.get("kind") == "DeclRefExpr" and n["referencedDecl"].get("kind") == "EnumConstantDecl":
        return n["referencedDecl"]["name"]
    return None


def callee_name(call):
    ks = kids(call)
    if not ks:
        return None
    c = strip(ks[0])
    if c.get("kind") == "DeclRefExpr":
        return c["referencedDecl"].get("name")
    if c.get("kind") == "MemberExpr":
        return c.get("name")
    return None


def calls(n, name):
    return [x for x in walk(n) if x.get("kind") in ("CallExpr", "CXXMemberCallExpr", "CXXOperatorCallExpr")
            and callee_name(x) == name]


def emit_enum(out, tname, enum):
    out.append("inductive %s where" % tname)
    for e, _ in enum:
        out.append("  | %s" % e)
    out.append("deriving DecidableEq, Repr\n")


def member_assign(stmt, member):
    """`member = kEnum;` possibly inside a one-statement compound: the enumerator"""
    s = stmt
    if s.get("kind") == "CompoundStmt":
        if len(kids(s)) != 1:
            return None
        s = kids(s)[0]
    s = strip(s)
    if s.get("kind") == "BinaryOperator" and s.get("opcode") == "=":
        lhs, rhs = kids(s)
        lhs = strip(lhs)
        if lhs.get("kind") == "MemberExpr" and lhs.get("name") == member:
            return enum_ref(rhs)
    return None


def else_chain(first):
    """[(cond, then)], final else (or None) of an if / else-if chain"""
    arms, cur = [], first
    while cur is not None and cur.get("kind") == "IfStmt":
        ks = kids(cur)
        arms.append((ks[0], ks[1]))
        cur = ks[2] if len(ks) > 2 else None
    return arms, cur


def char_of_find(call):
    lits = [x for x in walk(call) if x.get("kind") == "CharacterLiteral"]
    if len(lits) != 1:
        raise ExtractError("std::find call without a single character literal")
    return int(lits[0]["value"])


def ref_names(call):
    """names of the arguments of a call that are plain references (None for anything else)"""
    res = []
    for a in kids(call)[1:]:
        a = strip(a)
        res.append(a["referencedDecl"].get("name") if a.get("kind") == "DeclRefExpr" else None)
    return res


def byte_operand(n, param):
    """`static_cast<unsigned char>(c)` -> 'u', plain `c` (a `char`, promoted to int) -> 's', else None"""
    signed = True
    while True:
        k = n.get("kind")
        if k == "ParenExpr":
            n = kids(n)[0]
        elif k == "ImplicitCastExpr" and n.get("castKind") in ("LValueToRValue", "IntegralCast", "NoOp"):
            n = kids(n)[0]
        elif k in ("CXXStaticCastExpr", "CStyleCastExpr", "CXXFunctionalCastExpr") and n.get("castKind") in ("IntegralCast", "NoOp"):
            if n.get("type", {}).get("qualType") not in ("unsigned char", "uint8_t"):
                return None
            signed = False
            n = kids(n)[0]
        else:
            break
    if n.get("kind") == "DeclRefExpr" and n["referencedDecl"].get("name") == param:
        return "s" if signed else "u"
    return None


def byte_pred(n, param):
    """a boolean expression over one `char` parameter -> Lean proposition over `c : UInt8` (the byte as stored).
    Supported: `||`, `&&`, `!`, comparisons of `static_cast<unsigned char>(c)` with an integer literal, and `==` / `!=`
    of the plain `char` with a literal in 0..127 (there the sign of `char` makes no difference)."""
    while n.get("kind") in ("ParenExpr", "ExprWithCleanups") or (
            n.get("kind") == "ImplicitCastExpr" and n.get("castKind") in ("NoOp",)):
        n = kids(n)[0]
    k = n.get("kind")
    if k == "BinaryOperator" and n.get("opcode") in ("||", "&&"):
        a, b = kids(n)
        return "(%s %s %s)" % (byte_pred(a, param), "∨" if n["opcode"] == "||" else "∧", byte_pred(b, param))
    if k == "UnaryOperator" and n.get("opcode") == "!":
        return "¬ %s" % byte_pred(kids(n)[0], param)
    ops = {"<": "<", "<=": "≤", ">": ">", ">=": "≥", "==": "=", "!=": "≠"}
    if k == "BinaryOperator" and n.get("opcode") in ops:
        a, b = kids(n)
        lit = strip(b)
        how = byte_operand(a, param)
        if how is None or lit.get("kind") != "IntegerLiteral":
            raise ExtractError("isControl: a comparison is not `<the byte> <op> <literal>`")
        v = int(lit["value"])
        if how == "s" and not (n["opcode"] in ("==", "!=") and 0 <= v <= 127):
            raise ExtractError("isControl: comparison of the plain (possibly signed) char outside the subset")
        return "(c.toNat %s %d)" % (ops[n["opcode"]], v)
    raise ExtractError("isControl: expression node %s outside the subset" % k)


def generate():
    SITES.clear()
    docs = ast_dump("muduo/net/http/HttpContext.cc", "muduo::net::Http")
    req = record(docs, "HttpRequest")
    ctxr = record(docs, "HttpContext")
    out = [HEADER % "muduo/net/http/HttpRequest.h, HttpContext.h, HttpContext.cc", "namespace MuduoVerif.Gen.Http\n"]
    methods = enum_constants(req, "Method")
    versions = enum_constants(req, "Version")
    states = enum_constants(ctxr, "HttpRequestParseState")
    emit_enum(out, "Method", methods)
    emit_enum(out, "Version", versions)
    emit_enum(out, "ParseState", states)

    # ---- setMethod
    sm = method(req, "setMethod")
    top = [s for s in kids(body_of(sm)) if s.get("kind") == "IfStmt"]
    if len(top) != 1:
        raise ExtractError("setMethod: expected one if-chain")
    arms, last = else_chain(top[0])
    table = []
    for cond, then in arms:
        c = strip(cond)
        lits = [x for x in walk(c) if x.get("kind") == "StringLiteral"]
        if c.get("kind") != "CXXOperatorCallExpr" or callee_name(c) != "operator==" or len(lits) != 1:
            raise ExtractError("setMethod: a test is not `m == \"LITERAL\"`")
        ops = [strip(k) for k in kids(c)[1:]]
        if not any(o.get("kind") == "DeclRefExpr" and o["referencedDecl"]["name"] == "m" for o in ops):
            raise ExtractError("setMethod: a test does not compare the string `m`")
        e = member_assign(then, "method_")
        if e is None:
            raise ExtractError("setMethod: a branch is not `method_ = <enumerator>`")
        table.append((string_value(lits[0]), e))
    dflt = member_assign(last, "method_") if last is not None else None
    if dflt is None:
        raise ExtractError("setMethod: the final else is not `method_ = <enumerator>`")
    mvar = [v for v in walk(body_of(sm)) if v.get("kind") == "VarDecl" and v.get("name") == "m"]
    if len(mvar) != 1:
        raise ExtractError("setMethod: `string m(start, end)` not found")
    margs = [strip(a) for x in walk(mvar[0]) if x.get("kind") == "CXXConstructExpr" for a in kids(x)
             if a.get("kind") != "CXXDefaultArgExpr"]
    if [a.get("referencedDecl", {}).get("name") for a in margs] != ["start", "end"]:
        raise ExtractError("setMethod: `m` is not built from (start, end)")
    ret = [r for r in walk(body_of(sm)) if r.get("kind") == "ReturnStmt"]
    if len(ret) != 1:
        raise ExtractError("setMethod: expected one return")
    r = strip(kids(ret[0])[0])
    ok = None
    if r.get("kind") == "BinaryOperator" and r.get("opcode") in ("!=", "=="):
        a, b = [strip(x) for x in kids(r)]
        if a.get("kind") == "MemberExpr" and a.get("name") == "method_" and enum_ref(b):
            ok = "m %s .%s" % ("≠" if r["opcode"] == "!=" else "=", enum_ref(b))
    if ok is None:
        raise ExtractError("setMethod: the return value is not a comparison of method_ with an enumerator")
    out.append("/-- `HttpRequest::setMethod`: the if-chain over the method token (first match wins) -/")
    out.append("def methodTable : List (List UInt8 × Method) :=\n  [%s]" % ",\n   ".join(
        "(%s, .%s)  /- %s -/" % (lean_bytes(s), e, s.replace("-/", "")) for s, e in table))
    out.append("/-- the final `else` -/\ndef methodDefault : Method := .%s" % dflt)
    out.append("/-- what `setMethod` returns -/\ndef methodAccepted (m : Method) : Prop := %s" % ok)
    out.append("instance : Decidable (methodAccepted m) := by unfold methodAccepted; infer_instance\n")

    # ---- methodString
    ms = method(req, "methodString")
    res = [v for v in walk(body_of(ms)) if v.get("kind") == "VarDecl" and v.get("name") == "result"]
    if len(res) != 1:
        raise ExtractError("methodString: `result` not found")
    dstr = [x for x in walk(res[0]) if x.get("kind") == "StringLiteral"]
    names = {}
    for c in walk(body_of(ms)):
        if c.get("kind") == "CaseStmt":
            e = None
            for x in walk(kids(c)[0]):
                e = enum_ref(x)
                if e:
                    break
            lits = [x for x in walk(c) if x.get("kind") == "StringLiteral"]
            # nested CaseStmts would see several literals; take the first assignment in this case
            if e is None or not lits:
                raise ExtractError("methodString: case outside the subset")
            names[e] = string_value(lits[0])
    if len(dstr) != 1:
        raise ExtractError("methodString: default string not found")
    out.append("/-- `HttpRequest::methodString` -/\ndef methodString : Method → String")
    for e, _ in methods:
        out.append("  | .%s => %s" % (e, lean_str(names.get(e, string_value(dstr[0])))))
    out.append("")

    # ---- processRequestLine
    prl = out_of_line(docs, "processRequestLine")
    finds = calls(prl, "find")
    if len(finds) != 3:
        raise ExtractError("processRequestLine: expected three std::find calls, found %d" % len(finds))
    seps = [char_of_find(f) for f in finds]
    ranges = [ref_names(f)[:2] for f in finds]
    if ranges != [["start", "end"], ["start", "end"], ["start", "space"]]:
        raise ExtractError("processRequestLine: the std::find calls search %r, expected (start,end) (start,end) (start,space)" % ranges)
    out.append("/-- `processRequestLine`: the bytes searched by the three `std::find` calls "
               "(after the method, after the target, start of the query) -/")
    out.append("def methodSep : UInt8 := %d\ndef targetSep : UInt8 := %d\ndef querySep : UInt8 := %d\n" % tuple(seps))
    # ---- the block behind the method: `start = space+1; space = find(start, end, ' ');
    #      const char* question = find(start, space, '?'); if (<target guard>) {...}`
    outer = [x for x in kids(body_of(prl)) if x.get("kind") == "IfStmt"]
    if len(outer) != 1 or len(kids(outer[0])) != 2 or kids(outer[0])[1].get("kind") != "CompoundStmt":
        raise ExtractError("processRequestLine: expected one top-level `if (...) {...}` without else")
    if finds[0] not in list(walk(kids(outer[0])[0])) and not any(
            finds[0] in list(walk(x)) for x in kids(body_of(prl)) if x is not outer[0]):
        raise ExtractError("processRequestLine: the first std::find is not in front of the method test")
    blk = kids(kids(outer[0])[1])
    if len(blk) != 4:
        raise ExtractError("processRequestLine: the block behind the method test has %d statements, expected 4" % len(blk))
    s_start, s_space, s_q, s_if = blk
    a = strip(s_start)
    ok = (a.get("kind") == "BinaryOperator" and a.get("opcode") == "="
          and strip(kids(a)[0]).get("referencedDecl", {}).get("name") == "start")
    if ok:
        r = strip(kids(a)[1])
        ok = (r.get("kind") == "BinaryOperator" and r.get("opcode") == "+"
              and strip(kids(r)[0]).get("referencedDecl", {}).get("name") == "space"
              and strip(kids(r)[1]).get("kind") == "IntegerLiteral" and int(strip(kids(r)[1])["value"]) == 1)
    if not ok:
        raise ExtractError("processRequestLine: `start = space+1` not found behind the method test")
    a = strip(s_space)
    if not (a.get("kind") == "BinaryOperator" and a.get("opcode") == "="
            and strip(kids(a)[0]).get("referencedDecl", {}).get("name") == "space" and strip(kids(a)[1]) is finds[1]):
        raise ExtractError("processRequestLine: `space = std::find(start, end, ' ')` not found behind the method test")
    qv = [v for v in kids(s_q) if v.get("kind") == "VarDecl"] if s_q.get("kind") == "DeclStmt" else []
    if len(qv) != 1 or qv[0].get("name") != "question" or not kids(qv[0]) or strip(kids(qv[0])[0]) is not finds[2]:
        raise ExtractError("processRequestLine: `const char* question = std::find(start, space, '?')` not found in front of the target test")
    if s_if.get("kind") != "IfStmt" or len(kids(s_if)) != 2:
        raise ExtractError("processRequestLine: the target test is not an `if` without else")
    fi = calls(s_if, "find_if")
    if len(calls(prl, "find_if")) != 1 or len(fi) != 1 or fi[0] not in list(walk(kids(s_if)[0])):
        raise ExtractError("processRequestLine: expected exactly one std::find_if, in the target test")
    if ref_names(fi[0]) != ["start", "space", "isControl"]:
        raise ExtractError("processRequestLine: std::find_if is not called on (start, space, isControl)")
    pred_ref = strip(kids(fi[0])[3])["referencedDecl"]
    # reassignments of the pointers inside the condition or between the statements would invalidate the offsets
    for x in walk(kids(s_if)[0]):
        if x.get("kind") in ("UnaryOperator", "CompoundAssignOperator") and x.get("opcode") in ("++", "--", "+=", "-=") \
                or (x.get("kind") == "BinaryOperator" and x.get("opcode") == "="):
            raise ExtractError("processRequestLine: the target test has a side effect")
    t = Tr({"space": "spaceOff", "end": "endOff", "question": "questionOff", "start": "0",
            "find_if(start,space,isControl)": "ctlOff"})
    guard = unparen(t.expr(kids(s_if)[0]))
    SITES[kids(s_if)[0].get("id")] = "targetAccepted"
    if not {"space", "end", "question", "start", "find_if(start,space,isControl)"} <= t.used:
        raise ExtractError("processRequestLine: the target test no longer uses %s" % sorted(
            {"space", "end", "question", "start", "find_if(start,space,isControl)"} - t.used))
    out.append(prop_def("targetAccepted", [("spaceOff", "Nat"), ("endOff", "Nat"), ("questionOff", "Nat"), ("ctlOff", "Nat")], guard,
                        "`processRequestLine`: the test on the request-target; pointers as offsets from `start` (the byte behind "
                        "the first separator): `space`, `end`, `question = find(start, space, querySep)`, "
                        "`find_if(start, space, isControl)`"))
    # the path/query assignment and the version test sit inside that `if`
    inner = kids(kids(s_if)[1]) if kids(s_if)[1].get("kind") == "CompoundStmt" else []
    for nm in ("setPath", "setQuery", "equal", "setVersion"):
        if not calls(prl, nm) or any(c not in [y for st in inner for y in walk(st)] for c in calls(prl, nm)):
            raise ExtractError("processRequestLine: %s is not (only) called under the target test" % nm)
    # ---- isControl
    idocs = ast_dump("muduo/net/http/HttpContext.cc", "isControl")
    fns = [n for d in idocs for n in walk(d) if n.get("kind") == "FunctionDecl" and n.get("name") == "isControl"
           and body_of(n) is not None]
    # (node ids differ between two clang runs: identify the function by being the only one of that name and type)
    if len(fns) != 1 or fns[0].get("type", {}).get("qualType") != pred_ref.get("type", {}).get("qualType"):
        raise ExtractError("expected exactly one definition of the `isControl` that std::find_if uses, found %d" % len(fns))
    ps = [p for p in kids(fns[0]) if p.get("kind") == "ParmVarDecl"]
    if len(ps) != 1 or ps[0].get("type", {}).get("qualType") != "char":
        raise ExtractError("isControl: expected one `char` parameter")
    stm = kids(body_of(fns[0]))
    if len(stm) != 1 or stm[0].get("kind") != "ReturnStmt":
        raise ExtractError("isControl: the body is not a single return")
    out.append("/-- `isControl(char c)` (HttpContext.cc), on the byte as stored -/\ndef isControl (c : UInt8) : Prop := %s"
               % unparen(byte_pred(kids(stm[0])[0], ps[0]["name"])))
    out.append("instance : Decidable (isControl c) := by unfold isControl; infer_instance\n")
    eq = calls(prl, "equal")
    if len(eq) != 1:
        raise ExtractError("processRequestLine: std::equal not found")
    lits = [x for x in walk(eq[0]) if x.get("kind") == "StringLiteral"]
    if len(lits) != 1:
        raise ExtractError("processRequestLine: std::equal without a literal")
    prefix = string_value(lits[0])
    # `succeed = end-start == N && std::equal(start, end-1, "...")`
    asg = None
    for n in walk(body_of(prl)):
        if n.get("kind") == "BinaryOperator" and n.get("opcode") == "=" and eq[0] in list(walk(n)):
            asg = n
    if asg is None:
        raise ExtractError("processRequestLine: assignment with std::equal not found")
    rhs = strip(kids(asg)[1])
    if not (rhs.get("kind") == "BinaryOperator" and rhs.get("opcode") == "&&"):
        raise ExtractError("processRequestLine: version test is not `len == N && std::equal(...)`")
    lentest = strip(kids(rhs)[0])
    if not (lentest.get("kind") == "BinaryOperator" and lentest.get("opcode") == "=="
            and strip(kids(lentest)[1]).get("kind") == "IntegerLiteral"
            and strip(kids(lentest)[0]).get("kind") == "BinaryOperator" and strip(kids(lentest)[0]).get("opcode") == "-"):
        raise ExtractError("processRequestLine: version length test outside the subset")
    vlen = int(strip(kids(lentest)[1])["value"])
    eargs = [strip(a) for a in kids(eq[0])[1:]]
    e1 = eargs[1]
    if not (e1.get("kind") == "BinaryOperator" and e1.get("opcode") == "-"
            and strip(kids(e1)[1]).get("kind") == "IntegerLiteral" and int(strip(kids(e1)[1])["value"]) == 1):
        raise ExtractError("processRequestLine: std::equal does not stop one byte before the end")
    if len(prefix) != vlen - 1:
        raise ExtractError("processRequestLine: the literal has %d bytes but %d are compared" % (len(prefix), vlen - 1))
    out.append("/-- `processRequestLine`: the version token has this many bytes ... -/\ndef versionLen : Nat := %d" % vlen)
    out.append("/-- ... of which all but the last must equal -/\ndef versionPrefix : List UInt8 := %s  /- %s -/" % (lean_bytes(prefix), prefix.replace("-/", "")))
    # the chain on the last character
    vchain = None
    for i in walk(body_of(prl)):
        if i.get("kind") == "IfStmt" and any(x.get("kind") == "CharacterLiteral" for x in walk(kids(i)[0])):
            vchain = i
            break
    if vchain is None:
        raise ExtractError("processRequestLine: the test of the last character was not found")
    arms, last = else_chain(vchain)
    vt = []
    for cond, then in arms:
        c = strip(cond)
        chars = [x for x in walk(c) if x.get("kind") == "CharacterLiteral"]
        if not (c.get("kind") == "BinaryOperator" and c.get("opcode") == "==" and len(chars) == 1):
            raise ExtractError("processRequestLine: last-character test outside the subset")
        sv = calls(then, "setVersion")
        if len(sv) != 1 or enum_ref(kids(sv[0])[-1]) is None:
            raise ExtractError("processRequestLine: branch is not setVersion(<enumerator>)")
        vt.append((int(chars[0]["value"]), enum_ref(kids(sv[0])[-1])))
    fails = last is not None and any(
        x.get("kind") == "BinaryOperator" and x.get("opcode") == "=" and
        strip(kids(x)[1]).get("kind") == "CXXBoolLiteralExpr" and not strip(kids(x)[1])["value"] for x in walk(last))
    if not fails:
        raise ExtractError("processRequestLine: the final else does not reject")
    out.append("/-- ... and the last selects the version (anything else is rejected) -/")
    out.append("def versionTable : List (UInt8 × Version) := [%s]\n" % ", ".join("(%d, .%s)" % (c, e) for c, e in vt))

    # ---- parseRequest
    pr = out_of_line(docs, "parseRequest")
    w = [n for n in walk(body_of(pr)) if n.get("kind") == "WhileStmt"]
    if len(w) != 1:
        raise ExtractError("parseRequest: expected one while loop")
    wc = strip(kids(w[0])[0])
    if not (wc.get("kind") == "DeclRefExpr" and wc["referencedDecl"]["name"] == "hasMore"):
        raise ExtractError("parseRequest: the loop condition is not `hasMore`")
    first = [s for s in kids(kids(w[0])[1]) if s.get("kind") == "IfStmt"]
    if len(first) != 1 or len(kids(kids(w[0])[1])) != 1:
        raise ExtractError("parseRequest: the loop body is not a single if-chain")
    arms, last = else_chain(first[0])
    handled, empty = [], []
    for cond, then in arms:
        c = strip(cond)
        ok = c.get("kind") == "BinaryOperator" and c.get("opcode") == "=="
        e = None
        if ok:
            a, b = [strip(x) for x in kids(c)]
            if a.get("kind") == "MemberExpr" and a.get("name") == "state_":
                e = enum_ref(b)
        if e is None:
            raise ExtractError("parseRequest: an arm is not `state_ == <enumerator>`")
        handled.append(e)
        if then.get("kind") == "CompoundStmt" and not kids(then):
            empty.append(e)
    if last is not None:
        raise ExtractError("parseRequest: the if-chain now has a final else (model it)")
    out.append("/-- `parseRequest`: the states that have an arm in the `while (hasMore)` loop, in order -/")
    out.append("def parseArms : List ParseState := [%s]" % ", ".join("." + e for e in handled))
    out.append("/-- ... and the arms whose body is empty (the loop then spins) -/")
    out.append("def emptyArms : List ParseState := [%s]\n" % ", ".join("." + e for e in empty))
    finds = calls(pr, "find")
    if len(finds) != 1:
        raise ExtractError("parseRequest: expected one std::find (header separator)")
    out.append("/-- `parseRequest`: the header field separator -/\ndef headerSep : UInt8 := %d" % char_of_find(finds[0]))
    ru = calls(pr, "retrieveUntil")
    ns = set()
    for c in ru:
        a = strip(kids(c)[1])
        if not (a.get("kind") == "BinaryOperator" and a.get("opcode") == "+"
                and strip(kids(a)[0]).get("referencedDecl", {}).get("name") == "crlf"
                and strip(kids(a)[1]).get("kind") == "IntegerLiteral"):
            raise ExtractError("parseRequest: retrieveUntil argument is not `crlf + N`")
        ns.add(int(strip(kids(a)[1])["value"]))
    if len(ns) != 1:
        raise ExtractError("parseRequest: retrieveUntil(crlf + N) with differing N")
    out.append("/-- `parseRequest`: bytes consumed after the line (`retrieveUntil(crlf + N)`) -/\ndef crlfLen : Nat := %d" % ns.pop())
    ctor = [k for k in kids(ctxr) if k.get("kind") == "CXXConstructorDecl" and body_of(k) is not None]
    init = None
    for c in ctor:
        for x in kids(c):
            if x.get("kind") == "CXXCtorInitializer" and (x.get("anyInit") or {}).get("name") == "state_":
                init = enum_ref(kids(x)[0])
    if init is None:
        raise ExtractError("HttpContext(): initial state not found")
    out.append("/-- `HttpContext()` / `reset()` -/\ndef initialState : ParseState := .%s\n" % init)
    out.append("end MuduoVerif.Gen.Http\n")
    return "\n".join(out)
