"""T1 for the dispatch engine (C09), second part - STATEMENT SKELETONS of the functions of EPollPoller.cc,
PollPoller.cc, Channel.cc and EventLoop.cc that Model/Poller.lean implements, from clang's AST of /repo's current
sources.

vlib/gen/poller.py extracts the constants, the interest arithmetic and every branch GUARD; it also pins a few
statement orders by hand (`channels_[fd] = channel` before the interest-less early return, `pfd.fd = fd; if
(isNoneEvent) ..; push_back`, `fillActiveChannels` under `numEvents > 0`).  What it does not see in general is the
ORDER and NESTING of the statements between the guards: `set_index` before / after `update`, `channelAtEnd` read after
the swap, `idx` computed before `push_back`, `addedToLoop_` stored after the loop was told, the error callback before
the close callback, `eventHandling_ = false` before `currentActiveChannel_ = NULL`, two independent `if`s merged into
`if / else if`, a dropped `else`, a duplicated call ...  This module walks each function body in source order and
emits a tree

    Skel ::= act Act | ite <guard name> <then : List Skel> <else : List Skel> | each <var> <range> <body : List Skel>

of the "significant actions" (vocabulary: lean/MuduoVerif/Model/PollerSkelDecl.lean): system calls (`::poll`,
`::epoll_wait`, `::epoll_ctl`), `memZero`, assertions (the model has an `abort` event per assertion), the mutating
member calls through a `Channel*` (`set_index`, `set_revents`, `handleEvent`), the mutating operations of `channels_`
(`channels_[k] = v`, `erase`) and of the arrays (`pollfds_`, `events_`, `activeChannels`: `push_back`, `pop_back`,
`resize`, `clear`, `iter_swap`), the four channel callbacks, calls through `poller_` and `loop_`, direct calls of
other member functions, `LOG_SYSERR` / `LOG_SYSFATAL` / `LOG_ERROR` / `LOG_FATAL` (the model has `syserr` / `fatal`
events), every store to a member, to a field of a local record and to a local (declaration with an initialiser or
assignment; a reference is printed `&name`) and `return`.  An `if` is named after the guard vlib/gen/poller.py generated from that very
condition (its registry `poller.SITES`, keyed by translation unit and clang's node id, so that both files always talk
about the same site); any other condition is printed in a canonical form.  A `for` is `each <loop variable> <range>
<body>`: the range of a range-based `for` is the container, that of a classic `for` is `init; condition; increment`.

Evaluation order: the actions of the arguments precede the call; the actions of a right-hand side precede the store;
a system call evaluated by an `if` condition precedes the `ite` (nothing else may act inside a condition).  A
declaration or assignment whose right-hand side is a significant call is that call only (`int numEvents =
::epoll_wait(..)`, `size_t n = channels_.erase(fd)`).

Lean side: Model/PollerSkelDecl.lean declares the skeleton each model function implements;
Proofs/PollerSkelTie.lean proves `Gen.PollerSkel.<fn> = Decl.<fn>` by `decide`; Props/C09 re-exports the conjunction.

Never guesses: a call that is neither significant nor in one of the (short, explicit) lists of value-only getters,
a statement kind outside {compound, if, for, range-for, return, declaration, expression, empty}, a side effect inside
a condition, an assertion or a log statement, a construction of a type that is not a plain value -> ExtractError.

IGNORED (the model abstracts from exactly these; listed again in the header of the generated file):
  I1  log statements below ERROR (`LOG_TRACE/DEBUG/INFO/WARN`): `if (logLevel() <= L) Logger(..).stream() << ..`,
      unconditional `Logger(..).stream() << ..`, and `if (logLevel() <= L) { printActiveChannels(); }` - only value
      getters may be called inside (LOG_PURE), anything else is an error
  I2  `assertInLoopThread()` (`Poller::`, `EventLoop::`: the model runs everything on the loop thread by construction)
  I3  three assertions, by their exact text: `channel->ownerLoop() == this` (the model has one loop), `n == 1` (the
      count returned by `channels_.erase`: the key was asserted present just before; the model's `setCmap .. none`
      returns nothing), `channel->fd() == pfd->fd` (the model's `cmap` is keyed by the channel's own descriptor by
      construction).  Every other assertion is an action.
  I4  declarations of locals without an initialiser (`struct pollfd pfd`, `struct epoll_event event`,
      `std::shared_ptr<void> guard`), casts (`static_cast`, `implicit_cast`, `(void)x`)
  I5  time stamps (`Timestamp now(Timestamp::now())`, the store to `pollReturnTime_`: the model has no clock, the
      receive time is handed through to the callbacks); errno bookkeeping (`savedErrno`, `errno = ..`) and the report
      of a failed wait `if (savedErrno != EINTR) { errno = savedErrno; LOG_SYSERR << .. }` (the model's `nret` is a
      `Nat`: a failing `poll(2)` / `epoll_wait(2)` reports nothing); Channel's own `eventHandling_` flag (read only
      by `~Channel`'s assertion); stores to the `revents` field of a `pollfd` (`pfd.revents = 0`: the model's
      `pollfds_` entries are `(fd, events)`, what the kernel reports is input)
  I6  an `if` none of whose branches contains a significant action (what remains of `if (logHup_) LOG_WARN ..`,
      `if (revents_ & POLLNVAL) LOG_WARN ..`, `else if (numEvents == 0) LOG_TRACE ..`)
  I7  MUDUO_VERIF_POINT (an empty `do { } while (0)` in a normal build)
Of `EventLoop::loop` the skeleton is the body of its `while (!quit_)` loop - one iteration (`Poller.iter`); the rest
of the function belongs to the loop engine (Model/Loop.lean, C04 / C05).
"""
import re

from ..extract import HEADER, ExtractError, ast_dump, body_of, ctype, kids, the_function, walk
from . import poller
from .connskel import (CALL_KINDS, CTOR_KINDS, assert_text, callee_name, deref, is_assert, is_errno, is_log_expr, is_this,
                       lean_str, this_member)
from .connskel import peel as _peel

NAME = "PollerSkel"

# (Lean name, class, C++ function, translation unit, ast-dump filter), in source order per file
FUNCTIONS = [
    ("epollPoll", "EPollPoller", "poll", "muduo/net/poller/EPollPoller.cc", "muduo::net::EPollPoller"),
    ("epollFillActiveChannels", "EPollPoller", "fillActiveChannels", "muduo/net/poller/EPollPoller.cc", "muduo::net::EPollPoller"),
    ("epollUpdateChannel", "EPollPoller", "updateChannel", "muduo/net/poller/EPollPoller.cc", "muduo::net::EPollPoller"),
    ("epollRemoveChannel", "EPollPoller", "removeChannel", "muduo/net/poller/EPollPoller.cc", "muduo::net::EPollPoller"),
    ("epollUpdate", "EPollPoller", "update", "muduo/net/poller/EPollPoller.cc", "muduo::net::EPollPoller"),
    ("pollPoll", "PollPoller", "poll", "muduo/net/poller/PollPoller.cc", "muduo::net::PollPoller"),
    ("pollFillActiveChannels", "PollPoller", "fillActiveChannels", "muduo/net/poller/PollPoller.cc", "muduo::net::PollPoller"),
    ("pollUpdateChannel", "PollPoller", "updateChannel", "muduo/net/poller/PollPoller.cc", "muduo::net::PollPoller"),
    ("pollRemoveChannel", "PollPoller", "removeChannel", "muduo/net/poller/PollPoller.cc", "muduo::net::PollPoller"),
    ("channelUpdate", "Channel", "update", "muduo/net/Channel.cc", "muduo::net::Channel"),
    ("channelRemove", "Channel", "remove", "muduo/net/Channel.cc", "muduo::net::Channel"),
    ("channelHandleEvent", "Channel", "handleEvent", "muduo/net/Channel.cc", "muduo::net::Channel"),
    ("channelHandleEventWithGuard", "Channel", "handleEventWithGuard", "muduo/net/Channel.cc", "muduo::net::Channel"),
    ("loopIteration", "EventLoop", "loop", "muduo/net/EventLoop.cc", "muduo::net::EventLoop::"),
    ("loopUpdateChannel", "EventLoop", "updateChannel", "muduo/net/EventLoop.cc", "muduo::net::EventLoop::"),
    ("loopRemoveChannel", "EventLoop", "removeChannel", "muduo/net/EventLoop.cc", "muduo::net::EventLoop::"),
    ("loopHasChannel", "EventLoop", "hasChannel", "muduo/net/EventLoop.cc", "muduo::net::EventLoop::"),
]

SYS_FREE = {"epoll_wait": "epollWait", "poll": "poll", "epoll_ctl": "epollCtl"}
CHAN_OPS = {"set_index": "setIndex", "set_revents": "setRevents", "handleEvent": "handleEvent"}
CHAN_PURE = ("fd", "events", "index", "isNoneEvent", "isReading", "isWriting", "ownerLoop", "eventsToString", "reventsToString")
CB_OF = {"closeCallback_": "close", "errorCallback_": "error", "readCallback_": "read", "writeCallback_": "write"}
MAP_MEMBER = "channels_"
MAP_PURE = ("find", "end", "begin", "size", "empty")
VECTORS = ("pollfds_", "events_", "activeChannels_", "activeChannels")     # members and the `ChannelList*` parameter
VEC_OPS = {"push_back": "pushBack", "pop_back": "popBack", "resize": "resize", "clear": "clear"}
VEC_PURE = ("begin", "end", "size", "back", "empty")
POLLER_FNS = ("poll", "updateChannel", "removeChannel", "hasChannel")       # through `poller_`
LOOP_FNS = ("updateChannel", "removeChannel")                               # through `loop_`
PURE_THIS = {"Channel": ("isNoneEvent", "isReading", "isWriting", "reventsToString", "eventsToString"),
             "EPollPoller": ("operationToString",), "PollPoller": (), "EventLoop": ()}
PURE_ON = {"tie_": ("lock",)}
PURE_FREE = ("implicit_cast", "find", "__errno_location")
PURE_OPS = ("operator->", "operator*", "operator==", "operator!=", "operator<", "operator[]", "operator+", "operator-",
            "operator++", "operator--")
LOG_PURE = ("operator<<", "stream", "size", "fd", "events", "index", "reventsToString", "eventsToString", "operationToString",
            "logLevel", "__errno_location", "c_str", "printActiveChannels", "strerror_tl")
LOG_LEVELS = {"TRACE": None, "DEBUG": None, "INFO": None, "WARN": None, "ERROR": "error", "FATAL": "fatal"}
IGNORED_ASSERTS = ("channel->ownerLoop() == this", "n == 1", "channel->fd() == pfd->fd")           # I3
ERRNO_LOCALS = ("savedErrno",)
IGNORED_MEMBERS = {"Channel": ("eventHandling_",), "EventLoop": ("pollReturnTime_",)}              # I5
IGNORED_FIELDS = ("revents",)                                                                       # I5: pfd.revents
ARITH = ("int", "long", "unsigned", "unsigned int", "unsigned long", "size_t", "ssize_t", "bool", "short", "char",
         "int64_t", "uint64_t", "int32_t", "uint32_t", "uint16_t", "int16_t")
VALUE_TYPES = ("std::", "shared_ptr<", "weak_ptr<", "Timestamp", "muduo::Timestamp", "__gnu_cxx::", "PollFdList::", "ChannelMap::",
               "ChannelList::", "struct pollfd", "pollfd", "struct epoll_event", "epoll_event")


def peel(n):
    """connskel.peel, and `implicit_cast<T>(x)` is a cast too"""
    while True:
        n = _peel(n)
        if n.get("kind") == "CallExpr" and callee_name(n) == "implicit_cast" and len(kids(n)) == 2:
            n = kids(n)[1]
        else:
            return n


def short_type(t):
    t = t.strip()
    for p in ("const ", "struct "):
        while t.startswith(p):
            t = t[len(p):]
    for q in ("muduo::net::", "muduo::"):
        if t.startswith(q):
            t = t[len(q):]
    return t.strip()


def is_channel_ptr(n):
    for x in (n, _peel(n)):
        t = ctype(x).replace("const", "").strip()
        if re.search(r"(^|::)Channel \*$", t) or t.endswith("mapped_type") and "Channel" in x.get("type", {}).get("desugaredQualType", ""):
            return True
    return False


def log_level(n):
    """level of `Logger(file, line, <level | toAbort> ..).stream() << ..`: None = below ERROR (I1), else the Act"""
    ctors = [x for x in walk(n) if x.get("kind") in CTOR_KINDS and ctype(x).replace("muduo::", "") == "Logger"]
    if len(ctors) != 1 or len(kids(ctors[0])) < 3:
        raise ExtractError("log statement with %d Logger constructions" % len(ctors))
    a = _peel(kids(ctors[0])[2])
    if a.get("kind") == "CXXBoolLiteralExpr":
        return "sysfatal" if a.get("value") else "syserr"
    if a.get("kind") == "DeclRefExpr" and a.get("referencedDecl", {}).get("name") in LOG_LEVELS:
        return LOG_LEVELS[a["referencedDecl"]["name"]]
    raise ExtractError("log statement whose level I cannot read")


def is_loglevel_if(n):
    """`if (Logger::logLevel() <= L) ..` (the shape of LOG_TRACE / LOG_DEBUG / LOG_INFO and of the guarded print-out)"""
    if n.get("kind") != "IfStmt" or len(kids(n)) != 2:
        return False
    return any(x.get("kind") == "DeclRefExpr" and x.get("referencedDecl", {}).get("name") == "logLevel" for x in walk(kids(n)[0]))


class Walker:
    """one function body -> list of Skel (as nested Python tuples)"""

    def __init__(self, cls, fname, tu):
        self.cls, self.fname, self.tu = cls, fname, tu

    def err(self, msg):
        raise ExtractError("%s::%s: %s" % (self.cls, self.fname, msg))

    # ------------------------------------------------------------------ canonical printing
    def pp(self, n, top=True):
        n = peel(n)
        k = n.get("kind")
        if k == "IntegerLiteral":
            return str(int(n["value"]))
        if k == "CXXBoolLiteralExpr":
            return "true" if n["value"] else "false"
        if k in ("CXXNullPtrLiteralExpr", "GNUNullExpr"):
            return "nullptr"
        if k == "StringLiteral":
            return n["value"]
        if k == "CXXThisExpr":
            return "this"
        if k == "DeclRefExpr":
            return n["referencedDecl"]["name"]
        if k == "MemberExpr":
            if not kids(n) or peel(kids(n)[0]).get("kind") == "CXXThisExpr":
                return n["name"]
            return self.pp(deref(kids(n)[0]), False) + "." + n["name"]
        if k == "CXXMemberCallExpr":
            callee = peel(kids(n)[0])
            if callee.get("kind") != "MemberExpr":
                self.err("cannot print a call through %s" % callee.get("kind"))
            if callee.get("name", "").startswith("operator ") and len(kids(n)) == 1:
                return self.pp(deref(kids(callee)[0]), False)          # conversion operator: the object itself
            return "%s(%s)" % (self.pp(callee, False), ", ".join(self.pp(a) for a in kids(n)[1:]))
        if k == "CXXOperatorCallExpr":
            op = callee_name(n) or "operator?"
            args = kids(n)[1:]
            if op == "operator->" and len(args) == 1:
                return self.pp(args[0], False)
            if op == "operator*" and len(args) == 1:
                return "*" + self.pp(args[0], False)
            if op == "operator[]" and len(args) == 2:
                return "%s[%s]" % (self.pp(args[0], False), self.pp(args[1]))
            if op == "operator()":
                return "%s(%s)" % (self.pp(args[0], False), ", ".join(self.pp(a) for a in args[1:]))
            sym = op[len("operator"):]
            if len(args) == 2:
                s = "%s %s %s" % (self.pp(args[0], False), sym, self.pp(args[1], False))
                return s if top else "(" + s + ")"
            if len(args) == 1:
                return sym + self.pp(args[0], False)
            self.err("cannot print operator call %s" % op)
        if k == "CallExpr":
            if is_errno(n):
                return "&errno"
            nm = callee_name(n)
            if nm is None:
                self.err("cannot print an indirect call")
            return "%s(%s)" % (nm, ", ".join(self.pp(a) for a in kids(n)[1:]))
        if k == "UnaryOperator":
            op = n.get("opcode")
            a = kids(n)[0]
            if op == "*" and is_errno(a):
                return "errno"
            if n.get("isPostfix"):
                return self.pp(a, False) + op
            return op + self.pp(a, False)
        if k in ("BinaryOperator", "CompoundAssignOperator"):
            l, r = kids(n)
            s = "%s %s %s" % (self.pp(l, False), n.get("opcode"), self.pp(r, False))
            return s if top else "(" + s + ")"
        if k == "ArraySubscriptExpr":
            l, r = kids(n)
            return "%s[%s]" % (self.pp(l, False), self.pp(r))
        if k == "ConditionalOperator":
            c, a, b = kids(n)
            return "(%s ? %s : %s)" % (self.pp(c, False), self.pp(a, False), self.pp(b, False))
        if k in CTOR_KINDS or k == "CXXFunctionalCastExpr":
            args = kids(n)
            if len(args) == 1 and k != "CXXTemporaryObjectExpr":
                return self.pp(args[0], top)                           # copy / conversion: the value itself
            return "%s(%s)" % (short_type(ctype(n)), ", ".join(self.pp(a) for a in args))
        if k == "UnaryExprOrTypeTraitExpr":
            return "%s(%s)" % (n.get("name", "sizeof"), ", ".join(self.pp(a) for a in kids(n)) or n.get("argType", {}).get("qualType", ""))
        if k == "CXXDefaultArgExpr":
            return "<default>"
        self.err("cannot print expression node %s" % k)

    def args(self, call):
        return lean_str(", ".join(self.pp(a) for a in kids(call)[1:]))

    # ------------------------------------------------------------------ calls
    def classify(self, n):
        """(act or None, descend into the arguments?) of one call node; unknown -> ExtractError"""
        k = n.get("kind")
        nm = callee_name(n)
        if k == "CXXMemberCallExpr":
            callee = _peel(kids(n)[0])
            base = kids(callee)[0] if kids(callee) else None
            if nm is not None and nm.startswith("operator ") and len(kids(n)) == 1:
                return None, True                                       # conversion operator: a value
            if base is None or is_this(base):
                if nm == "assertInLoopThread":
                    return None, False                                  # I2
                if nm in PURE_THIS.get(self.cls, ()):
                    return None, True
                return ".call %s %s" % (lean_str(nm), self.args(n)), True
            m = this_member(base)
            if m == MAP_MEMBER:
                if nm in MAP_PURE:
                    return None, True
                if nm == "erase" and len(kids(n)) == 2:
                    return ".chanMap .erase %s \"\"" % self.args(n), True
                self.err("operation `%s` on `channels_` is not in the vocabulary" % nm)
            b = deref(base)
            vname = m if m in VECTORS else (b["referencedDecl"]["name"] if b.get("kind") == "DeclRefExpr"
                                            and b.get("referencedDecl", {}).get("name") in VECTORS else None)
            if vname is not None:
                if nm in VEC_PURE:
                    return None, True
                if nm in VEC_OPS:
                    return ".vec %s .%s %s" % (lean_str(vname), VEC_OPS[nm], self.args(n)), True
                self.err("operation `%s` on the array `%s` is not in the vocabulary" % (nm, vname))
            if m == "poller_":
                if nm in POLLER_FNS:
                    return ".poller .%s %s" % (nm, self.args(n)), True
                self.err("call of `%s` on `poller_` is not in the vocabulary" % nm)
            if m == "loop_":
                if nm == "assertInLoopThread":
                    return None, False                                  # I2
                if nm in LOOP_FNS:
                    return ".loop .%s %s" % (nm, self.args(n)), True
                self.err("call of `%s` on `loop_` is not in the vocabulary" % nm)
            if callee.get("isArrow") and is_channel_ptr(base):
                if nm in CHAN_OPS:
                    return ".chan %s .%s %s" % (lean_str(self.pp(base)), CHAN_OPS[nm], self.args(n)), True
                if nm in CHAN_PURE:
                    return None, True
                self.err("call of `%s` through a Channel* is not in the vocabulary" % nm)
            if nm in PURE_ON.get(m, ()):
                return None, True
            if m is not None:
                self.err("call of `%s` on member `%s` is not in the vocabulary" % (nm, m))
            self.err("call of `%s` on `%s` is not in the vocabulary" % (nm, self.pp(base)))
        if k == "CXXOperatorCallExpr":
            if nm == "operator()":
                a = kids(n)[1:]
                m = this_member(a[0]) if a else None
                if self.cls == "Channel" and m in CB_OF:
                    return ".cb .%s" % CB_OF[m], True
                self.err("call of a function object that is not one of the four channel callbacks")
            if nm in PURE_OPS:
                return None, True
            self.err("operator call `%s` is not in the vocabulary" % nm)
        if k == "CallExpr":
            c = _peel(kids(n)[0])
            rd = c.get("referencedDecl", {}) if c.get("kind") == "DeclRefExpr" else {}
            if nm == "now" and rd.get("kind") == "CXXMethodDecl" and len(kids(n)) == 1:
                return None, False                                      # I5: Timestamp::now()
            if nm in SYS_FREE:
                return ".sys .%s %s" % (SYS_FREE[nm], self.args(n)), True
            if nm == "memZero":
                return ".zero %s" % self.args(n), True
            if nm == "iter_swap":
                return ".vec %s .iterSwap %s" % (lean_str(self.swap_target(n)), self.args(n)), True
            if nm in PURE_FREE:
                return None, True
            self.err("call of free function `%s` is not in the vocabulary" % nm)
        self.err("unexpected call node %s" % k)

    def swap_target(self, n):
        names = set()
        for x in walk(n):
            m = this_member(x) if x.get("kind") == "MemberExpr" else None
            if m in VECTORS:
                names.add(m)
        if len(names) != 1:
            self.err("iter_swap over %s" % (sorted(names) or "something that is not one array of the poller"))
        return names.pop()

    def emit(self, out, act, in_cond):
        if in_cond == "pure":
            self.err("side effect inside an assertion or a log statement: %s" % act)
        if in_cond and not act.startswith(".sys "):
            self.err("side effect inside a condition: %s" % act)
        out.append(("act", act))

    def lhs(self, n):
        """(printed name, ignored?) of the target of a store"""
        n = peel(n)
        k = n.get("kind")
        if k == "UnaryOperator" and n.get("opcode") == "*" and is_errno(kids(n)[0]):
            return "errno", True
        if k == "DeclRefExpr":
            name = n["referencedDecl"]["name"]
            return name, name in ERRNO_LOCALS
        if k == "MemberExpr":
            for x in walk(n):
                if x.get("kind") in CALL_KINDS:
                    self.err("assignment through a call")
            m = this_member(n)
            if m is not None:
                return m, m in IGNORED_MEMBERS.get(self.cls, ())
            return self.pp(n), n.get("name") in IGNORED_FIELDS
        self.err("assignment to something that is neither a local, a field nor a member (%s)" % k)

    def store(self, l, r, out, in_cond):
        pl = peel(l)
        if pl.get("kind") == "CXXOperatorCallExpr" and callee_name(pl) == "operator[]" and this_member(kids(pl)[1]) == MAP_MEMBER:
            key = kids(pl)[2]
            self.expr(key, out, in_cond)
            self.expr(r, out, in_cond)
            self.emit(out, ".chanMap .insert %s %s" % (lean_str(self.pp(key)), lean_str(self.pp(r))), in_cond)
            return
        name, ignored = self.lhs(l)
        sub = []
        self.expr(r, sub, in_cond)
        out.extend(sub)
        if ignored:
            return
        if not sub:
            self.emit(out, ".assign %s %s" % (lean_str(name), lean_str(self.pp(r))), in_cond)

    def expr(self, n, out, in_cond=False):
        """append the acts of expression `n` to `out`, in evaluation order (arguments before the call, right-hand
        side before the store)"""
        n = peel(n)
        k = n.get("kind")
        if k == "LambdaExpr":
            self.err("lambda expression")
        if k == "CXXOperatorCallExpr" and callee_name(n) == "operator=":
            ks = kids(n)
            self.store(ks[1], ks[2], out, in_cond)
            return
        if k in CALL_KINDS:
            act, descend = self.classify(n)
            if descend:
                for c in kids(n):
                    self.expr(c, out, in_cond)
            if act is not None:
                self.emit(out, act, in_cond)
            return
        if k in CTOR_KINDS or k == "CXXFunctionalCastExpr":
            t = short_type(ctype(n))
            if not t.startswith(VALUE_TYPES):
                self.err("construction of a `%s` is not in the vocabulary" % t)
            for c in kids(n):
                self.expr(c, out, in_cond)
            return
        if k == "BinaryOperator" and n.get("opcode") == "=":
            l, r = kids(n)
            self.store(l, r, out, in_cond)
            return
        if k == "CompoundAssignOperator" or (k == "UnaryOperator" and n.get("opcode") in ("++", "--")):
            name, ignored = self.lhs(kids(n)[0])
            if k == "CompoundAssignOperator":
                self.expr(kids(n)[1], out, in_cond)
            if not ignored:
                self.emit(out, ".assign %s %s" % (lean_str(name), lean_str(self.pp(n))), in_cond)
            return
        if k in ("CXXNewExpr", "CXXDeleteExpr", "CXXThrowExpr", "StmtExpr"):
            self.err("%s is not in the vocabulary" % k)
        for c in kids(n):
            self.expr(c, out, in_cond)

    # ------------------------------------------------------------------ statements
    def check_log(self, n):
        for x in walk(n):
            if x.get("kind") in CALL_KINDS and callee_name(x) not in LOG_PURE:
                self.err("call of `%s` inside a log statement" % callee_name(x))
            if x.get("kind") in ("LambdaExpr", "CXXNewExpr", "CXXDeleteExpr", "CompoundAssignOperator") or (
                    x.get("kind") == "BinaryOperator" and x.get("opcode") == "="):
                self.err("assignment, allocation or lambda inside a log statement")
            if x.get("kind") == "UnaryOperator" and x.get("opcode") in ("++", "--"):
                self.err("increment inside a log statement")

    def log_stmt(self, s, out):
        """True when `s` is a log statement (handled here)"""
        n = _peel(s)
        if is_log_expr(n):
            self.check_log(n)
            lvl = log_level(n)
            if lvl is not None:
                out.append(("act", ".log .%s" % lvl))
            return True
        if is_loglevel_if(n):                                           # LOG_TRACE & co., the guarded print-out
            body = kids(n)[1]
            stmts = kids(body) if body.get("kind") == "CompoundStmt" else [body]
            for b in stmts:
                b0 = _peel(b)
                if is_log_expr(b0):
                    if log_level(b0) is not None:
                        self.err("a log statement of level ERROR or above guarded by the log level")
                elif not (b0.get("kind") == "CXXMemberCallExpr" and callee_name(b0) == "printActiveChannels"):
                    self.err("an `if` on the log level that does more than log")
            self.check_log(n)
            return True
        return False

    def is_errno_report(self, s):
        """I5: `if (savedErrno != EINTR) { errno = savedErrno; LOG_SYSERR << ..; }`"""
        ks = kids(s)
        if len(ks) != 2:
            return False
        names = [x["referencedDecl"]["name"] for x in walk(ks[0]) if x.get("kind") == "DeclRefExpr"]
        if not names or any(nm not in ERRNO_LOCALS for nm in names) or any(x.get("kind") in CALL_KINDS for x in walk(ks[0])):
            return False
        body = kids(ks[1]) if ks[1].get("kind") == "CompoundStmt" else [ks[1]]
        for b in body:
            b0 = _peel(b)
            if is_log_expr(b0):
                self.check_log(b0)
                if log_level(b0) != "syserr":
                    return False
                continue
            if b0.get("kind") == "BinaryOperator" and b0.get("opcode") == "=" and self.lhs(kids(b0)[0]) == ("errno", True) \
                    and peel(kids(b0)[1]).get("kind") == "DeclRefExpr":
                continue
            return False
        return True

    def cond(self, c, out):
        """name of the condition; a system call it evaluates goes to `out` (before the `ite`)"""
        self.expr(c, out, in_cond=True)
        key = (self.tu, c.get("id"))
        if key in poller.SITES:
            return poller.SITES[key]
        return self.pp(c)

    def for_stmt(self, s, out):
        inner = s.get("inner") or []
        if len(inner) != 5 or (isinstance(inner[1], dict) and inner[1].get("kind")):
            self.err("`for` of an unexpected shape")
        init, _, cnd, inc, body = inner
        if not (isinstance(init, dict) and init.get("kind") == "DeclStmt" and len(kids(init)) == 1 and kids(init)[0].get("kind") == "VarDecl"
                and kids(kids(init)[0])) or not (isinstance(cnd, dict) and cnd.get("kind")) or not (isinstance(inc, dict) and inc.get("kind")):
            self.err("`for` without one initialised loop variable, a condition and an increment")
        var = kids(init)[0]
        sink = []
        self.expr(kids(var)[0], sink, in_cond="pure")
        self.expr(cnd, sink, in_cond="pure")
        i0 = peel(inc)
        if not (i0.get("kind") == "UnaryOperator" and i0.get("opcode") in ("++", "--")) and not (
                i0.get("kind") == "CXXOperatorCallExpr" and callee_name(i0) in ("operator++", "operator--")):
            self.err("`for` whose increment is not ++ / --")
        if i0.get("kind") == "UnaryOperator":
            incs = self.pp(i0)
        else:
            incs = callee_name(i0)[len("operator"):] + self.pp(kids(i0)[1], False)
        rng = "%s = %s; %s; %s" % (var["name"], self.pp(kids(var)[0]), self.pp(cnd), incs)
        b = []
        self.stmt(body, b)
        out.append(("each", var["name"], rng, b))

    def range_for(self, s, out):
        ks = kids(s)
        if len(ks) != 7 or [x.get("kind") for x in ks[:3]] != ["DeclStmt"] * 3 or ks[5].get("kind") != "DeclStmt":
            self.err("range-based `for` of an unexpected shape")
        rng, var = kids(ks[0])[0], kids(ks[5])[0]
        if rng.get("name", "").find("__range") != 0 or var.get("kind") != "VarDecl" or not kids(rng) or not kids(var):
            self.err("range-based `for` of an unexpected shape")
        it = peel(kids(var)[0])
        if not (it.get("kind") == "CXXOperatorCallExpr" and callee_name(it) == "operator*") and not (
                it.get("kind") == "UnaryOperator" and it.get("opcode") == "*"):
            self.err("range-based `for` whose variable is not the element itself")
        sink = []
        self.expr(kids(rng)[0], sink, in_cond="pure")
        body = []
        self.stmt(ks[6], body)
        out.append(("each", var["name"], self.pp(kids(rng)[0]), body))

    def stmt(self, s, out):
        k = s.get("kind")
        if k == "NullStmt":
            return
        if k == "CompoundStmt":
            for c in kids(s):
                self.stmt(c, out)
            return
        if self.log_stmt(s, out):                                       # I1 / `.log`
            return
        if k == "IfStmt":
            ks = kids(s)
            if s.get("hasInit") or s.get("hasVar") or len(ks) not in (2, 3):
                self.err("`if` with an init statement / condition variable")
            if self.is_errno_report(s):                                 # I5
                return
            name = self.cond(ks[0], out)
            thn, els = [], []
            self.stmt(ks[1], thn)
            if len(ks) == 3:
                self.stmt(ks[2], els)
            if thn or els:                                              # I6
                out.append(("ite", name, thn, els))
            return
        if k == "ForStmt":
            self.for_stmt(s, out)
            return
        if k == "CXXForRangeStmt":
            self.range_for(s, out)
            return
        if k == "ReturnStmt":
            for c in kids(s):
                self.expr(c, out)
            out.append(("act", ".ret"))
            return
        if k == "DoStmt":
            body, cnd = kids(s)[0], kids(s)[1]
            if body.get("kind") == "CompoundStmt" and not kids(body) and peel(cnd).get("kind") in ("IntegerLiteral", "CXXBoolLiteralExpr"):
                return                                                  # I7
            self.err("a do-loop that is not an empty MUDUO_VERIF_POINT")
        if k == "DeclStmt":
            for v in kids(s):
                if v.get("kind") != "VarDecl":
                    self.err("declaration of a %s inside the body" % v.get("kind"))
                init = kids(v)
                if not init:
                    continue                                            # I4: no initialiser
                i0 = _peel(init[0])
                if i0.get("kind") == "CXXConstructExpr" and not kids(i0):
                    t = short_type(ctype(i0))
                    if not t.startswith(VALUE_TYPES):
                        self.err("default construction of a `%s` is not in the vocabulary" % t)
                    continue                                            # I4: default-constructed
                sub = []
                self.expr(init[0], sub)
                out.extend(sub)                                         # `int n = ::poll(..)`: the call is the action
                if sub or v["name"] in ERRNO_LOCALS:
                    continue
                t = short_type(ctype(v))
                if t == "Timestamp":
                    continue                                            # I5
                if t.endswith("&"):                                     # a reference: an alias of what it is bound to
                    out.append(("act", ".assign %s %s" % (lean_str("&" + v["name"]), lean_str(self.pp(init[0])))))
                elif t in ARITH or t.endswith("*") or t.endswith("iterator"):
                    out.append(("act", ".assign %s %s" % (lean_str(v["name"]), lean_str(self.pp(init[0])))))
                else:
                    self.err("declaration of a local of type `%s` is not in the vocabulary" % t)
            return
        if is_assert(s):
            sink = []
            self.expr(kids(_peel(s))[0], sink, in_cond="pure")
            text = assert_text(s)
            if text not in IGNORED_ASSERTS:                             # I3
                out.append(("act", ".assertion %s" % lean_str(text)))
            return
        if k.endswith("Stmt"):
            self.err("statement kind %s is outside the supported subset" % k)
        # an expression statement
        self.expr(s, out)


def render(items, ind):
    pad = " " * ind
    lines = []
    for it in items:
        if it[0] == "act":
            lines.append("%s.act (%s)" % (pad, it[1]))
        elif it[0] == "each":
            _, var, rng, body = it
            s = "%s.each %s %s" % (pad, lean_str(var), lean_str(rng))
            s += "\n%s  [\n%s\n%s  ]" % (pad, render(body, ind + 4), pad) if body else " []"
            lines.append(s)
        else:
            _, name, thn, els = it
            s = "%s.ite %s" % (pad, lean_str(name))
            for br in (thn, els):
                if br:
                    s += "\n%s  [\n%s\n%s  ]" % (pad, render(br, ind + 4), pad)
                else:
                    s += " []"
            lines.append(s)
    return ",\n".join(lines)


HEAD_DOC = """/-!
Statement skeletons of the functions of `EPollPoller.cc`, `PollPoller.cc`, `Channel.cc` and `EventLoop.cc` modelled in
`Model/Poller.lean`: the significant actions in source order - system calls (`::poll`, `::epoll_wait`, `::epoll_ctl`),
`memZero`, assertions (by their source text), the mutating member calls through a `Channel*` (`set_index`,
`set_revents`, `handleEvent`), the mutating operations of `channels_` and of the arrays `pollfds_` / `events_` /
`activeChannels`, the four channel callbacks, calls through `poller_` / `loop_`, direct calls of other member functions,
`LOG_SYSERR` / `LOG_SYSFATAL` (`LOG_ERROR` / `LOG_FATAL`), every store to a member, to a field of a local record and to
a local (`&name`: a reference; the actions of the right-hand side come first; when the right-hand side is a significant call the
store is that call only) and `return`.  `if`s are `ite <guard> then else`, named after the guard `Generated/Poller.lean`
took from that very condition (any other condition is printed); a system call a condition evaluates precedes the `ite`.
A `for` is `each <variable> <range> <body>` (range of a classic `for`: `init; condition; increment`).  Of
`EventLoop::loop` the skeleton (`loopIteration`) is the body of its `while (!quit_)` loop.
`Proofs/PollerSkelTie.lean` proves each one equal to the skeleton the model implements (`Model/PollerSkelDecl.lean`).

Not part of a skeleton (the model abstracts from exactly these):
* I1 log statements below ERROR (`LOG_TRACE/DEBUG/INFO/WARN`, `if (logLevel() <= TRACE) printActiveChannels()`; only
  value getters may be called inside one, anything else stops the extraction);
* I2 `assertInLoopThread()` - the model runs everything on the loop thread by construction;
* I3 three assertions, by their exact text: `channel->ownerLoop() == this` (one loop in the model), `n == 1` (the count
  returned by `channels_.erase`, the key was asserted present just before), `channel->fd() == pfd->fd` (the model's
  `cmap` is keyed by the channel's own descriptor by construction); every other assertion is an action;
* I4 declarations of locals without an initialiser (`pfd`, `event`, `guard`), casts (`static_cast`, `implicit_cast`,
  `(void)x`);
* I5 time stamps (`Timestamp now(Timestamp::now())`, the store to `pollReturnTime_`); errno bookkeeping
  (`savedErrno`, `errno = ..`) and the report of a failed wait `if (savedErrno != EINTR) { errno = savedErrno;
  LOG_SYSERR << .. }` (the model's `nret` is a `Nat`); Channel's own `eventHandling_` flag; stores to the `revents`
  field of a `pollfd` (`pfd.revents = 0`);
* I6 an `if` none of whose branches contains a significant action (`if (logHup_) LOG_WARN ..`, `if (revents_ &
  POLLNVAL) LOG_WARN ..`, `else if (numEvents == 0) LOG_TRACE ..`);
* I7 `MUDUO_VERIF_POINT` (an empty `do { } while (0)`).
Value getters (`fd()/events()/index()/isNoneEvent()/isReading()/isWriting()` of a channel, `find/end/[]` of `channels_`
when read, `begin/end/size/back/[]` of the arrays, iterator arithmetic, `tie_.lock()`, `std::find`, a callback tested as
a boolean, `errno`) are not actions; every other call, construction or statement kind must be in the vocabulary or the
extraction fails.
-/
"""


def generate():
    poller.generate()          # fills poller.SITES for the tree as it is now (same cached AST dumps)
    out = [HEADER % "muduo/net/poller/EPollPoller.cc, poller/PollPoller.cc, Channel.cc, EventLoop.cc",
           "import MuduoVerif.Model.PollerSkelDecl\n", HEAD_DOC, "namespace MuduoVerif.Gen.PollerSkel", "open MuduoVerif.PollerSkel\n"]
    for lean, cls, cxx, tu, flt in FUNCTIONS:
        fn = the_function(ast_dump(tu, flt), cxx)
        w = Walker(cls, fn["name"], tu)
        body = body_of(fn)
        what = "%s::%s" % (cls, fn["name"])
        if cls == "EventLoop" and cxx == "loop":
            loops = [c for c in kids(body) if c.get("kind") == "WhileStmt"]
            if len(loops) != 1 or len(kids(loops[0])) != 2:
                raise ExtractError("EventLoop::loop: expected exactly one top-level `while` loop")
            body = kids(loops[0])[1]
            what += ", body of `while (%s)`" % w.pp(kids(loops[0])[0])
        items = []
        w.stmt(body, items)
        ptypes = [short_type(ctype(k)) for k in kids(fn) if k.get("kind") == "ParmVarDecl"]
        out.append("/-- `%s(%s)`%s -/" % (what.split(",")[0], ", ".join(ptypes), what[len(what.split(",")[0]):]))
        if items:
            out.append("def %s : List Skel :=\n  [\n%s\n  ]\n" % (lean, render(items, 4)))
        else:
            out.append("def %s : List Skel := []\n" % lean)
    out.append("end MuduoVerif.Gen.PollerSkel")
    return "\n".join(out) + "\n"
