"""T1 for LogStream / Logging (C17): constants, digit tables, level names, the space guards of
FixedBuffer::append / formatInteger / operator<<(const void*) / operator<<(double), the order and
kind of the pieces a log line is assembled from, the printf formats of the time stamp and the
thread id, the level gate of the LOG_* macros, the branch tables of formatSI / formatIEC and
the integer arithmetic of BreakTime / fillHMS / getYearMonthDay as used by Logger::Impl::formatTime.

Everything is taken from the clang AST of the current sources (macros: `g++ -E -dM`); a site
whose shape is not the expected one raises ExtractError.
"""
import os
import re
from fractions import Fraction

from ..common import REPO, sh
from ..extract import (HEADER, ExtractError, Tr, ast_dump, body_of, const_int, ctype, find_ifs, functions, if_cond,
                       kids, locate_if, mentions, prop_def, strip, the_function, unparen, walk)

NAME = "LogStream"

# Filled by generate(), read by vlib/gen/logstreamskel.py so that both files always talk about the same site:
#   SITES  (translation unit, clang node id of an `if` condition) -> name of the guard / table row generated from it
#   ROWS   (translation unit, clang node id of the `snprintf` call of a formatSI / formatIEC branch) -> name of its table row
SITES = {}
ROWS = {}

LEVELS_EXPECTED = 6


# ----------------------------------------------------------------------------- helpers

def c_unescape(lit):
    """bytes of a C string literal as clang spells it (with the quotes)"""
    m = re.match(r'^(?:u8|L|u|U)?"(.*)"$', lit, re.S)
    if not m:
        raise ExtractError("not a plain string literal: %r" % lit)
    s, out, i = m.group(1), bytearray(), 0
    simple = {"n": 10, "t": 9, "r": 13, "0": 0, "\\": 92, '"': 34, "'": 39, "a": 7, "b": 8, "f": 12, "v": 11, "?": 63}
    while i < len(s):
        c = s[i]
        if c != "\\":
            out += c.encode("utf-8")
            i += 1
            continue
        i += 1
        c = s[i]
        if c == "x":
            j = i + 1
            while j < len(s) and s[j] in "0123456789abcdefABCDEF":
                j += 1
            out.append(int(s[i + 1:j], 16) & 255)
            i = j
        elif c in "01234567":
            j = i
            while j < len(s) and j < i + 3 and s[j] in "01234567":
                j += 1
            out.append(int(s[i:j], 8) & 255)
            i = j
        elif c in simple:
            out.append(simple[c])
            i += 1
        else:
            raise ExtractError("unsupported escape \\%s in %r" % (c, lit))
    return bytes(out)


def lean_bytes(b):
    return "[" + ", ".join(str(x) for x in b) + "]"


def show(b):
    return "".join(chr(x) if 32 <= x < 127 and chr(x) not in "-/" else "\\x%02x" % x for x in b).replace("\\x2d", "-").replace("\\x2f", "/")


def bytes_def(name, b, doc):
    return "/-- %s: `%s` -/\ndef %s : List Nat := %s\n" % (doc, show(b).replace("`", "'"), name, lean_bytes(b))


def var_decl(docs, name):
    for d in docs:
        for n in walk(d):
            if n.get("kind") == "VarDecl" and n.get("name") == name and kids(n):
                return n
    raise ExtractError("variable %s not found" % name)


def string_of(n):
    n = strip(n)
    if n.get("kind") != "StringLiteral":
        raise ExtractError("expected a string literal, found %s" % n.get("kind"))
    return c_unescape(n["value"])


def deep_strip(n):
    """strip + the wrappers of temporaries"""
    while True:
        m = strip(n)
        if m.get("kind") in ("CXXConstructExpr", "CXXTemporaryObjectExpr") and len(kids(m)) == 1:
            m = kids(m)[0]
        if m is n:
            return n
        n = m


def ref_name(n):
    n = deep_strip(n)
    if n.get("kind") == "DeclRefExpr":
        return n["referencedDecl"]["name"]
    if n.get("kind") == "MemberExpr":
        return n.get("name")
    return None


def callee_name(call):
    ks = kids(call)
    if not ks:
        return None
    c = strip(ks[0])
    if c.get("kind") == "DeclRefExpr":
        return c["referencedDecl"]["name"]
    if c.get("kind") == "MemberExpr":
        return c.get("name")
    if c.get("kind") == "UnresolvedLookupExpr":
        return c.get("name")
    return None


# ----------------------------------------------------------------------------- guards

class GuardTr(Tr):
    """`Tr` + the dependent forms clang leaves inside the template pattern of FixedBuffer"""

    def expr(self, n):
        m = strip(n)
        if m.get("kind") == "CallExpr":
            nm = callee_name(m)
            ks = kids(m)
            if nm in ("implicit_cast", "static_cast") and len(ks) == 2:
                return self.expr(ks[1])
            c = strip(ks[0])
            if c.get("kind") == "MemberExpr" and len(ks) == 1:
                base = kids(c)
                if not base or strip(base[0]).get("kind") == "CXXThisExpr":
                    return self.lookup(c["name"] + "()", m)
        return Tr.expr(self, n)


def numeric_guard(fn, what, site=None):
    ifs = [i for i in find_ifs(fn) if mentions(if_cond(i), "avail")]
    if len(ifs) != 1:
        raise ExtractError("%s: expected exactly one `if` on avail(), found %d" % (what, len(ifs)))
    t = GuardTr({"buffer_.avail()": "avail"}, {"kMaxNumericSize": "kMaxNumericSize"})
    text = unparen(t.expr(if_cond(ifs[0])))
    if site is not None:
        SITES[("LogStream.cc", if_cond(ifs[0]).get("id"))] = site      # only a condition that was translated
    return text, ifs[0]


# ----------------------------------------------------------------------------- pieces of a line

def chain(n):
    """operands of a left-nested `s << a << b << c` (without the stream itself)"""
    n = strip(n)
    if n.get("kind") == "CXXOperatorCallExpr":
        ks = kids(n)
        if callee_name(n) == "operator<<" and len(ks) == 3:
            return chain(ks[1]) + [ks[2]]
        raise ExtractError("unexpected operator call in an insertion chain")
    if n.get("kind") == "MemberExpr" and n.get("name") == "stream_":
        return []
    raise ExtractError("insertion chain does not start at stream_ (%s)" % n.get("kind"))


def piece(n):
    m = deep_strip(n)
    k = m.get("kind")
    if k == "StringLiteral":
        return ".lit " + lean_bytes(c_unescape(m["value"]))
    if k == "CharacterLiteral":
        return ".chr %d" % int(m["value"])
    if k == "MemberExpr" and m.get("name") == "basename_":
        return ".base"
    if k == "MemberExpr" and m.get("name") == "line_":
        return ".line"
    if k == "DeclRefExpr" and m["referencedDecl"]["name"] == "savedErrno":
        return ".errno"
    if k == "DeclRefExpr" and m["referencedDecl"]["name"] == "func":
        return ".func"
    if k == "CallExpr" and callee_name(m) == "strerror_tl":
        return ".errtext"
    if k in ("CXXTemporaryObjectExpr", "CXXConstructExpr") and "T" in ctype(m).split("::")[-1:] + [ctype(m)]:
        a, ln = kids(m)
        a, ln = deep_strip(a), strip(ln)
        if a.get("kind") == "CallExpr" and callee_name(a) == "tidString":
            if not (ln.get("kind") == "CallExpr" and callee_name(ln) == "tidStringLength"):
                raise ExtractError("tid string is not inserted with its own length")
            return ".tid"
        if ln.get("kind") != "IntegerLiteral":
            raise ExtractError("T(...) with a non-literal length")
        w = int(ln["value"])
        if a.get("kind") == "ArraySubscriptExpr" and mentions(a, "LogLevelName") and mentions(a, "level"):
            return ".level %d" % w
        if a.get("kind") == "DeclRefExpr" and a["referencedDecl"]["name"] == "t_time":
            return ".time %d" % w
        if a.get("kind") == "CXXMemberCallExpr" and callee_name(a) == "data" and mentions(a, "us"):
            return ".us %d" % w
    raise ExtractError("unknown operand of an insertion chain: %s" % k)


def pieces_def(name, nodes, doc):
    return "/-- %s -/\ndef %s : List Piece := [%s]\n" % (doc, name, ", ".join(piece(n) for n in nodes))


def stmts(compound):
    return [k for k in kids(compound)]


def unwrap_stmt(n):
    while n.get("kind") in ("ExprWithCleanups",):
        n = kids(n)[0]
    return n


# ----------------------------------------------------------------------------- the thread id cache

def is_tid_call(n):
    """`CurrentThread::tid()` as an expression (its result may be discarded)"""
    n = strip(n)
    if n.get("kind") != "CallExpr" or len(kids(n)) != 1:
        return False
    c = strip(kids(n)[0])
    return c.get("kind") == "DeclRefExpr" and c["referencedDecl"]["name"] == "tid" and ctype(c).replace(" ", "") == "int()"


def assigns(s, name):
    """the right-hand side when `s` is `name = rhs;`, else None"""
    s = unwrap_stmt(s)
    if s.get("kind") == "BinaryOperator" and s.get("opcode") == "=":
        lhs, rhs = kids(s)
        if ref_name(lhs) == name:
            return rhs
    return None


def tid_steps(stmts_, what, stop=None):
    """what a straight-line statement list does to the tid cache: `t_cachedTid = 0` and calls of
    `CurrentThread::tid()`; assignments to t_threadName are ignored, anything else touching the cache is unknown"""
    res = []
    for s in stmts_:
        s = unwrap_stmt(s)
        if stop is not None and stop(s):
            break
        rhs = assigns(s, "t_cachedTid")
        if rhs is not None:
            v = strip(rhs)
            if v.get("kind") != "IntegerLiteral" or int(v["value"]) != 0:
                raise ExtractError("%s: t_cachedTid is assigned something other than 0" % what)
            res.append(".reset")
            continue
        if any(is_tid_call(x) for x in walk(s) if x.get("kind") == "CallExpr"):
            if not (is_tid_call(s) or (s.get("kind") == "BinaryOperator" and s.get("opcode") == "=" and is_tid_call(kids(s)[1]))):
                raise ExtractError("%s: CurrentThread::tid() is called inside a statement of unknown shape" % what)
            res.append(".callTid")
            continue
        if any(mentions(s, nm) for nm in ("t_cachedTid", "t_tidString", "t_tidStringLength", "cacheTid")):
            raise ExtractError("%s: the tid cache is touched by a statement of unknown shape" % what)
    return res


TID_STEP = """/-- what a piece of start-up code does to the calling thread's tid cache -/
inductive TidStep
  | reset      -- `t_cachedTid = 0;`
  | callTid    -- `CurrentThread::tid();`
deriving Repr, DecidableEq
"""

IMPL_STEP = """/-- one statement of `Logger::Impl::Impl` -/
inductive ImplStep
  | formatTime                   -- `formatTime();`
  | callTid                      -- `CurrentThread::tid();` (result discarded: the call fills the thread's tid cache)
  | ins (ps : List Piece)        -- `stream_ << … << …;`
  | errnoIf (ps : List Piece)    -- `if (savedErrno != 0) { stream_ << … }`
deriving Repr, DecidableEq
"""


def tid_cache_section():
    out = []
    # --- CurrentThread::tid() (inline, CurrentThread.h)
    cur = ast_dump("muduo/base/CurrentThread.cc", "muduo::CurrentThread::")
    tid = the_function(cur, "tid")
    ss = [unwrap_stmt(s) for s in stmts(body_of(tid))]
    if len(ss) != 2 or ss[0].get("kind") != "IfStmt" or ss[1].get("kind") != "ReturnStmt" or len(kids(ss[0])) != 2 \
            or ref_name(kids(ss[1])[0]) != "t_cachedTid":
        raise ExtractError("CurrentThread::tid(): expected `if (…) cacheTid(); return t_cachedTid;`")
    then = [unwrap_stmt(s) for s in (stmts(kids(ss[0])[1]) if kids(ss[0])[1].get("kind") == "CompoundStmt" else [kids(ss[0])[1]])]
    if len(then) != 1 or then[0].get("kind") != "CallExpr" or callee_name(then[0]) != "cacheTid" or len(kids(then[0])) != 1:
        raise ExtractError("CurrentThread::tid(): the guarded statement is not cacheTid()")
    c = if_cond(ss[0])
    while True:
        c = strip(c)
        if c.get("kind") == "ImplicitCastExpr" and c.get("castKind") == "IntegralToBoolean":
            c = kids(c)[0]
            continue
        if c.get("kind") == "CallExpr" and len(kids(c)) == 3 and mentions(kids(c)[0], "__builtin_expect"):
            c = kids(c)[1]
            continue
        break
    tr = Tr({"t_cachedTid": "cachedTid"}, int_mode=True)
    out.append(prop_def("tidCacheEmpty", [("cachedTid", "Int")], unparen(tr.expr(c)),
                        "`CurrentThread::tid()` (CurrentThread.h): `cacheTid()` is called iff"))
    # --- CurrentThread::cacheTid() (Thread.cc)
    th = ast_dump("muduo/base/Thread.cc", "muduo::CurrentThread::cacheTid")
    ct = the_function(th, "cacheTid")
    ss = [unwrap_stmt(s) for s in stmts(body_of(ct))]
    if len(ss) != 1 or ss[0].get("kind") != "IfStmt" or len(kids(ss[0])) != 2:
        raise ExtractError("cacheTid: expected a single `if` without else")
    out.append(prop_def("cacheTidGuard", [("cachedTid", "Int")], unparen(tr.expr(if_cond(ss[0]))),
                        "`CurrentThread::cacheTid()` (Thread.cc): the id is read and formatted iff"))
    inner = [unwrap_stmt(s) for s in stmts(kids(ss[0])[1])]
    if len(inner) != 2:
        raise ExtractError("cacheTid: expected two statements under the guard")
    g = assigns(inner[0], "t_cachedTid")
    if g is None or strip(g).get("kind") != "CallExpr" or callee_name(strip(g)) != "gettid" or len(kids(strip(g))) != 1:
        raise ExtractError("cacheTid: first statement is not t_cachedTid = gettid()")
    ln = assigns(inner[1], "t_tidStringLength")
    if ln is None:
        raise ExtractError("cacheTid: second statement does not assign t_tidStringLength")
    sn = [n for n in walk(ln) if n.get("kind") == "CallExpr" and callee_name(n) == "snprintf"]
    if len(sn) > 1:
        raise ExtractError("cacheTid: more than one snprintf")
    sn_all = [n for n in walk(body_of(ct)) if n.get("kind") == "CallExpr" and callee_name(n) == "snprintf"]
    if len(sn_all) != 1:
        raise ExtractError("cacheTid: expected exactly one snprintf")
    a = kids(sn_all[0])[1:]
    size = strip(a[1])
    if ref_name(a[0]) != "t_tidString" or ref_name(a[3]) != "t_cachedTid" or len(a) != 4 \
            or size.get("kind") != "UnaryExprOrTypeTraitExpr" or not mentions(size, "t_tidString"):
        raise ExtractError("cacheTid: snprintf(t_tidString, sizeof t_tidString, fmt, t_cachedTid) expected")
    if not sn and not any(sn_all[0] is x for x in walk(inner[1])):
        raise ExtractError("cacheTid: t_tidString is not formatted under the guard")
    out.append(bytes_def("tidFormat", string_of(a[2]), "`CurrentThread::cacheTid`: the format of `t_tidString`"))
    m = re.search(r"\[(\d+)\]", ctype(strip(a[0])))
    if not m:
        raise ExtractError("cacheTid: t_tidString is not an array")
    out.append("/-- `sizeof t_tidString` -/\ndef tidStringSize : Nat := %s\n" % m.group(1))

    class LenTr(Tr):
        def expr(self, n):
            x = strip(n)
            if x.get("kind") == "CallExpr" and callee_name(x) == "snprintf":
                return "snprintfResult"
            return Tr.expr(self, n)
    out.append("/-- `cacheTid`: the value stored into `t_tidStringLength`, given what `snprintf` returned (the length of the text) -/\n"
               "def cacheTidLength (snprintfResult : Int) : Int := %s\n" % unparen(LenTr({}, int_mode=True).expr(ln)))
    # --- initial values of the thread-locals (CurrentThread.cc)
    for nm, lean in (("t_cachedTid", "tidInitCached"), ("t_tidStringLength", "tidInitLength")):
        v = [n for n in walk({"inner": cur}) if n.get("kind") == "VarDecl" and n.get("name") == nm and kids(n)
             and n.get("tls") is not None]
        vals = set()
        for n in v:
            i = strip(kids(n)[-1])
            if i.get("kind") != "IntegerLiteral":
                raise ExtractError("%s: initialiser is not an integer literal" % nm)
            vals.add(int(i["value"]))
        if len(vals) != 1:
            raise ExtractError("%s: expected one thread-local definition with an initialiser, found %s" % (nm, sorted(vals)))
        out.append("/-- initial value of `__thread %s` in every new thread (CurrentThread.cc) -/\ndef %s : Int := %d\n"
                   % (nm, lean, vals.pop()))
    ts = [n for n in walk({"inner": cur}) if n.get("kind") == "VarDecl" and n.get("name") == "t_tidString"
          and n.get("tls") is not None and n.get("storageClass") != "extern"]
    if len(ts) != 1 or kids(ts[0]):
        raise ExtractError("t_tidString: expected one thread-local definition without initialiser (zero-filled)")
    # --- who fills / resets the cache outside the logger (Thread.cc)
    det = ast_dump("muduo/base/Thread.cc", "muduo::detail")
    out.append(TID_STEP)
    af = the_function(det, "afterFork")
    out.append("/-- `detail::afterFork` (the `pthread_atfork` child handler) -/\ndef afterForkSteps : List TidStep := [%s]\n"
               % ", ".join(tid_steps(stmts(body_of(af)), "afterFork")))
    ini = [f for f in functions(det, "ThreadNameInitializer", kinds=("CXXConstructorDecl",))]
    var = [n for n in walk({"inner": det}) if n.get("kind") == "VarDecl" and "ThreadNameInitializer" in ctype(n)
           and n.get("storageClass") != "extern"]
    registered, init_steps = False, []
    if len(ini) == 1 and len(var) == 1:
        body = stmts(body_of(ini[0]))
        init_steps = tid_steps(body, "ThreadNameInitializer")
        reg = [n for n in walk(body_of(ini[0])) if n.get("kind") == "CallExpr" and callee_name(n) == "pthread_atfork"]
        if len(reg) > 1:
            raise ExtractError("ThreadNameInitializer: more than one pthread_atfork")
        if reg:
            args = kids(reg[0])[1:]
            if len(args) != 3:
                raise ExtractError("pthread_atfork: three arguments expected")
            child = [x for x in walk(args[2]) if x.get("kind") == "DeclRefExpr"]
            registered = len(child) == 1 and child[0]["referencedDecl"]["name"] == "afterFork" \
                and child[0]["referencedDecl"].get("id") == af.get("id")
            if not registered and child:
                raise ExtractError("pthread_atfork: the child handler is not detail::afterFork")
    elif ini or var:
        raise ExtractError("ThreadNameInitializer: expected one constructor and one static object")
    out.append("/-- constructor of the static `detail::ThreadNameInitializer init` (runs on the main thread before `main`) -/\n"
               "def staticInitSteps : List TidStep := [%s]\n" % ", ".join(init_steps))
    out.append("/-- that constructor registers `afterFork` as the child handler: `pthread_atfork(NULL, NULL, &afterFork)` -/\n"
               "def atforkChildRegistered : Bool := %s\n" % ("true" if registered else "false"))
    rt = the_function(det, "runInThread")

    def runs_func(s):
        return s.get("kind") == "CXXTryStmt" or any(
            x.get("kind") == "CXXOperatorCallExpr" and mentions(x, "func_") for x in walk(s))
    top = [unwrap_stmt(s) for s in stmts(body_of(rt))]
    if not any(runs_func(s) for s in top):
        raise ExtractError("ThreadData::runInThread: the call of func_ was not found")
    out.append("/-- `detail::ThreadData::runInThread` (every `muduo::Thread`) before it calls the user's function -/\n"
               "def threadStartSteps : List TidStep := [%s]\n" % ", ".join(tid_steps(top, "runInThread", stop=runs_func)))
    return out


# ----------------------------------------------------------------------------- small integer functions

class Locals(dict):
    pass


def int_expr(n, sym, consts):
    return unparen(Tr(sym, consts, int_mode=True).expr(n))


def lets_of(fn, consts, out_struct=None, params=None, until=None):
    """`let` chain for a straight-line integer function: declarations with initialiser, assignments
    to the fields of `out_struct`, `if (c) { x += e; --y; }` without else; returns (lets, env)"""
    sym = dict(params or {})
    lets = []
    ret = None
    for s in stmts(body_of(fn)):
        s = unwrap_stmt(s)
        k = s.get("kind")
        if k == "DeclStmt":
            for v in kids(s):
                if v.get("kind") != "VarDecl":
                    raise ExtractError("unsupported declaration in %s" % fn.get("name"))
                init = kids(v)
                if not init or strip(init[-1]).get("kind") == "CXXConstructExpr":
                    continue          # the result structure
                lets.append("let %s : Int := %s" % (v["name"], int_expr(init[-1], sym, consts)))
                sym[v["name"]] = v["name"]
        elif k == "BinaryOperator" and s.get("opcode") == "=":
            lhs, rhs = kids(s)
            lhs = strip(lhs)
            if lhs.get("kind") != "MemberExpr" or ref_name(kids(lhs)[0]) != out_struct:
                raise ExtractError("unsupported assignment in %s" % fn.get("name"))
            nm = "%s_%s" % (out_struct, lhs["name"])
            lets.append("let %s : Int := %s" % (nm, int_expr(rhs, sym, consts)))
            sym[out_struct + "." + lhs["name"]] = nm
        elif k == "IfStmt":
            ks = kids(s)
            if len(ks) != 2:
                raise ExtractError("`if` with else in %s" % fn.get("name"))
            lets.append("let c_ : Bool := decide (%s)" % int_expr(ks[0], sym, consts))
            for a in stmts(ks[1]):
                a = unwrap_stmt(a)
                if a.get("kind") == "CompoundAssignOperator" and a.get("opcode") in ("+=", "-="):
                    tgt = ref_name(kids(a)[0])
                    lets.append("let %s : Int := if c_ then %s %s %s else %s" % (
                        tgt, tgt, a["opcode"][0], int_expr(kids(a)[1], sym, consts), tgt))
                elif a.get("kind") == "UnaryOperator" and a.get("opcode") in ("--", "++"):
                    tgt = ref_name(kids(a)[0])
                    lets.append("let %s : Int := if c_ then %s %s 1 else %s" % (tgt, tgt, a["opcode"][0], tgt))
                else:
                    raise ExtractError("unsupported statement under `if` in %s: %s" % (fn.get("name"), a.get("kind")))
        elif k == "ReturnStmt":
            r = kids(s)
            if r and deep_strip(r[0]).get("kind") not in ("DeclRefExpr",):
                ret = int_expr(r[0], sym, consts)
        elif k in ("CStyleCastExpr",) and s.get("castKind") == "ToVoid":
            continue
        elif k == "CallExpr" and until is not None and callee_name(s) == until:
            break
        elif k in ("CallExpr", "CXXMemberCallExpr", "ParenExpr"):
            continue          # calls with no integer result used here (assert)
        else:
            raise ExtractError("unsupported statement %s in %s" % (k, fn.get("name")))
    return lets, sym, ret


def fn_def(name, params, rtype, lets, result, doc):
    ps = " ".join("(%s : Int)" % p for p in params)
    body = "\n  ".join(lets + [result])
    return "/-- %s -/\ndef %s %s : %s :=\n  %s\n" % (doc, name, ps, rtype, body)


# ----------------------------------------------------------------------------- macros

MACROS = ["TRACE", "DEBUG", "INFO", "WARN", "ERROR", "FATAL", "SYSERR", "SYSFATAL"]
GATE = re.compile(r"^if \(muduo::Logger::logLevel\(\) (<=|<|>=|>|==|!=) muduo::Logger::(\w+)\) (.*)$")
CTOR = re.compile(r"^muduo::Logger\(__FILE__, __LINE__(?:, (muduo::Logger::\w+|true|false))?(, __func__)?\)\.stream\(\)$")
OPS = {"<=": "≤", "<": "<", ">=": "≥", ">": ">", "==": "=", "!=": "≠"}


def macro_table(levels, ctor2_level, bool_levels):
    rc, out, err = sh(["g++", "-std=c++11", "-I" + REPO, "-E", "-dM", "-x", "c++",
                       os.path.join(REPO, "muduo/base/Logging.h")], timeout=120)
    if rc != 0:
        raise ExtractError("g++ -E -dM failed on Logging.h: %s" % err[-500:])
    defs = {}
    for line in out.split("\n"):
        m = re.match(r"^#define LOG_(\w+) (.*)$", line.strip())
        if m:
            defs[m.group(1)] = " ".join(m.group(2).split())
    rows = []
    for i, name in enumerate(MACROS):
        if name not in defs:
            raise ExtractError("macro LOG_%s is not defined by Logging.h" % name)
        body = defs[name]
        gate = "True"
        g = GATE.match(body)
        if g:
            if g.group(2) not in levels:
                raise ExtractError("LOG_%s is gated on an unknown level %s" % (name, g.group(2)))
            gate = "configured %s %d" % (OPS[g.group(1)], levels.index(g.group(2)))
            body = g.group(3)
        c = CTOR.match(body)
        if not c:
            raise ExtractError("LOG_%s has an unknown shape: %s" % (name, defs[name]))
        arg, func = c.group(1), bool(c.group(2))
        errno = False
        if arg is None:
            level = ctor2_level
        elif arg in ("true", "false"):
            level = bool_levels[arg == "true"]
            errno = True
        else:
            lv = arg.split("::")[-1]
            if lv not in levels:
                raise ExtractError("LOG_%s constructs an unknown level %s" % (name, lv))
            level = levels.index(lv)
        rows.append((i, name, gate, level, errno, func, defs[name]))
    return rows


# ----------------------------------------------------------------------------- formatSI / formatIEC

FMT = re.compile(r"^%\.(\d)f([A-Za-z]*)$")


def cascade(fn):
    """the `if … else if … else` chain of snprintf calls: [(cond node or None, call node)]"""
    top = [s for s in stmts(body_of(fn)) if s.get("kind") == "IfStmt"]
    if len(top) != 1:
        raise ExtractError("%s: expected one if-chain" % fn.get("name"))
    rows, n = [], top[0]
    while True:
        ks = kids(n)
        if len(ks) != 3:
            raise ExtractError("%s: if without else inside the chain" % fn.get("name"))
        rows.append((ks[0], unwrap_stmt(ks[1])))
        if ks[2].get("kind") == "IfStmt":
            n = ks[2]
        else:
            rows.append((None, unwrap_stmt(ks[2])))
            return rows


def snprintf_args(call, fname):
    if call.get("kind") != "CallExpr" or callee_name(call) != "snprintf":
        raise ExtractError("%s: branch is not a snprintf call" % fname)
    ks = kids(call)[1:]
    return string_of(ks[2]).decode("ascii"), ks[3:]


def float_value(n, env):
    """exact value (Fraction) of a constant double expression; every operation must be exact"""
    n = strip(n)
    k = n.get("kind")
    if k == "FloatingLiteral":
        return Fraction(float(n["value"]))
    if k == "IntegerLiteral":
        return Fraction(int(n["value"]))
    if k == "ImplicitCastExpr" and n.get("castKind") == "IntegralToFloating":
        return float_value(kids(n)[0], env)
    if k == "DeclRefExpr" and n["referencedDecl"]["name"] in env:
        return env[n["referencedDecl"]["name"]]
    if k == "BinaryOperator" and n.get("opcode") == "*":
        a, b = [float_value(x, env) for x in kids(n)]
        exact = a * b
        got = Fraction(float(a) * float(b))
        if Fraction(float(a)) != a or Fraction(float(b)) != b:
            raise ExtractError("inexact operand in a constant double product")
        return got if got == exact else got   # the rounded product is what the code compares with
    raise ExtractError("unsupported constant double expression (%s)" % k)


def pow_exp(v, base):
    e, x = 0, Fraction(1)
    while x < v:
        x *= base
        e += 1
    if x != v:
        raise ExtractError("divisor %s is not a power of %d" % (v, base))
    return e


def si_table(docs):
    fn = the_function(docs, "formatSI")
    n_decl = [v for v in walk(body_of(fn)) if v.get("kind") == "VarDecl" and v.get("name") == "n"]
    if len(n_decl) != 1 or not any(x.get("castKind") == "IntegralToFloating" for x in walk(n_decl[0])) \
            or ref_name([x for x in walk(n_decl[0]) if x.get("kind") == "DeclRefExpr"][0]) != "s":
        raise ExtractError("formatSI: n is not static_cast<double>(s)")
    rows = []
    for idx, (cond, call) in enumerate(cascade(fn)):
        if cond is not None:
            SITES[("LogStream.cc", cond.get("id"))] = "siRow%d" % idx
        ROWS[("LogStream.cc", call.get("id"))] = "siRow%d" % idx if cond is not None else "siElse"
        thr, on_double = None, False
        if cond is not None:
            c = strip(cond)
            if c.get("kind") != "BinaryOperator" or c.get("opcode") != "<":
                raise ExtractError("formatSI: branch condition is not a `<` comparison")
            l, r = [strip(x) for x in kids(c)]
            if ref_name(l) == "s" and "double" not in ctype(l) and r.get("kind") == "IntegerLiteral":
                # `s < literal`: both operands are 64-bit integers, the comparison is exact
                thr = int(r["value"])
            elif ref_name(l) == "n" and ctype(l) == "double" and r.get("kind") == "FloatingLiteral":
                # `n < literal.0`: the *converted* value (double) is compared with a double constant
                f = float_value(r, {})
                if f.denominator != 1 or f < 0:
                    raise ExtractError("formatSI: double threshold %s is not a non-negative integer" % f)
                thr, on_double = f.numerator, True
            else:
                raise ExtractError("formatSI: branch condition is neither `s < integer literal` nor `n < double literal`")
        fmt, args = snprintf_args(call, "formatSI")
        if fmt in ("%ld", "%lld"):
            if len(args) != 1 or ref_name(args[0]) != "s":
                raise ExtractError("formatSI: integer branch does not print s")
            if on_double:
                raise ExtractError("formatSI: the integer branch is selected on the converted value")
            rows.append((thr, None, None, b"", False))
            continue
        m = FMT.match(fmt)
        if not m or len(args) != 1:
            raise ExtractError("formatSI: unknown format %r" % fmt)
        d = strip(args[0])
        if d.get("kind") != "BinaryOperator" or d.get("opcode") != "/" or ref_name(kids(d)[0]) != "n":
            raise ExtractError("formatSI: argument is not n / constant")
        div = float_value(kids(d)[1], {})
        rows.append((thr, int(m.group(1)), pow_exp(div, 10), m.group(2).encode(), on_double))
    return rows


def iec_table(docs):
    fn = the_function(docs, "formatIEC")
    env = {}
    for v in walk(body_of(fn)):
        if v.get("kind") == "VarDecl" and "double" in ctype(v) and v.get("name") != "n" and kids(v):
            env[v["name"]] = float_value(kids(v)[-1], env)
    rows = []
    for idx, (cond, call) in enumerate(cascade(fn)):
        if cond is not None:
            SITES[("LogStream.cc", cond.get("id"))] = "iecRow%d" % idx
        ROWS[("LogStream.cc", call.get("id"))] = "iecRow%d" % idx if cond is not None else "iecElse"
        thr = None
        if cond is not None:
            c = strip(cond)
            l, r = kids(c)
            if c.get("opcode") != "<" or ref_name(l) != "n":
                raise ExtractError("formatIEC: branch condition is not `n < constant`")
            thr = float_value(r, env)
        fmt, args = snprintf_args(call, "formatIEC")
        if fmt in ("%ld", "%lld"):
            if len(args) != 1 or ref_name(args[0]) != "s":
                raise ExtractError("formatIEC: integer branch does not print s")
            rows.append((thr, None, None, b""))
            continue
        m = FMT.match(fmt)
        if not m or len(args) != 1:
            raise ExtractError("formatIEC: unknown format %r" % fmt)
        d = strip(args[0])
        if d.get("kind") != "BinaryOperator" or d.get("opcode") != "/" or ref_name(kids(d)[0]) != "n":
            raise ExtractError("formatIEC: argument is not n / constant")
        div = float_value(kids(d)[1], env)
        rows.append((thr, int(m.group(1)), pow_exp(div, 2), m.group(2).encode()))
    return rows


# ----------------------------------------------------------------------------- the generator

PIECE = """/-- what `Logger::Impl` inserts into its stream, in source order -/
inductive Piece
  | lit (s : List Nat)   -- a string literal (through `operator<<(const char*)`)
  | chr (c : Nat)        -- a character literal
  | base                   -- `basename_` (SourceFile)
  | line                   -- `line_` (int)
  | errtext                -- `strerror_tl(savedErrno)`
  | errno                  -- `savedErrno` (int)
  | func                   -- `func` (const char*)
  | tid                    -- `T(tidString(), tidStringLength())`
  | level (n : Nat)        -- `T(LogLevelName[level], n)`
  | time (n : Nat)         -- `T(t_time, n)`
  | us (n : Nat)           -- `T(us.data(), n)`
deriving Repr, DecidableEq
"""


def generate():
    SITES.clear()
    ROWS.clear()
    ls = ast_dump("muduo/base/LogStream.cc", "muduo")
    lg = ast_dump("muduo/base/Logging.cc", "muduo")
    out = [HEADER % "muduo/base/LogStream.{h,cc}, Logging.{h,cc}, Thread.cc, Timestamp.h, TimeZone.cc, Date.cc",
           "namespace MuduoVerif.Gen.LogStream\n"]

    # --- constants and tables
    for c in ("kSmallBuffer", "kLargeBuffer", "kMaxNumericSize"):
        out.append("def %s : Nat := %d" % (c, const_int(ls, c)))
    out.append("")
    digits = string_of(kids(var_decl(ls, "digits"))[-1])
    hexd = string_of(kids(var_decl(ls, "digitsHex"))[-1])
    out.append(bytes_def("digits", digits, "`detail::digits` (without the terminating NUL)"))
    out.append(bytes_def("digitsHex", hexd, "`detail::digitsHex`"))
    z = strip(kids(var_decl(ls, "zero"))[-1])
    if z.get("kind") != "BinaryOperator" or z.get("opcode") != "+" or ref_name(kids(z)[0]) != "digits" \
            or strip(kids(z)[1]).get("kind") != "IntegerLiteral":
        raise ExtractError("`zero` is not digits + literal")
    out.append("/-- `zero = digits + %s` -/\ndef zeroOffset : Nat := %s\n" % ((strip(kids(z)[1])["value"],) * 2))

    # the radix of the two digit loops
    for fname, lean in (("convert", "radixDec"), ("convertHex", "radixHex")):
        fs = [f for f in functions(ls, fname)]
        vals = set()
        for f in fs:
            for n in walk(body_of(f)):
                if n.get("kind") in ("BinaryOperator", "CompoundAssignOperator") and n.get("opcode") in ("%", "/="):
                    r = strip(kids(n)[1])
                    if r.get("kind") != "IntegerLiteral":
                        raise ExtractError("%s: radix is not a literal" % fname)
                    vals.add(int(r["value"]))
        if len(vals) != 1:
            raise ExtractError("%s: expected one radix, found %s" % (fname, sorted(vals)))
        out.append("/-- radix of the digit loop of `%s` (`%%` and `/=`) -/\ndef %s : Nat := %d\n" % (fname, lean, vals.pop()))

    # --- space guards
    app = functions(ls, "append")
    app = [f for f in app if len([k for k in kids(f) if k["kind"] == "ParmVarDecl"]) == 2 and mentions(body_of(f), "memcpy")]
    guards = set()
    for f in app:
        t = GuardTr({"avail()": "avail", "len": "len"})
        guards.add(unparen(t.expr(if_cond(locate_if(f, "len")))))
        SITES[("LogStream.cc", if_cond(locate_if(f, "len")).get("id"))] = "appendFits"
    if len(guards) != 1:
        raise ExtractError("FixedBuffer::append: expected one guard, found %s" % sorted(guards))
    out.append(prop_def("appendFits", [("avail", "Nat"), ("len", "Nat")], guards.pop(),
                        "`FixedBuffer::append`: the copy happens iff"))
    fis = [f for f in functions(ls, "formatInteger")]
    if not fis:
        raise ExtractError("formatInteger has no definition")
    g = set(numeric_guard(f, "formatInteger", "integerFits")[0] for f in fis)
    if len(g) != 1:
        raise ExtractError("formatInteger: instantiations disagree: %s" % sorted(g))
    out.append(prop_def("integerFits", [("avail", "Nat")], g.pop(), "`LogStream::formatInteger`: digits are generated in place iff"))
    ptr = the_function(ls, "operator<<", param_type="const void *")
    out.append(prop_def("pointerFits", [("avail", "Nat")], numeric_guard(ptr, "operator<<(const void*)", "pointerFits")[0],
                        "`LogStream::operator<<(const void*)`"))
    pre = [n for n in walk(body_of(ptr)) if n.get("kind") == "BinaryOperator" and n.get("opcode") == "="
           and strip(kids(n)[1]).get("kind") == "CharacterLiteral"]
    # the prefix is what ends up at buf[0], buf[1], ..: ordered by the subscript, not by the order of the statements
    # (`buf[1] = 'x'; buf[0] = '0';` is the same prefix); the subscripts must be the literals 0..k-1 of one array
    slots = {}
    bases = set()
    for n in pre:
        lhs = strip(kids(n)[0])
        if lhs.get("kind") != "ArraySubscriptExpr" or strip(kids(lhs)[1]).get("kind") != "IntegerLiteral":
            raise ExtractError("operator<<(const void*): a prefix character is not stored as `buf[<literal>] = 'c'`")
        idx = int(strip(kids(lhs)[1])["value"])
        if idx in slots:
            raise ExtractError("operator<<(const void*): prefix position %d is stored twice" % idx)
        slots[idx] = int(strip(kids(n)[1])["value"])
        bases.add(ref_name(kids(lhs)[0]))
    if sorted(slots) != list(range(len(slots))) or len(bases) > 1:
        raise ExtractError("operator<<(const void*): the prefix characters are not stored at positions 0..%d of one buffer (%s)"
                           % (len(slots) - 1, sorted(slots)))
    out.append(bytes_def("pointerPrefix", bytes(slots[i] for i in range(len(slots))),
                         "the characters stored in front of the hex digits"))
    dbl = the_function(ls, "operator<<", param_type="double")
    gd, ifd = numeric_guard(dbl, "operator<<(double)", "doubleFits")
    out.append(prop_def("doubleFits", [("avail", "Nat")], gd, "`LogStream::operator<<(double)`"))
    call = [n for n in walk(ifd) if n.get("kind") == "CallExpr" and callee_name(n) == "snprintf"]
    if len(call) != 1:
        raise ExtractError("operator<<(double): no snprintf")
    a = kids(call[0])[1:]
    out.append(bytes_def("doubleFormat", string_of(a[2]), "format of `operator<<(double)`"))
    out.append("/-- size argument of that snprintf -/\ndef doubleBound : Nat := %s\n"
               % unparen(Tr({}, {"kMaxNumericSize": "kMaxNumericSize"}).expr(a[1])))
    # bool / null pointer literals
    bl = the_function(ls, "operator<<", param_type="bool")
    co = [n for n in walk(body_of(bl)) if n.get("kind") == "ConditionalOperator"]
    if len(co) != 1:
        raise ExtractError("operator<<(bool): no conditional")
    out.append(bytes_def("boolTrue", string_of(kids(co[0])[1]), "`operator<<(bool)` true"))
    out.append(bytes_def("boolFalse", string_of(kids(co[0])[2]), "`operator<<(bool)` false"))
    cs = the_function(ls, "operator<<", param_type="const char *")
    nl = [n for n in walk(body_of(cs)) if n.get("kind") == "StringLiteral"]
    if len(nl) != 1:
        raise ExtractError("operator<<(const char*): expected one literal")
    out.append(bytes_def("nullText", c_unescape(nl[0]["value"]), "`operator<<(const char*)` for a null pointer"))

    # --- levels
    enum = None
    for d in lg:
        for n in walk(d):
            if n.get("kind") == "EnumDecl" and n.get("name") == "LogLevel":
                enum = n
    if enum is None:
        raise ExtractError("enum LogLevel not found")
    levels = [k["name"] for k in kids(enum) if k.get("kind") == "EnumConstantDecl"]
    if levels[-1] != "NUM_LOG_LEVELS":
        raise ExtractError("NUM_LOG_LEVELS is not the last enumerator")
    levels = levels[:-1]
    out.append("/-- `enum Logger::LogLevel`: %s -/\ndef numLogLevels : Nat := %d" % (", ".join(levels), len(levels)))
    for i, l in enumerate(levels):
        out.append("def level%s : Nat := %d" % (l, i))
    names = [string_of(x) for x in kids(kids(var_decl(lg, "LogLevelName"))[-1])]
    out.append("\n/-- `LogLevelName[]` -/\ndef logLevelName : List (List Nat) := [%s]\n" % ", ".join(lean_bytes(n) for n in names))

    # --- pieces of a line
    out.append(PIECE)
    impl = [f for f in functions(lg, "Impl") if len([k for k in kids(f) if k["kind"] == "ParmVarDecl"]) == 4]
    if len(impl) != 1:
        raise ExtractError("Logger::Impl::Impl not found")
    impl = impl[0]
    body = [unwrap_stmt(s) for s in stmts(body_of(impl))]
    if not (body and body[0].get("kind") == "CXXMemberCallExpr" and callee_name(body[0]) == "formatTime"):
        raise ExtractError("Impl::Impl does not start with formatTime()")
    # the statements in source order: the model executes this list (the call of CurrentThread::tid() is what
    # fills the thread's tid cache; the insertion of T(tidString(), tidStringLength()) reads it)
    head, errno_if, steps = [], None, []
    for s in body:
        if s.get("kind") == "CXXMemberCallExpr" and callee_name(s) == "formatTime" and len(kids(s)) == 1:
            if steps:
                raise ExtractError("Impl::Impl: formatTime() is not the first statement")
            steps.append((".formatTime", []))
        elif s.get("kind") == "CXXOperatorCallExpr":
            if errno_if is not None:
                raise ExtractError("Impl::Impl: an insertion follows the errno part")
            ops = chain(s)
            head += ops
            steps.append((".ins", [piece(n) for n in ops]))
        elif s.get("kind") == "IfStmt":
            if errno_if is not None:
                raise ExtractError("Impl::Impl: more than one `if`")
            errno_if = s
            if len(kids(s)) != 2:
                raise ExtractError("Impl::Impl: the errno `if` has an else")
            eb = [unwrap_stmt(x) for x in stmts(kids(s)[1])]
            steps.append((".errnoIf", [piece(n) for n in sum([chain(x) for x in eb], [])]))
        elif is_tid_call(s):
            steps.append((".callTid", []))
        else:
            raise ExtractError("Impl::Impl: unexpected statement %s" % s.get("kind"))
    if errno_if is None or body[-1] is not errno_if:
        raise ExtractError("Impl::Impl: the errno text is not the last part of the prefix")
    uses = [i for i, (k, ps) in enumerate(steps) if ".tid" in ps]
    calls = [i for i, (k, ps) in enumerate(steps) if k == ".callTid"]
    if len(uses) != 1:
        raise ExtractError("Impl::Impl: expected exactly one insertion of the tid string, found %d" % len(uses))
    out.append(IMPL_STEP)
    out.append("/-- the body of `Logger::Impl::Impl`, statement by statement -/\ndef implSteps : List ImplStep := [%s]\n"
               % ", ".join(k if k in (".formatTime", ".callTid") else "%s [%s]" % (k, ", ".join(ps)) for k, ps in steps))
    out.append("/-- a call of `CurrentThread::tid()` (which fills the thread's cache when it is empty) precedes the "
               "insertion of `T(tidString(), tidStringLength())` in `Logger::Impl::Impl` -/\n"
               "def tidCachedBeforeUse : Bool := %s\n" % ("true" if calls and calls[0] < uses[0] else "false"))
    out.append(pieces_def("headPieces", head, "`Logger::Impl::Impl` after `formatTime()`"))
    out.append(prop_def("errnoShown", [("savedErrno", "Int")],
                        unparen(Tr({"savedErrno": "savedErrno"}, int_mode=True).expr(if_cond(errno_if))),
                        "`Logger::Impl::Impl`: the errno text is inserted iff"))
    eb = [unwrap_stmt(s) for s in stmts(kids(errno_if)[1])]
    out.append(pieces_def("errnoPieces", sum([chain(s) for s in eb], []), "the errno part"))
    fin = the_function(lg, "finish")
    out.append(pieces_def("finishPieces", sum([chain(unwrap_stmt(s)) for s in stmts(body_of(fin))], []),
                          "`Logger::Impl::finish`"))
    # Logger constructors
    ctors = {}
    for f in functions(lg, "Logger", kinds=("CXXConstructorDecl",)):
        ps = [ctype(k) for k in kids(f) if k["kind"] == "ParmVarDecl"]
        ctors[tuple("bool" if p == "bool" else "level" if "LogLevel" in p else "func" if "char" in p else "x" for p in ps[2:])] = f
    for need in ((), ("level",), ("level", "func"), ("bool",)):
        if need not in ctors:
            raise ExtractError("Logger constructor %s not found" % (need,))

    def impl_args(f):
        ini = [k for k in kids(f) if k.get("kind") == "CXXCtorInitializer"]
        if len(ini) != 1:
            raise ExtractError("Logger ctor: expected one initialiser")
        ce = deep_strip(kids(ini[0])[0])
        return kids(ce)

    def level_of(n):
        nm = ref_name(n)
        if nm not in levels:
            raise ExtractError("Logger ctor: unknown level %s" % nm)
        return levels.index(nm)
    a2 = impl_args(ctors[()])
    ctor2_level = level_of(a2[0])
    if strip(a2[1]).get("kind") != "IntegerLiteral" or int(strip(a2[1])["value"]) != 0:
        raise ExtractError("Logger(file,line) passes a non-zero errno")
    for key in (("level",), ("level", "func")):
        a = impl_args(ctors[key])
        if ref_name(a[0]) != "level" or strip(a[1]).get("kind") != "IntegerLiteral" or int(strip(a[1])["value"]) != 0:
            raise ExtractError("Logger(file,line,level…) does not forward level / errno 0")
    ab = impl_args(ctors[("bool",)])
    co = strip(ab[0])
    if co.get("kind") != "ConditionalOperator" or ref_name(kids(co)[0]) != "toAbort" or not mentions(ab[1], "__errno_location"):
        raise ExtractError("Logger(file,line,bool): unexpected initialiser")
    bool_levels = {True: level_of(kids(co)[1]), False: level_of(kids(co)[2])}
    fb = [unwrap_stmt(s) for s in stmts(body_of(ctors[("level", "func")]))]
    out.append(pieces_def("funcPieces", sum([chain(s) for s in fb], []), "`Logger(file, line, level, func)` body"))
    for key in ((), ("level",), ("bool",)):
        if stmts(body_of(ctors[key])):
            raise ExtractError("Logger ctor %s has a non-empty body" % (key,))

    # --- time stamp
    ft = the_function(lg, "formatTime")
    ts = ast_dump("muduo/base/Timestamp.cc", "muduo::Timestamp::kMicroSecondsPerSecond")
    out.append("def kMicroSecondsPerSecond : Int := %d\n" % const_int(ts, "kMicroSecondsPerSecond"))
    consts = {"kMicroSecondsPerSecond": "kMicroSecondsPerSecond"}
    sym = {"microSecondsSinceEpoch": "us"}
    for nm, lean in (("seconds", "splitSeconds"), ("microseconds", "splitMicros")):
        v = [n for n in walk(body_of(ft)) if n.get("kind") == "VarDecl" and n.get("name") == nm]
        if len(v) != 1:
            raise ExtractError("formatTime: variable %s" % nm)
        out.append("/-- `Logger::Impl::formatTime`: `%s` -/\ndef %s (us : Int) : Int := %s\n"
                   % (nm, lean, int_expr(kids(v[0])[-1], sym, consts)))
    top = [s for s in stmts(body_of(ft)) if s.get("kind") == "IfStmt"]
    if len(top) != 2 or not mentions(if_cond(top[0]), "t_lastSecond") or callee_name(strip(if_cond(top[1]))) != "valid":
        raise ExtractError("formatTime: unexpected structure")
    SITES[("Logging.cc", if_cond(top[0]).get("id"))] = "cacheMiss"
    # locals in front of the test that hold the zone generation: `int zoneGen = g_logTimeZoneGen;`
    miss_sym = {"seconds": "seconds", "t_lastSecond": "lastSecond", "t_lastZoneGen": "lastZoneGen"}
    gen_locals = set()
    for st_ in stmts(body_of(ft)):
        if st_ is top[0]:
            break
        if st_.get("kind") != "DeclStmt":
            continue
        for v in kids(st_):
            if v.get("kind") == "VarDecl" and kids(v) and mentions(v, "g_logTimeZoneGen"):
                ok_kinds = ("ImplicitCastExpr", "CXXMemberCallExpr", "MemberExpr", "DeclRefExpr")
                if any(x.get("kind") not in ok_kinds for x in walk(kids(v)[-1])) or \
                        any(x.get("kind") == "MemberExpr" and x.get("name") not in ("operator int", "load") for x in walk(kids(v)[-1])):
                    raise ExtractError("formatTime: %s is not a plain read of g_logTimeZoneGen" % v.get("name"))
                miss_sym[v["name"]] = "zoneGen"
                gen_locals.add(v["name"])
    out.append(prop_def("cacheMiss", [("seconds", "Int"), ("lastSecond", "Int"), ("zoneGen", "Int"), ("lastZoneGen", "Int")],
                        unparen(Tr(miss_sym, int_mode=True).expr(if_cond(top[0]))),
                        "`formatTime`: the cached text is rebuilt iff (`zoneGen`: the value of `g_logTimeZoneGen` read in "
                        "front of the test, `lastZoneGen`: the thread's `t_lastZoneGen`)"))
    then0 = [unwrap_stmt(x) for x in stmts(kids(top[0])[1])]
    sec_store = [assigns(x, "t_lastSecond") for x in then0 if assigns(x, "t_lastSecond") is not None]
    if len(sec_store) != 1 or ref_name(sec_store[0]) != "seconds":
        raise ExtractError("formatTime: the rebuilt branch does not store t_lastSecond = seconds")
    gen_store = [assigns(x, "t_lastZoneGen") for x in then0 if assigns(x, "t_lastZoneGen") is not None]
    if len(gen_store) > 1 or (gen_store and ref_name(gen_store[0]) not in gen_locals):
        raise ExtractError("formatTime: t_lastZoneGen is assigned something other than the generation read in front of the test")
    if any(mentions(x, "t_lastZoneGen") or mentions(x, "g_logTimeZoneGen") for x in stmts(body_of(ft))
           if x is not top[0] and not (x.get("kind") == "DeclStmt" and any(v.get("name") in gen_locals for v in kids(x)))) \
            or any(mentions(x, "t_lastZoneGen") for x in then0 if assigns(x, "t_lastZoneGen") is None):
        raise ExtractError("formatTime: the zone generation is used in a statement of unknown shape")
    out.append("/-- `formatTime`: the rebuilt branch stores the generation it compared (`t_lastZoneGen = zoneGen;`) -/\n"
               "def cacheStoresGen : Bool := %s\n" % ("true" if gen_store else "false"))
    # Logger::setTimeZone: the zone, and the generation that invalidates every thread's cached second
    stz = the_function(lg, "setTimeZone")
    bumped = 0
    for x in [unwrap_stmt(y) for y in stmts(body_of(stz))]:
        if x.get("kind") == "CXXOperatorCallExpr" and callee_name(x) == "operator=" and ref_name(kids(x)[1]) == "g_logTimeZone" \
                and ref_name(kids(x)[2]) == "tz":
            continue
        if x.get("kind") == "CXXOperatorCallExpr" and callee_name(x) == "operator++" and mentions(x, "g_logTimeZoneGen") \
                and len([y for y in walk(x) if y.get("kind") == "DeclRefExpr"]) == 2:
            bumped += 1
            continue
        raise ExtractError("Logger::setTimeZone: unexpected statement %s" % x.get("kind"))
    if bumped > 1:
        raise ExtractError("Logger::setTimeZone: the generation is incremented more than once")
    out.append("/-- `Logger::setTimeZone` increments `g_logTimeZoneGen` -/\ndef zoneGenBumped : Bool := %s\n"
               % ("true" if bumped else "false"))
    inits = {}
    for nm in ("g_logTimeZoneGen", "t_lastZoneGen"):
        vs = [n for d in lg for n in walk(d) if n.get("kind") == "VarDecl" and n.get("name") == nm]
        if len(vs) > 1:
            raise ExtractError("%s: more than one definition" % nm)
        val = 0
        if vs and kids(vs[0]):
            lit = [x for x in walk(vs[0]) if x.get("kind") == "IntegerLiteral"]
            if len(lit) != 1:
                raise ExtractError("%s: initialiser is not an integer literal" % nm)
            val = int(lit[0]["value"])
        if nm == "t_lastZoneGen" and vs and vs[0].get("tls") is None:
            raise ExtractError("t_lastZoneGen is not thread-local")
        inits[nm] = val
    out.append("/-- initial value of `g_logTimeZoneGen` (0 when the variable does not exist) -/\ndef zoneGenInit : Int := %d\n"
               % inits["g_logTimeZoneGen"])
    out.append("/-- initial value of `__thread t_lastZoneGen` in every new thread -/\ndef lastZoneGenInit : Int := %d\n"
               % inits["t_lastZoneGen"])
    inner = [s for s in stmts(kids(top[0])[1])]
    zi = [s for s in inner if s.get("kind") == "IfStmt"]
    if len(zi) != 1 or callee_name(strip(if_cond(zi[0]))) != "valid" or not mentions(kids(zi[0])[1], "toLocalTime") \
            or not mentions(kids(zi[0])[2], "toUtcTime"):
        raise ExtractError("formatTime: zone selection changed")
    sn = [n for n in walk(kids(top[0])[1]) if n.get("kind") == "CallExpr" and callee_name(n) == "snprintf"]
    if len(sn) != 1:
        raise ExtractError("formatTime: snprintf")
    a = kids(sn[0])[1:]
    if ref_name(a[0]) != "t_time":
        raise ExtractError("formatTime: snprintf target")
    out.append(bytes_def("timeFormat", string_of(a[2]), "format of the cached second"))
    fields = [strip(x).get("name") for x in a[3:]]
    if fields != ["year", "month", "day", "hour", "minute", "second"]:
        raise ExtractError("formatTime: snprintf arguments are %s" % fields)
    for which, lean in ((1, "Zone"), (2, "Utc")):
        blk = kids(top[1])[which]
        fm = [n for n in walk(blk) if n.get("kind") == "VarDecl" and n.get("name") == "us"]
        if len(fm) != 1:
            raise ExtractError("formatTime: Fmt us")
        ce = deep_strip(kids(fm[0])[0])
        fa = kids(ce)
        if ref_name(fa[1]) != "microseconds":
            raise ExtractError("formatTime: Fmt argument")
        out.append(bytes_def("usFormat" + lean, string_of(fa[0]), "microsecond field, zone %s" % ("valid" if which == 1 else "invalid (UTC)")))
        ch = [unwrap_stmt(s) for s in stmts(blk) if unwrap_stmt(s).get("kind") == "CXXOperatorCallExpr"]
        out.append(pieces_def("timePieces" + lean, sum([chain(s) for s in ch], []), "what `formatTime` inserts"))
    out += tid_cache_section()

    # --- calendar arithmetic used by formatTime
    tz = ast_dump("muduo/base/TimeZone.cc", "muduo::detail")
    dt = ast_dump("muduo/base/Date.cc", "muduo::detail")
    ks = None
    for d in ast_dump("muduo/base/TimeZone.cc", "kSecondsPerDay"):
        for n in walk(d):
            if n.get("kind") == "VarDecl" and n.get("name") == "kSecondsPerDay" and kids(n):
                ks = n
    if ks is None:
        raise ExtractError("kSecondsPerDay not found")
    out.append("def kSecondsPerDay : Int := %s\n" % int_expr(kids(ks)[-1], {}, {}))
    jd = the_function(dt, "getJulianDayNumber")
    lets, _, ret = lets_of(jd, {}, params={"year": "year", "month": "month", "day": "day"})
    if ret is None:
        raise ExtractError("getJulianDayNumber: no return expression")
    out.append(fn_def("getJulianDayNumber", ["year", "month", "day"], "Int", lets, ret, "`detail::getJulianDayNumber` (Date.cc)"))
    dd = ast_dump("muduo/base/Date.cc", "muduo::Date::kJulianDayOf1970_01_01")
    kj = None
    for d in dd:
        for n in walk(d):
            if n.get("kind") == "VarDecl" and n.get("name") == "kJulianDayOf1970_01_01" and kids(n) \
                    and strip(kids(n)[-1]).get("kind") == "CallExpr":
                kj = strip(kids(n)[-1])
    if kj is None or callee_name(kj) != "getJulianDayNumber":
        raise ExtractError("kJulianDayOf1970_01_01 is not getJulianDayNumber(...)")
    args = [strip(x) for x in kids(kj)[1:]]
    if any(x.get("kind") != "IntegerLiteral" for x in args):
        raise ExtractError("kJulianDayOf1970_01_01: non-literal argument")
    out.append("def kJulianDayOf1970_01_01 : Int := getJulianDayNumber %s\n" % " ".join(x["value"] for x in args))
    ymd = the_function(dt, "getYearMonthDay")
    lets, sym2, _ = lets_of(ymd, {}, out_struct="ymd", params={"julianDayNumber": "julianDayNumber"})
    for f in ("year", "month", "day"):
        if "ymd." + f not in sym2:
            raise ExtractError("getYearMonthDay does not set " + f)
    out.append(fn_def("getYearMonthDay", ["julianDayNumber"], "Int × Int × Int", lets, "(ymd_year, ymd_month, ymd_day)",
                      "`detail::getYearMonthDay` (Date.cc): (year, month, day)"))
    fh = the_function(tz, "fillHMS")
    lets, sym3, _ = lets_of(fh, {}, out_struct="dt", params={"seconds": "seconds"})
    for f in ("hour", "minute", "second"):
        if "dt." + f not in sym3:
            raise ExtractError("fillHMS does not set " + f)
    out.append(fn_def("fillHMS", ["seconds"], "Int × Int × Int", lets, "(dt_hour, dt_minute, dt_second)",
                      "`detail::fillHMS` (TimeZone.cc; `unsigned` arithmetic, called with 0 ≤ seconds): (hour, minute, second)"))
    bt = the_function(tz, "BreakTime")
    lets, sym4, _ = lets_of(bt, {"kSecondsPerDay": "kSecondsPerDay"}, out_struct="dt", params={"t": "t"}, until="fillHMS")
    # only the prefix up to the call of fillHMS is arithmetic; check the rest structurally
    calls = [unwrap_stmt(s) for s in stmts(body_of(bt))]
    fi = [i for i, s in enumerate(calls) if s.get("kind") == "CallExpr" and callee_name(s) == "fillHMS"]
    if len(fi) != 1 or ref_name(kids(calls[fi[0]])[1]) != "seconds":
        raise ExtractError("BreakTime: fillHMS(seconds, &dt) not found")
    date = [n for n in walk(body_of(bt)) if n.get("kind") == "VarDecl" and n.get("name") == "date"]
    if len(date) != 1:
        raise ExtractError("BreakTime: Date date(...)")
    darg = int_expr(deep_strip(kids(date[0])[0]), {"days": "days"}, {"kJulianDayOf1970_01_01": "kJulianDayOf1970_01_01"})
    if not mentions(body_of(bt), "yearMonthDay"):
        raise ExtractError("BreakTime: yearMonthDay()")
    pre = [l for l in lets if not l.startswith("let dt_")]
    out.append(fn_def("breakSplit", ["t"], "Int × Int", pre, "(seconds, %s)" % darg,
                      "`detail::BreakTime` (TimeZone.cc) up to the two calls: (second of the day given to `fillHMS`, "
                      "Julian day number given to `Date`)"))

    # --- macros
    rows = macro_table(levels, ctor2_level, bool_levels)
    out.append("/-- the LOG_* macros of Logging.h, numbered %s -/" % ", ".join("%d=%s" % (i, n) for i, n in enumerate(MACROS)))
    out.append("def numMacros : Nat := %d\n" % len(MACROS))
    gate = ["/-- the `if (logLevel() … )` in front of the Logger temporary (True: no gate) -/",
            "def macroGate (m : Nat) (configured : Nat) : Prop :=", "  match m with"]
    for i, name, g, level, errno, func, text in rows:
        if g != "True":
            gate.append("  | %d => %s   -- LOG_%s" % (i, g, name))
    gate.append("  | _ => True")
    gate.append("instance : Decidable (macroGate m configured) := by unfold macroGate; split <;> infer_instance\n")
    out.append("\n".join(gate))
    out.append("/-- level the Logger is constructed with -/\ndef macroLevel : Nat → Nat\n%s\n  | _ => 0\n"
               % "\n".join("  | %d => %d   -- LOG_%s" % (i, level, name) for i, name, g, level, errno, func, text in rows))
    out.append("/-- the constructor reads `errno` -/\ndef macroErrno : Nat → Bool\n%s\n  | _ => false\n"
               % "\n".join("  | %d => true   -- LOG_%s" % (i, name) for i, name, g, level, errno, func, text in rows if errno))
    out.append("/-- the constructor is given `__func__` -/\ndef macroFunc : Nat → Bool\n%s\n  | _ => false\n"
               % "\n".join("  | %d => true   -- LOG_%s" % (i, name) for i, name, g, level, errno, func, text in rows if func))

    # --- formatSI / formatIEC
    si = si_table(ls)
    if si[0][1] is not None or si[0][0] is None or si[-1][0] is not None or any(r[1] is None for r in si[1:]):
        raise ExtractError("formatSI: unexpected branch order")
    out.append("/-- `formatSI`: `s < siIntBelow` prints the integer itself -/\ndef siIntBelow : Nat := %d\n" % si[0][0])
    out.append("/-- `formatSI`: (the branch compares the converted value `n = (double) s` (true) or the integer `s` itself "
               "(false), upper bound `… < bound`, digits after the point, exponent of the power of ten `n` is divided by, unit) -/")
    out.append("def siTable : List (Bool × Nat × Nat × Nat × List Nat) := [\n%s]\n" % ",\n".join(
        "  (%s, %d, %d, %d, %s)" % ("true" if r[4] else "false", r[0], r[1], r[2], lean_bytes(r[3])) for r in si[1:-1]))
    out.append("/-- `formatSI`: the final `else` -/\ndef siLast : Nat × Nat × List Nat := (%d, %d, %s)\n"
               % (si[-1][1], si[-1][2], lean_bytes(si[-1][3])))
    iec = iec_table(ls)
    if iec[0][1] is not None or iec[0][0] is None or iec[-1][0] is not None or any(r[1] is None for r in iec[1:]):
        raise ExtractError("formatIEC: unexpected branch order")
    if iec[0][0].denominator != 1:
        raise ExtractError("formatIEC: first threshold is not an integer")

    def frac(f):
        return "%d, %d" % (f.numerator, f.denominator)
    out.append("/-- `formatIEC`: `n < iecIntBelow` prints the integer itself -/\ndef iecIntBelow : Nat := %d\n" % iec[0][0].numerator)
    out.append("/-- `formatIEC`: (upper bound `n < num/den` — the exact value of the `double` constant —, digits after the "
               "point, exponent of the power of two `n` is divided by, unit) -/")
    out.append("def iecTable : List (Nat × Nat × Nat × Nat × List Nat) := [\n%s]\n" % ",\n".join(
        "  (%s, %d, %d, %s)" % (frac(r[0]), r[1], r[2], lean_bytes(r[3])) for r in iec[1:-1]))
    out.append("/-- `formatIEC`: the final `else` -/\ndef iecLast : Nat × Nat × List Nat := (%d, %d, %s)\n"
               % (iec[-1][1], iec[-1][2], lean_bytes(iec[-1][3])))
    out.append("end MuduoVerif.Gen.LogStream\n")
    return "\n".join(out)
