"""T1 for C08: field-access tables of the cross-thread and loop-confined API, from the clang AST.

For every *root* function (the property's cross-thread list, the loop-confined list, the channel/timer
callbacks and thread bodies of the same classes) and everything it calls directly on `this`
(methods of the same class, inline ones included; not through a bound functor: the extractor stops at
runInLoop/queueInLoop/runAt/runAfter/runEvery hand-offs because it never looks inside `std::bind`
targets), one row per access to a member of `this` with its context:

  kind      rd | wr | ard | awr (atomic) | call (a method called through a member pointer / smart pointer;
            the pointer itself is read) ; a non-const member call on a by-value member counts as wr
  locks     the mutex members named by the MutexLockGuard variables in scope at that point
            (scope = rest of the enclosing compound statement, inherited by followed calls)
  inLoop    the owner-thread facts that dominate the access *by position*: "this"/"loop_" for a preceding
            assertInLoopThread() statement or an enclosing `if (isInLoopThread())` / short-circuit test,
            "f->m" for a preceding unconditional call of the loop-confined operation m through member f
  inAssert  the access sits in the condition of an `assert(...)` expansion

plus, per class, the member table (declared type, type class, GUARDED_BY annotation, every non-constructor
method that writes the member — from a scan of all methods of the class), the list of methods of the class
that touch members but are not reached from any root, and per loop-confined operation whether the
owner-thread assertion is an unconditional top-level statement.

Never guesses: a lambda, a member access in a position the classifier does not know, a root that cannot
be found, a line number that does not show the member's name in the source — all raise ExtractError.
"""
import json
import os
import re
from concurrent.futures import ThreadPoolExecutor

from ..common import BUILD, HARNESS, REPO, sh, sha
from ..extract import HEADER, ExtractError, _parse_docs, body_of, kids, tree_hash, walk

NAME = "Race"

TU_TEMPL = os.path.join(HARNESS, "race_tu.cc")   # explicit instantiations of the queue templates

HANDOFF = {"runInLoop", "queueInLoop", "runAt", "runAfter", "runEvery"}

# (class, translation unit, dump filter, {root name: kind})
#   ts        documented as callable from any thread (the property's cross-thread list) + the thread bodies
#             that run on the other side of those calls
#   confined  must start with the owner-thread assertion (the property's confined list)
#   handler   channel / timer / queued callbacks that the loop invokes (no assertion of their own)
#   owner     single-owner API: called only by the thread that owns the object (API contract)
CLASSES = [
    ("EventLoop", "muduo/net/EventLoop.cc", "muduo::net::EventLoop", {
        "runInLoop": "ts", "queueInLoop": "ts", "runAt": "ts", "runAfter": "ts", "runEvery": "ts", "cancel": "ts",
        "quit": "ts", "queueSize": "ts", "wakeup": "ts", "isInLoopThread": "ts", "assertInLoopThread": "ts",
        "loop": "confined", "updateChannel": "confined", "removeChannel": "confined", "hasChannel": "confined",
        "handleRead": "handler"}),
    ("TcpConnection", "muduo/net/TcpConnection.cc", "muduo::net::TcpConnection", {
        "send": "ts", "forceClose": "ts", "forceCloseWithDelay": "ts", "startRead": "ts", "stopRead": "ts",
        "shutdown": "ts", "connected": "ts", "disconnected": "ts", "getLoop": "ts", "name": "ts",
        "connectEstablished": "confined", "connectDestroyed": "confined", "sendInLoop": "confined",
        "shutdownInLoop": "confined", "forceCloseInLoop": "confined", "startReadInLoop": "confined",
        "stopReadInLoop": "confined", "handleRead": "confined", "handleWrite": "confined",
        "handleClose": "confined", "handleError": "handler"}),
    ("TcpServer", "muduo/net/TcpServer.cc", "muduo::net::TcpServer", {
        "start": "ts", "removeConnection": "ts",
        "newConnection": "confined", "removeConnectionInLoop": "confined"}),
    ("TcpClient", "muduo/net/TcpClient.cc", "muduo::net::TcpClient", {
        "connect": "ts", "disconnect": "ts", "stop": "ts", "connection": "ts", "enableRetry": "ts", "retry": "ts",
        "newConnection": "confined", "removeConnection": "confined"}),
    ("Connector", "muduo/net/Connector.cc", "muduo::net::Connector", {
        "start": "ts", "stop": "ts", "serverAddress": "ts",
        "startInLoop": "confined", "stopInLoop": "confined", "startCycleInLoop": "confined", "restart": "confined",
        "handleWrite": "handler", "handleError": "handler", "resetChannel": "handler"}),
    ("TimerQueue", "muduo/net/TimerQueue.cc", "muduo::net::TimerQueue", {
        "addTimer": "ts", "cancel": "ts",
        "addTimerInLoop": "confined", "cancelInLoop": "confined", "handleRead": "confined"}),
    ("EventLoopThread", "muduo/net/EventLoopThread.cc", "muduo::net::EventLoopThread", {
        "startLoop": "owner", "threadFunc": "ts"}),
    ("EventLoopThreadPool", "muduo/net/EventLoopThreadPool.cc", "muduo::net::EventLoopThreadPool", {
        "start": "confined", "getNextLoop": "confined", "getLoopForHash": "confined", "getAllLoops": "confined"}),
    ("Acceptor", "muduo/net/Acceptor.cc", "muduo::net::Acceptor", {
        "listen": "confined", "handleRead": "confined"}),
    ("ThreadPool", "muduo/base/ThreadPool.cc", "muduo::ThreadPool", {
        "run": "ts", "stop": "owner", "queueSize": "ts", "runInThread": "ts"}),
    ("BlockingQueue", TU_TEMPL, "muduo::BlockingQueue", {
        "put": "ts", "take": "ts", "drain": "ts", "size": "ts"}),
    ("BoundedBlockingQueue", TU_TEMPL, "muduo::BoundedBlockingQueue", {
        "put": "ts", "take": "ts", "empty": "ts", "full": "ts", "size": "ts", "capacity": "ts"}),
    ("CountDownLatch", "muduo/base/CountDownLatch.cc", "muduo::CountDownLatch", {
        "wait": "ts", "countDown": "ts", "getCount": "ts"}),
    ("AsyncLogging", "muduo/base/AsyncLogging.cc", "muduo::AsyncLogging", {
        "append": "ts", "stop": "owner", "start": "owner", "threadFunc": "ts"}),
]

# the Logger path: functions whose accesses to the namespace-scope variables g_* are tabulated
LOGGER_TU = "muduo/base/Logging.cc"
LOGGER_ROOTS = {"logLevel": "ts", "~Logger": "ts", "formatTime": "ts", "finish": "ts", "Impl": "ts", "Logger": "ts",
                "stream": "ts"}

CONFINED_OPS = {(c, n) for c, _, _, roots in CLASSES for n, k in roots.items() if k == "confined"}

ATOMIC_TYPES = re.compile(r"\bstd::atomic<|\batomic<|AtomicIntegerT<|\bAtomicInt32\b|\bAtomicInt64\b")
SMART_PTR = re.compile(r"\b(unique_ptr|shared_ptr|weak_ptr|scoped_ptr)<")


# ----------------------------------------------------------------------------- AST plumbing

def _dump(tu, flt):
    """like extract.ast_dump, but the translation unit may live outside /repo (its text is part of the key)"""
    path = tu if os.path.isabs(tu) else os.path.join(REPO, tu)
    cache = os.path.join(BUILD, "ast")
    os.makedirs(cache, exist_ok=True)
    with open(path, "rb") as f:
        own = sha(f.read())
    key = sha("race1" + tree_hash() + path + own + flt)[:24]
    cpath = os.path.join(cache, key + ".json")
    if os.path.exists(cpath):
        with open(cpath) as f:
            return _parse_docs(f.read())
    cmd = ["clang++-14", "-std=gnu++11", "-I" + REPO, "-fsyntax-only", "-Wno-everything", "-Xclang", "-ast-dump=json",
           "-Xclang", "-ast-dump-filter=" + flt, path]
    rc, out, err = sh(cmd, timeout=180)
    if rc != 0 and not out.strip():
        raise ExtractError("clang failed on %s: %s" % (tu, err[-2000:]))
    docs = _parse_docs(out)
    if not docs:
        raise ExtractError("no declaration matching %s in %s" % (flt, tu))
    with open(cpath + ".tmp", "w") as f:
        f.write(out)
    os.replace(cpath + ".tmp", cpath)
    return docs


def annotate(doc):
    """clang's JSON omits `file`/`line` when they did not change since the previously printed location:
    carry them forward in print order; every node gets `_line`/`_file` (expansion point for macros)"""
    st = {"line": None, "file": None}

    def bare(d):
        if "file" in d:
            st["file"] = d["file"]
        if "line" in d:
            st["line"] = d["line"]
        if "offset" in d:
            d["_line"], d["_file"] = st["line"], st["file"]

    def loc(d):
        if not isinstance(d, dict):
            return
        if "spellingLoc" in d or "expansionLoc" in d:
            for k, v in d.items():
                if isinstance(v, dict):
                    bare(v)
            e = d.get("expansionLoc") or d.get("spellingLoc")
            if (d.get("expansionLoc") or {}).get("isMacroArgExpansion") and d.get("spellingLoc"):
                e = d["spellingLoc"]      # a macro argument is spelled where the source shows it
            d["_line"], d["_file"] = e.get("_line"), e.get("_file")
        else:
            bare(d)

    def rec(n):
        for k, v in n.items():
            if k == "loc":
                loc(v)
            elif k == "range":
                loc(v.get("begin"))
                loc(v.get("end"))
            elif k == "inner":
                for c in v:
                    if isinstance(c, dict):
                        rec(c)
        b = (n.get("range") or {}).get("begin") or {}
        l = n.get("loc") or {}
        n["_line"] = b.get("_line") or l.get("_line")
        n["_file"] = b.get("_file") or l.get("_file")
        n["_macro"] = "expansionLoc" in b

    rec(doc)


def qt(n):
    return (n.get("type") or {}).get("qualType", "")


def unwrap(n):
    """skip wrappers that neither read nor write"""
    while n.get("kind") in ("ParenExpr", "ExprWithCleanups", "MaterializeTemporaryExpr", "CXXBindTemporaryExpr",
                            "ConstantExpr") and kids(n):
        n = kids(n)[0]
    return n


def unwrap_casts(n):
    while True:
        n = unwrap(n)
        if n.get("kind") in ("ImplicitCastExpr", "CStyleCastExpr", "CXXStaticCastExpr", "CXXFunctionalCastExpr") and kids(n):
            n = kids(n)[-1]
        else:
            return n


def is_this(n):
    n = unwrap(n)
    while n.get("kind") == "ImplicitCastExpr" and n.get("castKind") in ("NoOp", "UncheckedDerivedToBase", "DerivedToBase"):
        n = unwrap(kids(n)[0])
    return n.get("kind") == "CXXThisExpr"


def is_const_type(t):
    t = t.strip()
    return t.startswith("const ") or " const" in t.split("<")[0] or t.endswith(" const")


def pointee_class(t):
    """class name a pointer / smart pointer type points to"""
    m = re.search(r"(?:unique_ptr|shared_ptr|weak_ptr)<\s*(?:const\s+)?([\w:]+)", t)
    if m:
        return m.group(1).split("::")[-1]
    m = re.match(r"\s*(?:const\s+)?([\w:]+)\s*\*", t)
    if m:
        return m.group(1).split("::")[-1]
    # typedefs used by muduo
    td = {"ConnectorPtr": "Connector", "TcpConnectionPtr": "TcpConnection", "BufferPtr": "FixedBuffer"}
    for k, v in td.items():
        if k in t:
            return v
    return "?"


# ----------------------------------------------------------------------------- one class

class ClassInfo:
    def __init__(self, cls, docs, roots):
        self.cls, self.docs, self.roots = cls, docs, roots
        self.fields = {}      # FieldDecl id -> dict
        self.byname = {}
        self.methods = {}     # decl id (declaration or definition) -> definition node
        self.defs = []        # definition nodes (unique)
        self.rows = []
        self.confined = []
        self._find_record()

    def _find_record(self):
        rec = None
        for d in self.docs:
            for n in walk(d):
                if n.get("kind") in ("CXXRecordDecl", "ClassTemplateSpecializationDecl") and n.get("name") == self.cls \
                        and n.get("completeDefinition") and any(k.get("kind") == "FieldDecl" for k in kids(n)):
                    if n.get("kind") == "ClassTemplateSpecializationDecl" or rec is None:
                        # a template: use the (explicit) instantiation, whose bodies are concrete
                        if rec is None or n.get("kind") == "ClassTemplateSpecializationDecl":
                            rec = n
        if rec is None:
            raise ExtractError("class %s: no complete definition with fields in the dump" % self.cls)
        self.record = rec
        for k in kids(rec):
            if k.get("kind") == "FieldDecl":
                t = qt(k)
                g = ""
                for a in kids(k):
                    if a.get("kind") == "GuardedByAttr":
                        for x in walk(a):
                            if x.get("kind") == "MemberExpr":
                                g = x.get("name", "")
                tc = "plain"
                bare_t = re.sub(r"^(mutable|const)\s+", "", t)
                if ATOMIC_TYPES.search(t):
                    tc = "atomic"
                elif re.search(r"\bMutexLock$", bare_t):
                    tc = "mutex"
                elif re.search(r"\bCondition$", bare_t):
                    tc = "cond"
                elif re.search(r"\bCountDownLatch$", bare_t):
                    tc = "latch"
                elif re.search(r"\bThread$", bare_t) and "Pool" not in bare_t:
                    tc = "thread"
                elif is_const_type(t) and "*" not in t:
                    tc = "const"
                f = {"name": k["name"], "type": t, "tc": tc, "guard": g, "writers": set(), "id": k["id"],
                     "line": None}
                self.fields[k["id"]] = f
                self.byname[k["name"]] = f
        # method definitions: in-class (inner of the record) and out-of-line (own documents)
        seen = set()

        def add_def(n, from_record):
            if n.get("id") in seen:
                return
            seen.add(n.get("id"))
            n["_from_record"] = from_record
            self.defs.append(n)
            self.methods[n["id"]] = n
            if n.get("previousDecl"):
                self.methods[n["previousDecl"]] = n

        kinds = ("CXXMethodDecl", "CXXConstructorDecl", "CXXDestructorDecl")
        for k in kids(rec):
            if k.get("kind") in kinds and body_of(k) is not None:
                add_def(k, True)
        decl_ids = {k["id"] for k in kids(rec) if k.get("kind") in kinds}
        for d in self.docs:
            if d.get("kind") in kinds and body_of(d) is not None and \
                    (d.get("previousDecl") in decl_ids or d.get("parentDeclContextId") == rec.get("id")):
                add_def(d, False)

    # ---- labels
    def label(self, fn):
        nm = fn["name"]
        same = [d for d in self.defs if d["name"] == nm]
        if len(same) > 1:
            m = re.search(r"\((.*)\)", qt(fn))
            return "%s(%s)" % (nm, m.group(1) if m else "")
        return nm

    def field_of(self, n):
        """the FieldDecl dict if `n` is `this->field`"""
        if n.get("kind") != "MemberExpr":
            return None
        f = self.fields.get(n.get("referencedMemberDecl"))
        if f is None:
            return None
        ks = kids(n)
        if ks and not is_this(ks[0]):
            return None
        return f


GLOBAL_CLS = "Logging"


class Walker:
    """context-carrying walk of one root"""

    def __init__(self, ci, root_fn, root_label, glob=None):
        self.ci, self.root_label = ci, root_label
        self.rows = []
        self.stack = []
        self.top_assert = None      # fact of an unconditional top-level owner assertion of the root
        self.root_fn = root_fn
        self.glob = glob or {}
        self.parent = {}

    # ---- facts of a condition
    def owner_fact(self, call):
        """fact name if `call` is isInLoopThread()/assertInLoopThread() on this or on a member loop pointer"""
        call = unwrap_casts(call)
        if call.get("kind") != "CXXMemberCallExpr":
            return None, None
        me = unwrap(kids(call)[0])
        if me.get("kind") != "MemberExpr":
            return None, None
        nm = me.get("name")
        obj = kids(me)[0] if kids(me) else None
        if obj is None:
            return None, None
        if is_this(obj):
            who = "this"
        else:
            o = unwrap_casts(obj)
            # smart pointer: operator-> on a member
            if o.get("kind") == "CXXOperatorCallExpr" and len(kids(o)) == 2:
                o = unwrap_casts(kids(o)[1])
            f = self.ci.field_of(o) if self.ci else None
            if f is None:
                return None, None
            who = f["name"]
        if nm in ("isInLoopThread", "assertInLoopThread"):
            return nm, who
        if who != "this":
            f = self.ci.byname.get(who)
            pc = pointee_class(f["type"]) if f else "?"
            if (pc, nm) in CONFINED_OPS:
                return "confined-op", "%s->%s" % (who, nm)
        return None, None

    def facts(self, e, truth):
        e = unwrap_casts(e)
        k = e.get("kind")
        if k == "UnaryOperator" and e.get("opcode") == "!":
            return self.facts(kids(e)[0], not truth)
        if k == "BinaryOperator" and e.get("opcode") == "&&" and truth:
            return self.facts(kids(e)[0], True) | self.facts(kids(e)[1], True)
        if k == "BinaryOperator" and e.get("opcode") == "||" and not truth:
            return self.facts(kids(e)[0], False) | self.facts(kids(e)[1], False)
        if k == "CXXMemberCallExpr" and truth:
            nm, who = self.owner_fact(e)
            if nm == "isInLoopThread":
                return {who}
        return set()

    # ---- walk
    def run(self):
        fn = self.root_fn
        self.walk_fn(fn, frozenset(), frozenset(), False, top=True)
        return self.rows

    def walk_fn(self, fn, locks, facts, in_assert, top=False):
        if id(fn) in self.stack:
            return set()
        self.stack.append(id(fn))
        for n in walk(fn):
            for c in kids(n):
                self.parent[id(c)] = n
        body = body_of(fn)
        self.cur_fn = fn
        gained = self.visit_compound(body, locks, facts, in_assert, top)
        self.stack.pop()
        return gained

    def visit_compound(self, comp, locks, facts, in_assert, top=False):
        locks, facts = set(locks), set(facts)
        gained = set()
        for st in kids(comp):
            self.last_call_facts = None
            self.visit(st, frozenset(locks), frozenset(facts), in_assert)
            # effects for the following siblings
            s = unwrap(st)
            if s.get("kind") == "CXXMemberCallExpr" and self.last_call_facts:
                # an unconditional call of a method of this class that itself starts with the owner assertion
                # returns only on the owner thread
                for who, ln in self.last_call_facts:
                    facts.add(who)
                    gained.add((who, s.get("_line")))
                    if top and self.top_assert is None:
                        self.top_assert = (who, s.get("_line"))
            if s.get("kind") == "DeclStmt":
                for v in kids(s):
                    if v.get("kind") == "VarDecl" and re.search(r"\bMutexLockGuard$", qt(v)):
                        m = None
                        for x in walk(v):
                            f = self.ci.field_of(x) if self.ci else None
                            if f is not None:
                                m = f["name"]
                        if m is None:
                            raise ExtractError("%s: MutexLockGuard `%s` does not name a member mutex" % (
                                self.cur_fn.get("name"), v.get("name")))
                        locks.add(m)
            nm, who = self.owner_fact(s)
            if nm == "assertInLoopThread" or nm == "confined-op":
                facts.add(who)
                if nm == "assertInLoopThread":
                    gained.add((who, s.get("_line")))
                if top and self.top_assert is None and nm == "assertInLoopThread":
                    self.top_assert = (who, s.get("_line"))
        return gained

    def visit(self, n, locks, facts, in_assert):
        k = n.get("kind")
        if k == "CompoundStmt":
            return self.visit_compound(n, locks, facts, in_assert)
        if k == "LambdaExpr":
            raise ExtractError("%s: lambda expressions are outside the extractor's subset" % self.cur_fn.get("name"))
        if k == "IfStmt":
            ks = kids(n)
            if n.get("hasInit") or n.get("hasVar"):
                raise ExtractError("%s: `if` with initialiser" % self.cur_fn.get("name"))
            cond = ks[0]
            self.visit(cond, locks, facts, in_assert)
            if len(ks) > 1:
                self.visit(ks[1], locks, facts | self.facts(cond, True), in_assert)
            if len(ks) > 2:
                self.visit(ks[2], locks, facts | self.facts(cond, False), in_assert)
            return
        if k == "BinaryOperator" and n.get("opcode") in ("&&", "||"):
            l, r = kids(n)
            self.visit(l, locks, facts, in_assert)
            self.visit(r, locks, facts | self.facts(l, n["opcode"] == "&&"), in_assert)
            return
        if k == "ConditionalOperator":
            c, a, b = kids(n)
            is_assert = any(x.get("kind") == "DeclRefExpr" and (x.get("referencedDecl") or {}).get("name") == "__assert_fail"
                            for x in walk(b))
            self.visit(c, locks, facts, in_assert or is_assert)
            self.visit(a, locks, facts | self.facts(c, True), in_assert)
            self.visit(b, locks, facts | self.facts(c, False), in_assert)
            return
        if k == "MemberExpr":
            f = self.ci.field_of(n) if self.ci else None
            if f is not None:
                self.access(n, f, locks, facts, in_assert)
                return
        if k == "DeclRefExpr" and self.glob:
            rd = n.get("referencedDecl") or {}
            if rd.get("kind") == "VarDecl" and rd.get("id") in self.glob:
                self.access(n, self.glob[rd["id"]], locks, facts, in_assert)
                return
        if k == "CXXMemberCallExpr":
            me = unwrap(kids(n)[0])
            if me.get("kind") == "MemberExpr" and kids(me) and is_this(kids(me)[0]) and self.ci:
                callee = self.ci.methods.get(me.get("referencedMemberDecl"))
                for a in kids(n)[1:]:
                    self.visit(a, locks, facts, in_assert)
                nm = me.get("name")
                if nm in HANDOFF or nm in ("assertInLoopThread", "isInLoopThread", "shared_from_this"):
                    # own hand-offs / owner tests are roots of their own (EventLoop) — recorded as a self call
                    if self.ci.cls == "EventLoop":
                        self.row(n, "(this)", "call", "EventLoop::" + nm, locks, facts, in_assert)
                    return
                if callee is None:
                    if nm == "shared_from_this" or me.get("referencedMemberDecl") is None:
                        return
                    # declared in the class but defined elsewhere / base class helper
                    self.row(n, "(this)", "call", self.ci.cls + "::" + str(nm), locks, facts, in_assert)
                    return
                saved = self.cur_fn
                g = self.walk_fn(callee, locks, facts, in_assert)
                self.cur_fn = saved
                self.last_call_facts = g
                return
        if k == "VarDecl" and self.ci:
            self.vla_bound(n, locks, facts, in_assert)
        for c in kids(n):
            self.visit(c, locks, facts, in_assert)

    CONST_STD_METHODS = ("size", "length", "empty", "c_str", "data", "capacity", "readableBytes", "writableBytes")

    def vla_bound(self, var, locks, facts, in_assert):
        """clang's JSON dump does not print the size expression of a variable-length array (it lives in the type):
        `char buf[name_.size() + 32]`.  Members named there are taken from the type's spelling: a read when the
        member is const, is used as a plain value, or through one of a few const methods; anything else is outside
        the subset."""
        m = re.search(r"\[([^\]]*[A-Za-z_][^\]]*)\]", qt(var))
        if not m:
            return
        bound = m.group(1)
        for f in self.ci.fields.values():
            for t in re.finditer(r"(?:(?<![\w.>])|(?<=this->))%s\b" % re.escape(f["name"]), bound):
                rest = bound[t.end():].lstrip()
                before = bound[:t.start()].rstrip()
                meth = re.match(r"\.(\w+)\(", rest)
                if is_const_type(f["type"]) or (meth and meth.group(1) in self.CONST_STD_METHODS) or \
                        (not rest.startswith((".", "->", "++", "--", "[")) and not re.match(r"[-+*/%&|^]?=(?!=)", rest)
                         and not before.endswith(("++", "--", "&"))):
                    self.row(var, f["name"], "ard" if f["tc"] == "atomic" else "rd", "", locks, facts, in_assert)
                else:
                    raise ExtractError("%s:%s member `%s` in the bound of a variable-length array `%s`: use outside the "
                                       "extractor's subset" % (self.cur_fn.get("name"), var.get("_line"), f["name"], qt(var)))

    # ---- classification of one member access
    def up(self, n):
        p = self.parent.get(id(n))
        while p is not None and p.get("kind") in ("ParenExpr", "ExprWithCleanups", "MaterializeTemporaryExpr",
                                                  "CXXBindTemporaryExpr", "ConstantExpr"):
            n, p = p, self.parent.get(id(p))
        return n, p

    def access(self, me, f, locks, facts, in_assert):
        atomic = f["tc"] == "atomic"
        const = is_const_type(qt(me))
        cur, p = self.up(me)
        # casts that keep the lvalue
        while p is not None and p.get("kind") == "ImplicitCastExpr" and p.get("castKind") in (
                "NoOp", "UncheckedDerivedToBase", "DerivedToBase"):
            if is_const_type(qt(p)):
                const = True
            cur, p = self.up(p)
        kind, callee, extra = None, "", []
        pk = p.get("kind") if p else None
        if pk == "ImplicitCastExpr" and p.get("castKind") == "LValueToRValue":
            kind = "rd"
            # dereference of a raw pointer member?
            c2, p2 = self.up(p)
            while p2 is not None and p2.get("kind") == "ImplicitCastExpr" and p2.get("castKind") in (
                    "NoOp", "UncheckedDerivedToBase", "DerivedToBase"):
                c2, p2 = self.up(p2)
            if p2 is not None and p2.get("kind") == "MemberExpr" and p2.get("isArrow"):
                extra.append(("call", "%s::%s" % (pointee_class(f["type"]), p2.get("name"))))
            elif p2 is not None and p2.get("kind") == "UnaryOperator" and p2.get("opcode") == "*":
                extra.append(("call", "%s::*" % pointee_class(f["type"])))
            elif p2 is not None and p2.get("kind") == "CallExpr" and unwrap_casts(kids(p2)[0]) is unwrap_casts(c2):
                extra.append(("call", "(*%s)()" % f["name"]))     # call through a function pointer
        elif pk == "ImplicitCastExpr" and p.get("castKind") in ("ArrayToPointerDecay",):
            kind = "rd" if const else "wr"
        elif pk == "MemberExpr" and not p.get("isArrow"):
            # method (or sub-member) of a by-value member
            is_method = "bound member function" in qt(p)
            if is_method:
                kind = "rd" if const else "wr"
                if atomic:
                    kind = "ard" if (const or p.get("name") in ("load", "get") or p.get("name", "").startswith("operator ")) else "awr"
            else:
                # data member of a struct member: classify by the outer expression, conservatively
                kind = "rd" if const else "wr"
        elif pk == "CXXOperatorCallExpr":
            ks = kids(p)
            op = (unwrap_casts(ks[0]).get("referencedDecl") or {}).get("name", "")
            first = len(ks) > 1 and self._same(ks[1], cur)
            if first and op in ("operator->", "operator*") and SMART_PTR.search(f["type"] + " " + qt(me)) or \
                    (first and op in ("operator->", "operator*") and pointee_class(f["type"]) != "?"):
                kind = "rd"
                c2, p2 = self.up(p)
                while p2 is not None and p2.get("kind") == "ImplicitCastExpr" and p2.get("castKind") in (
                        "NoOp", "UncheckedDerivedToBase", "DerivedToBase"):
                    c2, p2 = self.up(p2)
                if p2 is not None and p2.get("kind") == "MemberExpr":
                    extra.append(("call", "%s::%s" % (pointee_class(f["type"]), p2.get("name"))))
                else:
                    extra.append(("call", "%s::*" % pointee_class(f["type"])))
            elif first and op == "operator=":
                kind = "awr" if atomic else "wr"
            elif first and op == "operator()":
                kind = "rd" if const else "wr"
                extra.append(("call", "(callback %s)" % f["name"]))
            elif first and atomic:
                kind = "awr"
            else:
                kind = "rd" if const else "wr"
        elif pk == "BinaryOperator" and p.get("opcode") == "=" and self._same(kids(p)[0], cur):
            kind = "wr"
        elif pk == "CompoundAssignOperator" and self._same(kids(p)[0], cur):
            kind = "wr"
        elif pk == "UnaryOperator" and p.get("opcode") in ("++", "--"):
            kind = "wr"
        elif pk == "UnaryOperator" and p.get("opcode") == "&":
            kind = "rd" if const else "wr"     # address taken: whoever receives it may write
        elif pk in ("CallExpr", "CXXConstructExpr", "CXXMemberCallExpr", "CXXTemporaryObjectExpr", "VarDecl",
                    "ReturnStmt", "InitListExpr", "CXXFunctionalCastExpr", "CXXStaticCastExpr", "ImplicitCastExpr",
                    "CXXForRangeStmt", "CStyleCastExpr", "BinaryOperator", "ConditionalOperator", "CXXNewExpr",
                    "CXXCtorInitializer", "CompoundStmt"):
            # bound to a reference / copied / passed on: a const view reads, anything else may write
            if pk == "CXXConstructExpr" and re.search(r"\bMutexLockGuard$", qt(p)):
                kind = "rd"        # lock acquisition; the mutex is a synchronisation object
            elif pk == "CallExpr" and self._decay_copies(p, cur):
                # std::bind / std::make_pair / std::make_tuple take forwarding references only to decay-copy their
                # arguments into the object they return: the member is read, never written
                kind = "ard" if atomic else "rd"
            elif pk == "VarDecl" and p.get("name", "").startswith("__range"):
                # range-for: begin()/end() do not modify the container object; the elements handed out are
                # other locations (not tracked)
                kind = "rd"
                extra.append(("call", "(elements)"))
            elif pk == "ImplicitCastExpr" and p.get("castKind") in ("ConstructorConversion", "UserDefinedConversion",
                                                                     "IntegralCast", "PointerToBoolean"):
                kind = "rd"
            elif pk == "CXXConstructExpr" and "const" in self._ctor_param(p, cur):
                kind = "rd"
            elif pk == "CXXMemberCallExpr" and self._is_conv(p, cur):
                # conversion operator of a by-value member, e.g. std::atomic<T>::operator T(), std::function::operator bool
                kind = "ard" if atomic else "rd"
            else:
                kind = "rd" if const else "wr"
        if kind is None:
            raise ExtractError("%s:%s member `%s` used in a position the classifier does not know (%s)" % (
                self.cur_fn.get("name"), me.get("_line"), f["name"], pk))
        if atomic and kind in ("rd", "wr") and pk not in ("MemberExpr", "CXXOperatorCallExpr", "CXXMemberCallExpr"):
            # an atomic member used other than through its own operations stays a plain access (conservative)
            pass
        self.row(me, f["name"], kind, "", locks, facts, in_assert)
        for k2, c2 in extra:
            self.row(me, f["name"], k2, c2, locks, facts, in_assert)

    def _same(self, a, b):
        a = unwrap(a)
        while a.get("kind") == "ImplicitCastExpr" and a is not b and kids(a):
            if a is b:
                return True
            a = unwrap(kids(a)[0])
        return a is b or unwrap(b) is a

    DECAY_COPY = {"bind": "_Bind", "make_pair": "pair<", "make_tuple": "tuple<"}

    def _decay_copies(self, call, cur):
        """`call` is std::bind(...) / std::make_pair(...) / std::make_tuple(...) and `cur` is one of its arguments
        (not the callee): libstdc++ stores `decay_t<Arg>(std::forward<Arg>(arg))`"""
        ks = kids(call)
        if not ks or self._same(ks[0], cur):
            return False
        callee = unwrap_casts(ks[0])
        rd = callee.get("referencedDecl") or {}
        want = self.DECAY_COPY.get(rd.get("name"))
        if callee.get("kind") != "DeclRefExpr" or rd.get("kind") != "FunctionDecl" or want is None:
            return False
        # the std function, not a user function of the same name: its result type is the library's holder type
        return want in qt(rd) or want in qt(call)

    def _ctor_param(self, ctor, cur):
        t = qt(ctor)
        m = re.search(r"\((.*)\)", (ctor.get("ctorType") or {}).get("qualType", ""))
        return m.group(1) if m else ""

    def _is_conv(self, call, cur):
        me = unwrap(kids(call)[0])
        return me.get("kind") == "MemberExpr" and me.get("name", "").startswith("operator ")

    def row(self, node, field, kind, callee, locks, facts, in_assert):
        fn = self.cur_fn
        r = (self.root_label, self.ci.label(fn) if self.ci else fn["name"], os.path.basename(node.get("_file") or fn.get("_file") or "?"),
             int(node.get("_line") or 0), field, kind, callee, tuple(sorted(locks)), tuple(sorted(facts)), bool(in_assert))
        if r not in self.rows:
            self.rows.append(r)


# ----------------------------------------------------------------------------- driver

def _check_line(path_cache, file, line, needle):
    """own check of the line bookkeeping: the source line must show the member's name"""
    if needle.startswith("("):
        return True
    cands = path_cache.get(file)
    if cands is None:
        import glob as _g
        cands = _g.glob(os.path.join(REPO, "muduo", "**", file), recursive=True)
        path_cache[file] = cands
    for p in cands:
        try:
            with open(p) as f:
                ls = f.read().split("\n")
        except OSError:
            continue
        if 0 < line <= len(ls) and needle in ls[line - 1]:
            return True
    return False


def analyse_class(cls, tu, flt, roots):
    docs = _dump(tu, flt)
    for d in docs:
        annotate(d)
    ci = ClassInfo(cls, docs, roots)
    found = set()
    root_rows, confined, reached, ts_asserting = [], [], set(), []
    for fn in ci.defs:
        nm = fn["name"]
        if nm in roots and fn.get("kind") == "CXXMethodDecl":
            found.add(nm)
            w = Walker(ci, fn, ci.label(fn))
            rows = w.run()
            root_rows.append((ci.label(fn), roots[nm], rows))
            for r in rows:
                reached.add(r[1])
            reached.add(ci.label(fn))
            if roots[nm] == "confined":
                confined.append((ci.label(fn), w.top_assert[0] if w.top_assert else "", w.top_assert[1] if w.top_assert else 0))
            elif roots[nm] in ("ts", "owner") and w.top_assert:
                # a "thread-safe" operation that unconditionally reaches an owner-thread assertion fails off-thread
                ts_asserting.append((ci.label(fn), w.top_assert[0], w.top_assert[1]))
    missing = set(roots) - found
    if missing and not (cls in ("BlockingQueue",) and missing <= {"drain"}):
        raise ExtractError("class %s: root function(s) %s not found (renamed or removed?)" % (cls, sorted(missing)))
    # whole-class scan: who writes what (constructors/destructors excluded), and which methods are never reached
    unreached = []
    for fn in ci.defs:
        if fn.get("kind") != "CXXMethodDecl":
            continue
        w = Walker(ci, fn, ci.label(fn))
        w.stack.append(id(fn))
        for n in walk(fn):
            for c in kids(n):
                w.parent[id(c)] = n
        w.cur_fn = fn
        w.follow = False
        # standalone, without following calls: visit the body but cut `this` calls
        rows = _standalone(w, fn)
        touches = False
        for r in rows:
            if r[4].startswith("("):
                continue
            touches = True
            if r[5] in ("wr", "awr"):
                ci.byname[r[4]]["writers"].add(ci.label(fn))
        if touches and ci.label(fn) not in reached:
            unreached.append((ci.label(fn), rows))
    ci.ts_asserting = ts_asserting
    return ci, root_rows, confined, unreached


def _standalone(w, fn):
    """rows of one function body without following calls on this"""
    saved = w.ci.methods
    w.ci.methods = {}
    try:
        w.visit_compound(body_of(fn), frozenset(), frozenset(), False, top=True)
    finally:
        w.ci.methods = saved
    return [r for r in w.rows if not (r[5] == "call" and r[4] == "(this)")]


def analyse_logger():
    docs = _dump(LOGGER_TU, "muduo::")
    for d in docs:
        annotate(d)
    glob = {}
    for d in docs:
        if d.get("kind") == "VarDecl" and d.get("name", "").startswith("g_") and not d.get("tls"):
            t = qt(d)
            f = glob.get(d["name"])
            if f is None:
                f = {"name": d["name"], "type": t, "tc": "atomic" if ATOMIC_TYPES.search(t) else ("const" if is_const_type(t) else "plain"),
                     "guard": "", "writers": set()}
            glob[d["name"]] = f
    byid = {}
    for d in docs:
        if d.get("kind") == "VarDecl" and d.get("name") in glob:
            byid[d["id"]] = glob[d["name"]]
            if d.get("previousDecl"):
                byid[d["previousDecl"]] = glob[d["name"]]
    if not {"g_logLevel", "g_output", "g_flush"} <= set(glob):
        raise ExtractError("Logging.cc: the globals g_logLevel/g_output/g_flush were not found")
    kinds = ("CXXMethodDecl", "CXXConstructorDecl", "CXXDestructorDecl", "FunctionDecl")
    root_rows, seen, unreached = [], set(), []
    for d in docs:
        for fn in ([d] if d.get("kind") in kinds else [k for k in kids(d) if k.get("kind") in kinds] if d.get("kind") == "CXXRecordDecl" else []):
            if body_of(fn) is None or fn["id"] in seen:
                continue
            seen.add(fn["id"])
            w = Walker(None, fn, fn["name"], glob=byid)
            rows = w.run()
            if not rows:
                continue
            # label by the enclosing record where there is one
            for r in rows:
                if r[5] in ("wr", "awr"):
                    glob[r[4]]["writers"].add(fn["name"])
            if fn["name"] in LOGGER_ROOTS:
                root_rows.append((fn["name"], LOGGER_ROOTS[fn["name"]], rows))
            else:
                unreached.append((fn["name"], rows))
    return glob, root_rows, unreached


def lean_str(s):
    return json.dumps(s, ensure_ascii=True)


def lean_list(xs):
    return "[" + ", ".join(xs) + "]"


def collect():
    """run every translation unit (in parallel) and return the raw tables"""
    with ThreadPoolExecutor(max_workers=8) as ex:
        futs = [ex.submit(analyse_class, *c) for c in CLASSES]
        flog = ex.submit(analyse_logger)
        res = [f.result() for f in futs]
        glob, lrows, lunreached = flog.result()
    return res, (glob, lrows, lunreached)


def tables():
    """the raw tables as plain data (what `generate` renders as Lean text and what the C08 plug-in re-checks
    in Python): {"fields": [...], "roots": [...], "confinedOps": [...], "rows": [...]}, all dicts"""
    res, (glob, lrows, lunreached) = collect()
    fields, rows, roots, confined, ts_asserting = [], [], [], [], []
    for ci, root_rows, conf, unreached in res:
        for f in ci.fields.values():
            fields.append((ci.cls, f))
        for label, kind, rs in root_rows:
            roots.append((ci.cls, label, kind))
            for r in rs:
                rows.append((ci.cls, r[0], kind) + r[1:])
        for label, who, line in conf:
            confined.append((ci.cls, label, who, line))
        for label, who, line in ci.ts_asserting:
            ts_asserting.append((ci.cls, label, who, line))
        for label, rs in unreached:
            for r in rs:
                rows.append((ci.cls, "?" + r[0], "other") + r[1:])
            roots.append((ci.cls, "?" + label, "other"))
    for f in glob.values():
        fields.append((GLOBAL_CLS, f))
    for label, kind, rs in lrows:
        roots.append((GLOBAL_CLS, label, kind))
        for r in rs:
            rows.append((GLOBAL_CLS, r[0], kind) + r[1:])
    for label, rs in lunreached:
        roots.append((GLOBAL_CLS, "?" + label, "other"))
        for r in rs:
            rows.append((GLOBAL_CLS, "?" + r[0], "other") + r[1:])
    # own check of the line bookkeeping
    cache = {}
    for r in rows:
        if not _check_line(cache, r[4], r[5], r[6]):
            raise ExtractError("line bookkeeping: %s:%d does not mention `%s` (function %s)" % (r[4], r[5], r[6], r[3]))
    rows.sort(key=lambda r: (r[0], r[1], r[4], r[5], r[3], r[6], r[7], r[8], r[9], r[10]))
    return {
        "fields": [{"cls": c, "name": f["name"], "ty": f["type"], "tc": ("konst" if f["tc"] == "const" else f["tc"]),
                    "guardedBy": f["guard"], "writers": sorted(f["writers"])} for c, f in fields],
        "roots": [{"cls": c, "fn": l, "qname": c + "::" + l.lstrip("?").split("(")[0], "kind": k} for c, l, k in roots],
        "confinedOps": [{"cls": c, "fn": l, "check": w, "line": ln} for c, l, w, ln in confined],
        "tsAsserting": [{"cls": c, "fn": l, "check": w, "line": ln} for c, l, w, ln in ts_asserting],
        "rows": [{"cls": r[0], "root": r[1], "rootKind": r[2], "fn": r[3], "file": r[4], "line": r[5], "field": r[6],
                  "kind": r[7], "callee": r[8], "locks": list(r[9]), "inLoop": list(r[10]), "inAssert": bool(r[11])}
                 for r in rows],
    }


TABLE_JSON = os.path.join(BUILD, "race_table.json")


def generate():
    t = tables()
    os.makedirs(BUILD, exist_ok=True)
    with open(TABLE_JSON + ".tmp", "w") as f:
        json.dump(t, f, indent=0, sort_keys=True)
    os.replace(TABLE_JSON + ".tmp", TABLE_JSON)
    out = [HEADER % "the classes of the C08 cross-thread / loop-confined lists, see vlib/gen/race.py",
           "import MuduoVerif.Model.RaceBase\n", "namespace MuduoVerif.Gen.Race", "open MuduoVerif.Race\n"]
    fields = [(f["cls"], {"name": f["name"], "type": f["ty"], "tc": f["tc"], "guard": f["guardedBy"], "writers": f["writers"]})
              for f in t["fields"]]
    roots = [(r["cls"], r["fn"], r["kind"]) for r in t["roots"]]
    confined = [(o["cls"], o["fn"], o["check"], o["line"]) for o in t["confinedOps"]]
    rows = [(r["cls"], r["root"], r["rootKind"], r["fn"], r["file"], r["line"], r["field"], r["kind"], r["callee"],
             tuple(r["locks"]), tuple(r["inLoop"]), r["inAssert"]) for r in t["rows"]]
    out.append("/-- members of the analysed classes: declared type, type class, `GUARDED_BY` annotation, and every\n"
               "method other than constructors/destructors that writes the member -/")
    out.append("def fields : List Field := [")
    out.append(",\n".join("  { cls := %s, name := %s, ty := %s, tc := .%s, guardedBy := %s, writers := %s }" % (
        lean_str(c), lean_str(f["name"]), lean_str(f["type"]), f["tc"], lean_str(f["guard"]),
        lean_list(lean_str(x) for x in sorted(f["writers"]))) for c, f in fields))
    out.append("]\n")
    out.append("/-- the analysed root functions; `other` = a method that touches members but is not reached from any\n"
               "listed root (analysed on its own, without context) -/")
    out.append("def roots : List Root := [")
    out.append(",\n".join("  { cls := %s, fn := %s, qname := %s, kind := .%s }" % (
        lean_str(c), lean_str(l), lean_str(c + "::" + l.lstrip("?").split("(")[0]), k) for c, l, k in roots))
    out.append("]\n")
    out.append("/-- loop-confined operations: the owner-thread assertion found as an unconditional top-level statement\n"
               "(`check` = \"\" when there is none) -/")
    out.append("def confinedOps : List ConfinedOp := [")
    out.append(",\n".join("  { cls := %s, fn := %s, check := %s, line := %d }" % (lean_str(c), lean_str(l), lean_str(w), ln)
                          for c, l, w, ln in confined))
    out.append("]\n")
    out.append("/-- thread-safe / single-owner roots in which an owner-thread assertion is an unconditional top-level statement\n"
               "(directly or through a method of the class called unconditionally): such an operation aborts off-thread -/")
    out.append("def tsAsserting : List ConfinedOp := [")
    out.append(",\n".join("  { cls := %s, fn := %s, check := %s, line := %d }" % (lean_str(o["cls"]), lean_str(o["fn"]), lean_str(o["check"]), o["line"])
                          for o in t["tsAsserting"]))
    out.append("]\n")
    out.append("/-- one row per member access reached from a root -/")
    # chunk the table so that no single definition becomes huge
    CH = 120
    names = []
    for i in range(0, len(rows), CH):
        nm = "rows%d" % (i // CH)
        names.append(nm)
        out.append("def %s : List Row := [" % nm)
        out.append(",\n".join(
            "  { cls := %s, root := %s, rootKind := .%s, fn := %s, file := %s, line := %d, field := %s, kind := .%s, callee := %s, locks := %s, inLoop := %s, inAssert := %s }" % (
                lean_str(r[0]), lean_str(r[1]), r[2], lean_str(r[3]), lean_str(r[4]), r[5], lean_str(r[6]), r[7], lean_str(r[8]),
                lean_list(lean_str(x) for x in r[9]), lean_list(lean_str(x) for x in r[10]), "true" if r[11] else "false")
            for r in rows[i:i + CH]))
        out.append("]\n")
    out.append("def rowChunks : List (List Row) := %s\n" % lean_list(names))
    out.append("def rows : List Row := rowChunks.flatten\n")
    out.append("end MuduoVerif.Gen.Race\n")
    return "\n".join(out)


def summary():
    """numbers for the evidence file"""
    res, (glob, lrows, lunreached) = collect()
    nrows = sum(len(rs) for _, rr, _, _ in res for _, _, rs in rr) + sum(len(rs) for _, _, rs in lrows)
    return {"classes": len(res) + 1, "roots": sum(len(rr) for _, rr, _, _ in res) + len(lrows), "rows": nrows}
