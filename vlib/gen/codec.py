"""T1 for the length-prefixed protobuf framing (muduo/net/protobuf/ProtobufCodecLite.{h,cc}) and the
example codec with a type-name field (examples/protobuf/codec/codec.{h,cc}).

Generated: the size constants, `kMinMessageLen` as a function of the tag length (constructor
initialiser), the three guards of `onMessage` (enough bytes for a header and a minimal frame, length
range, enough bytes for the frame), the error code reported by the range test, the byte count handed to
`retrieve`, where `parse` starts, the ranges `validateChecksum` reads, where `parse` finds the payload,
the decision tree of `parse` (checksum, tag, payload - in the order the code tests them), the `ErrorCode`
enum and the `errorCodeToString` table.  Loops are not translated (DESIGN.md section 8).
"""
from ..extract import (HEADER, ExtractError, Tr, ast_dump, body_of, ctype, find_ifs, if_cond, kids, mentions,
                       prop_def, strip, unparen, walk)

NAME = "Codec"

SIZEOF = {"int32_t": 4, "uint32_t": 4, "int": 4, "int64_t": 8, "int16_t": 2, "char": 1}

# Registry for vlib/gen/codecskel.py (statement skeletons): which condition node of which translation unit became
# which generated guard / input of a generated decision tree.  Key: "<tu>:<clang node id>"; filled by generate()
# as it locates the sites (same cached AST dump, so the ids are the ones codecskel.py sees).  Output of this module
# does not depend on it.
SITES = {}


def _site(tu, node, name):
    if tu is not None and node is not None and node.get("id"):
        SITES["%s:%s" % (tu, node["id"])] = name


# ----------------------------------------------------------------------------- helpers

def top_method(docs, name):
    """the out-of-line definition `Class::name` (the class template's inline forwarder is skipped)"""
    fs = [d for d in docs if d.get("kind") == "CXXMethodDecl" and d.get("name") == name and body_of(d) is not None]
    if len(fs) != 1:
        raise ExtractError("expected exactly one out-of-line definition of %s, found %d" % (name, len(fs)))
    return fs[0]


def record(docs, name):
    for d in docs:
        if d.get("kind") == "CXXRecordDecl" and d.get("name") == name and kids(d):
            return d
    raise ExtractError("class %s not found" % name)


def int_const(rec, name):
    """static const int member with an initialiser: literal arithmetic, sizeof(type), earlier constants"""
    env = {}
    for c in kids(rec):
        if c.get("kind") == "VarDecl" and kids(c):
            try:
                env[c["name"]] = _eval(kids(c)[-1], env)
            except ExtractError:
                pass
    if name not in env:
        raise ExtractError("constant %s not found with an integer initialiser" % name)
    return env[name]


def _eval(n, env):
    n = strip(n)
    k = n.get("kind")
    if k == "IntegerLiteral":
        return int(n["value"])
    if k == "UnaryExprOrTypeTraitExpr" and n.get("name") == "sizeof":
        t = (n.get("argType") or {}).get("qualType")
        if t is None and kids(n):
            t = ctype(strip(kids(n)[0]))
        if t in SIZEOF:
            return SIZEOF[t]
        raise ExtractError("sizeof(%s) is outside the translator's table" % t)
    if k == "DeclRefExpr" and n["referencedDecl"]["name"] in env:
        return env[n["referencedDecl"]["name"]]
    if k == "BinaryOperator" and n["opcode"] in ("+", "-", "*"):
        a, b = [_eval(x, env) for x in kids(n)]
        return {"+": a + b, "-": a - b, "*": a * b}[n["opcode"]]
    raise ExtractError("unsupported constant initialiser node %s" % k)


def enum_constants(rec, name):
    for c in kids(rec):
        if c.get("kind") == "EnumDecl" and c.get("name") == name:
            res, nxt = [], 0
            for e in kids(c):
                if e.get("kind") != "EnumConstantDecl":
                    continue
                val = nxt
                for x in walk(e):
                    if x.get("kind") == "ConstantExpr" and "value" in x:
                        val = int(x["value"])
                        break
                res.append((e["name"], val))
                nxt = val + 1
            if not res:
                break
            return res
    raise ExtractError("enum %s not found" % name)


def callee_name(call):
    """name of the function / method a call expression invokes"""
    ks = kids(call)
    if not ks:
        return None
    c = strip(ks[0])
    if c.get("kind") == "DeclRefExpr":
        return c["referencedDecl"].get("name")
    if c.get("kind") == "MemberExpr":
        return c.get("name")
    return None


def calls(n, name):
    return [x for x in walk(n) if x.get("kind") in ("CallExpr", "CXXMemberCallExpr", "CXXOperatorCallExpr")
            and callee_name(x) == name]


def call_args(call):
    return kids(call)[1:]


def enum_ref(n):
    n = strip(n)
    if n.get("kind") == "DeclRefExpr" and n["referencedDecl"].get("kind") == "EnumConstantDecl":
        return n["referencedDecl"]["name"]
    return None


def functor_call_member(call):
    """`member_(args...)` through std::function::operator(): name of the member"""
    ks = kids(call)
    if call.get("kind") == "CXXOperatorCallExpr" and len(ks) >= 2:
        op = strip(ks[0])
        if op.get("kind") == "DeclRefExpr" and op["referencedDecl"].get("name") == "operator()":
            m = strip(ks[1])
            if m.get("kind") == "MemberExpr":
                return m.get("name")
    return None


def while_stmt(fn):
    ws = [n for n in walk(body_of(fn)) if n.get("kind") == "WhileStmt"]
    if len(ws) != 1:
        raise ExtractError("%s: expected exactly one while loop, found %d" % (fn.get("name"), len(ws)))
    return ws[0]


def decision_tree(fn, var, conds, tu=None):
    """symbolic execution of a body made of `T var = e;`, `var = e;`, `*var = e;`, if/else, declarations
    without effect on `var`, and `return var;`: the value of `var` at the end as a Lean term.
    `conds`: list of (recogniser, lean_name)."""

    def cond_of(n):
        n = strip(n)
        for rec, nm in conds:
            if rec(n):
                return nm
        if n.get("kind") == "UnaryOperator" and n.get("opcode") == "!":
            return "(!%s)" % cond_of(kids(n)[0])
        if n.get("kind") == "BinaryOperator" and n.get("opcode") == "&&":
            a, b = kids(n)
            return "(%s && %s)" % (cond_of(a), cond_of(b))
        raise ExtractError("%s: a condition of the decision tree is not one of the known tests" % fn.get("name"))

    def assigned(n):
        """(is an assignment to var, value)"""
        n = strip(n)
        if n.get("kind") == "BinaryOperator" and n.get("opcode") == "=":
            lhs, rhs = kids(n)
            lhs = strip(lhs)
            if lhs.get("kind") == "UnaryOperator" and lhs.get("opcode") == "*":
                lhs = strip(kids(lhs)[0])
            if lhs.get("kind") == "DeclRefExpr" and lhs["referencedDecl"]["name"] == var:
                e = enum_ref(rhs)
                if e is None:
                    raise ExtractError("%s: `%s` is assigned something that is not an enum constant" % (fn.get("name"), var))
                return ".%s" % e
        return None

    def run(stmts, cur):
        for s in stmts:
            k = s.get("kind")
            if k == "CompoundStmt":
                cur = run(kids(s), cur)
            elif k == "DeclStmt":
                for v in kids(s):
                    if v.get("kind") == "VarDecl" and v.get("name") == var and kids(v):
                        e = enum_ref(kids(v)[-1])
                        if e is None:
                            raise ExtractError("%s: initialiser of `%s` is not an enum constant" % (fn.get("name"), var))
                        cur = ".%s" % e
            elif k == "IfStmt":
                ks = kids(s)
                c = cond_of(ks[0])
                _site(tu, ks[0], unparen(c))
                t = run([ks[1]], cur)
                e = run([ks[2]], cur) if len(ks) > 2 else cur
                cur = "(if %s then %s else %s)" % (c, t, e)
            elif k == "ReturnStmt":
                return cur
            else:
                a = assigned(s)
                if a is not None:
                    cur = a
                elif mentions(s, var):
                    raise ExtractError("%s: unsupported statement touching `%s` (%s)" % (fn.get("name"), var, k))
        return cur

    return run(kids(body_of(fn)), None)


def is_call_to(name):
    def rec(n):
        n = strip(n)
        return n.get("kind") in ("CallExpr", "CXXMemberCallExpr") and callee_name(n) == name
    return rec


def is_eq_zero_call(name):
    def rec(n):
        n = strip(n)
        if n.get("kind") == "BinaryOperator" and n.get("opcode") == "==":
            a, b = [strip(x) for x in kids(n)]
            if b.get("kind") == "IntegerLiteral" and int(b["value"]) == 0:
                return is_call_to(name)(a)
        return False
    return rec


def lean_str(s):
    return '"' + s.replace("\\", "\\\\").replace('"', '\\"') + '"'


def string_value(lit):
    v = lit["value"]
    if not (v.startswith('"') and v.endswith('"')):
        raise ExtractError("unexpected string literal form %r" % v)
    body = v[1:-1]
    if "\\" in body:
        raise ExtractError("escape sequences in string literal %r are outside the subset" % v)
    return body


def error_string_table(fn, tu, enum):
    """`switch (code) { case kX: return kXStr; ... default: return kYStr; }` with the strings defined at
    namespace scope in the same file"""
    sw = [n for n in walk(body_of(fn)) if n.get("kind") == "SwitchStmt"]
    if len(sw) != 1:
        raise ExtractError("%s: expected one switch" % fn.get("name"))
    cases, default = [], None
    for c in walk(sw[0]):
        if c.get("kind") == "CaseStmt":
            ks = kids(c)
            e = None
            for x in walk(ks[0]):
                e = enum_ref(x)
                if e:
                    break
            ret = [x for x in kids(c) if x.get("kind") == "ReturnStmt"]
            if e is None or len(ret) != 1:
                raise ExtractError("%s: case outside the subset" % fn.get("name"))
            cases.append((e, strip(kids(ret[0])[0])))
        elif c.get("kind") == "DefaultStmt":
            ret = [x for x in kids(c) if x.get("kind") == "ReturnStmt"]
            if len(ret) != 1:
                raise ExtractError("%s: default outside the subset" % fn.get("name"))
            default = strip(kids(ret[0])[0])
    names = set()
    for _, r in cases + [(None, default)] if default is not None else cases:
        if r.get("kind") != "DeclRefExpr":
            raise ExtractError("%s: returns something that is not a named string" % fn.get("name"))
        names.add(r["referencedDecl"]["name"])
    vals = {}
    docs = ast_dump(tu, "(anonymous namespace)::k")
    for d in docs:
        if d.get("kind") == "VarDecl" and d.get("name") in names:
            lits = [x for x in walk(d) if x.get("kind") == "StringLiteral"]
            if len(lits) == 1:
                vals[d["name"]] = string_value(lits[0])
    missing = names - set(vals)
    if missing:
        raise ExtractError("string constants %s not found in %s" % (sorted(missing), tu))
    table = {e: vals[r["referencedDecl"]["name"]] for e, r in cases}
    dflt = vals[default["referencedDecl"]["name"]] if default is not None else None
    for e, _ in enum:
        if e not in table and dflt is None:
            raise ExtractError("%s: no string for %s" % (fn.get("name"), e))
    return table, dflt


def emit_enum(out, enum, table, dflt, tname="ErrorCode"):
    out.append("inductive %s where" % tname)
    for e, _ in enum:
        out.append("  | %s" % e)
    out.append("deriving DecidableEq, Repr\n")
    out.append("/-- the enumerators' integer values -/")
    out.append("def %s.toNat : %s → Nat" % (tname, tname))
    for e, v in enum:
        out.append("  | .%s => %d" % (e, v))
    out.append("\n/-- `errorCodeToString` -/")
    out.append("def errorCodeToString : %s → String" % tname)
    for e, _ in enum:
        out.append("  | .%s => %s" % (e, lean_str(table.get(e, dflt))))
    out.append("")


INT_CONSTS_ = {"kHeaderLen": "(kHeaderLen : Int)", "kChecksumLen": "(kChecksumLen : Int)",
              "kMaxMessageLen": "(kMaxMessageLen : Int)", "kMinMessageLen": "(kMinMessageLen : Int)"}
NAT_CONSTS_ = {"kHeaderLen": "kHeaderLen", "kChecksumLen": "kChecksumLen", "kMaxMessageLen": "kMaxMessageLen",
              "kMinMessageLen": "kMinMessageLen"}


def on_message_guards(out, fn, readable_key, min_is_param, tu=None):
    """the three guards of the `while` loop of onMessage"""
    w = while_stmt(fn)
    _site(tu, kids(w)[0], "headerAvailable")
    minp = [("minLen", "Nat")] if min_is_param else []
    NAT_CONSTS = dict(NAT_CONSTS_, kMinMessageLen="minLen" if min_is_param else "kMinMessageLen")
    INT_CONSTS = dict(INT_CONSTS_, kMinMessageLen="(minLen : Int)" if min_is_param else "(kMinMessageLen : Int)")
    t = Tr({readable_key: "readable"}, NAT_CONSTS)
    out.append(prop_def("headerAvailable", [("readable", "Nat")] + minp, unparen(t.expr(kids(w)[0])),
                        "`onMessage`: the loop condition - a length field and a minimal frame are readable "
                        "(C types: size_t against int; value-preserving for non-negative sums below 2^31)"))
    ifs = [i for i in find_ifs(fn) if mentions(if_cond(i), "len") and mentions(if_cond(i), "kMaxMessageLen")]
    if len(ifs) != 1:
        raise ExtractError("onMessage: the length range test was not found")
    rng = ifs[0]
    _site(tu, if_cond(rng), "lenOutOfRange")
    t = Tr({"len": "len"}, INT_CONSTS, int_mode=True)
    out.append(prop_def("lenOutOfRange", [("len", "Int")] + minp, unparen(t.expr(if_cond(rng))),
                        "`onMessage`: the length range test (`len` is the signed 32-bit length field)"))
    # the error reported by the range test
    errs = [c for c in walk(kids(rng)[1]) if functor_call_member(c) == "errorCallback_"]
    if len(errs) != 1 or enum_ref(kids(errs[0])[-1]) is None:
        raise ExtractError("onMessage: the error callback of the range test was not found")
    out.append("/-- `onMessage`: what the range test reports -/\ndef lengthError : ErrorCode := .%s\n"
               % enum_ref(kids(errs[0])[-1]))
    if len(kids(rng)) < 3 or kids(rng)[2].get("kind") != "IfStmt":
        raise ExtractError("onMessage: no `else if` after the range test")
    avail = kids(rng)[2]
    if not mentions(if_cond(avail), "readableBytes"):
        raise ExtractError("onMessage: the `else if` does not test readableBytes()")
    _site(tu, if_cond(avail), "frameAvailable")
    t = Tr({readable_key: "(readable : Int)", "len": "len"}, INT_CONSTS, int_mode=True)
    out.append(prop_def("frameAvailable", [("readable", "Nat"), ("len", "Int")], unparen(t.expr(if_cond(avail))),
                        "`onMessage`: the whole frame is readable (int sum converted to size_t: value-preserving "
                        "after the range test)"))
    # retrieve(...) after the message callback, and where parse starts
    good = None
    for i in find_ifs(fn):
        if mentions(if_cond(i), "errorCode") and mentions(if_cond(i), "kNoError"):
            good = i
    if good is None:
        raise ExtractError("onMessage: the `errorCode == kNoError` test was not found")
    rets = calls(kids(good)[1], "retrieve")
    msgs = [c for c in walk(kids(good)[1]) if functor_call_member(c) == "messageCallback_"]
    if len(rets) != 1 or len(msgs) != 1:
        raise ExtractError("onMessage: success branch is not `messageCallback_(...); retrieve(...)`")
    t = Tr({"len": "len"}, INT_CONSTS, int_mode=True)
    out.append("/-- `onMessage`: the argument of `retrieve` after a delivered message -/\n"
               "def consumedBytes (len : Int) : Int := %s\n" % unparen(t.expr(call_args(rets[0])[0])))
    bad = kids(good)[2] if len(kids(good)) > 2 else None
    if bad is None or calls(bad, "retrieve") or not [c for c in walk(bad) if functor_call_member(c) == "errorCallback_"] \
            or not [x for x in walk(bad) if x.get("kind") == "BreakStmt"]:
        raise ExtractError("onMessage: the error branch is not `errorCallback_(...); break` without retrieve")
    ps = calls(kids(avail)[1], "parse")
    if len(ps) != 1:
        raise ExtractError("onMessage: call of parse not found")
    peek_key = readable_key.replace("readableBytes()", "peek()")
    t = Tr({peek_key: "0", "len": "len"}, INT_CONSTS, int_mode=True)
    a = call_args(ps[0])
    out.append("/-- `onMessage`: `parse` is handed the bytes from this offset ... -/\n"
               "def frameOffset : Int := %s\n" % unparen(t.expr(a[0])))
    out.append("/-- ... and this many of them -/\ndef frameLen (len : Int) : Int := %s\n" % unparen(t.expr(a[1])))
    if min_is_param:
        out.append(alloc_per_frame(fn, w, kids(avail)[1], ps[0]))


def alloc_per_frame(fn, w, block, parse_call):
    """ProtobufCodecLite::onMessage: where the message object handed to `parse` (and then, as a shared_ptr, to the
    message callback) is allocated.  True iff the one `prototype_->New()` of the function sits in a statement of the very
    block (the then-branch of the frame test, inside the `while`) that holds the statement calling `parse`, in front of
    it, and not nested in a further `if` / loop: then every parsed frame gets an object of its own.  Anything else (the
    allocation in front of the loop, or under `if (!message)`) is `false`: one object serves several frames."""
    news = [c for c in walk(body_of(fn)) if c.get("kind") == "CXXMemberCallExpr" and callee_name(c) == "New"
            and mentions(c, "prototype_")]
    if len(news) != 1:
        raise ExtractError("onMessage: expected exactly one `prototype_->New()`, found %d" % len(news))
    if block.get("kind") != "CompoundStmt" or block not in list(walk(w)):
        raise ExtractError("onMessage: the then-branch of the frame test is not a block inside the while loop")
    stmts = kids(block)
    i_new = [i for i, st in enumerate(stmts) if news[0] in list(walk(st))]
    i_parse = [i for i, st in enumerate(stmts) if parse_call in list(walk(st))]
    if len(i_parse) != 1:
        raise ExtractError("onMessage: the statement that calls parse was not found")
    nested = {"IfStmt", "WhileStmt", "ForStmt", "DoStmt", "SwitchStmt", "CXXForRangeStmt", "ConditionalOperator", "LambdaExpr"}
    per_frame = (len(i_new) == 1 and i_new[0] < i_parse[0]
                 and not any(x.get("kind") in nested for x in walk(stmts[i_new[0]])))
    return ("/-- `onMessage`: the message object that `parse` fills and the message callback receives (as a `shared_ptr`)\n"
            "is allocated (`prototype_->New()`) by an unconditional statement of the loop body, in front of `parse`: every\n"
            "parsed frame gets an object of its own.  `false`: one object serves several frames of one call. -/\n"
            "def allocPerFrame : Bool := %s\n" % ("true" if per_frame else "false"))


def generate():
    SITES.clear()
    tu = "muduo/net/protobuf/ProtobufCodecLite.cc"
    docs = ast_dump(tu, "muduo::net::ProtobufCodecLite")
    rec = record(docs, "ProtobufCodecLite")
    out = [HEADER % "muduo/net/protobuf/ProtobufCodecLite.h, ProtobufCodecLite.cc, examples/protobuf/codec/codec.h, codec.cc",
           "namespace MuduoVerif.Gen.Codec\n"]
    for c in ("kHeaderLen", "kChecksumLen", "kMaxMessageLen"):
        out.append("def %s : Nat := %d" % (c, int_const(rec, c)))
    # kMinMessageLen: constructor initialiser
    init = None
    for c in kids(rec):
        if c.get("kind") == "CXXConstructorDecl":
            for x in kids(c):
                if x.get("kind") == "CXXCtorInitializer" and (x.get("anyInit") or {}).get("name") == "kMinMessageLen":
                    init = kids(x)[0]
    if init is None:
        raise ExtractError("constructor initialiser of kMinMessageLen not found")
    t = Tr({"tagArg.size()": "tagSize"}, NAT_CONSTS_)
    out.append("/-- constructor: `kMinMessageLen(tagArg.size() + kChecksumLen)` -/\n"
               "def kMinMessageLen (tagSize : Nat) : Nat := %s\n" % unparen(t.expr(init)))

    enum = enum_constants(rec, "ErrorCode")
    table, dflt = error_string_table(top_method(docs, "errorCodeToString"), tu, enum)
    emit_enum(out, enum, table, dflt)

    on_message_guards(out, top_method(docs, "onMessage"), "buf.readableBytes()", True, tu=tu)

    # validateChecksum: which bytes are summed, where the stored value is
    vc = top_method(docs, "validateChecksum")
    exp = [v for v in walk(body_of(vc)) if v.get("kind") == "VarDecl" and calls(v, "asInt32")]
    cs = [v for v in walk(body_of(vc)) if v.get("kind") == "VarDecl" and calls(v, "checksum")]
    ret = [r for r in walk(body_of(vc)) if r.get("kind") == "ReturnStmt"]
    if len(exp) != 1 or len(cs) != 1 or len(ret) != 1:
        raise ExtractError("validateChecksum: unexpected shape")
    r = strip(kids(ret[0])[0])
    if not (r.get("kind") == "BinaryOperator" and r.get("opcode") == "==" and mentions(r, exp[0]["name"]) and mentions(r, cs[0]["name"])):
        raise ExtractError("validateChecksum: does not return `computed == stored`")
    t = Tr({"buf": "0", "len": "len"}, INT_CONSTS_, int_mode=True)
    out.append("/-- `validateChecksum`: offset of the stored checksum in the frame body -/\n"
               "def checksumAt (len : Int) : Int := %s\n" % unparen(t.expr(call_args(calls(exp[0], "asInt32")[0])[0])))
    a = call_args(calls(cs[0], "checksum")[0])
    out.append("/-- `validateChecksum`: the summed range starts here ... -/\n"
               "def checksumFrom : Int := %s\n" % unparen(t.expr(_unreinterpret(a[0]))))
    out.append("/-- ... and has this many bytes -/\ndef checksumLen (len : Int) : Int := %s\n" % unparen(t.expr(a[1])))
    ad = calls(top_method(docs, "checksum"), "adler32")
    if len(ad) != 1 or strip(call_args(ad[0])[0]).get("kind") != "IntegerLiteral":
        raise ExtractError("checksum: not a single adler32(<literal>, ...) call")
    out.append("/-- `checksum`: initial value handed to zlib's adler32 -/\ndef adlerInit : Nat := %d\n"
               % int(strip(call_args(ad[0])[0])["value"]))

    # parse: tag comparison, payload position, decision tree
    pf = top_method(docs, "parse")
    mc = calls(pf, "memcmp")
    if len(mc) != 1:
        raise ExtractError("parse: memcmp not found")
    t = Tr({"buf": "0", "len": "len", "tag_.size()": "tagSize", "tag_.data()": "tagData"}, INT_CONSTS_, int_mode=True)
    a = call_args(mc[0])
    if t.expr(_unreinterpret(a[1])) != "tagData":
        raise ExtractError("parse: memcmp does not compare with tag_.data()")
    out.append("/-- `parse`: `memcmp` compares the tag with the frame body from this offset ... -/\n"
               "def tagAt : Int := %s\n" % unparen(t.expr(_unreinterpret(a[0]))))
    out.append("/-- ... over this many bytes -/\ndef tagCmpLen (tagSize : Int) : Int := %s\n" % unparen(t.expr(a[2])))
    data = [v for v in walk(body_of(pf)) if v.get("kind") == "VarDecl" and v.get("name") == "data"]
    dlen = [v for v in walk(body_of(pf)) if v.get("kind") == "VarDecl" and v.get("name") == "dataLen"]
    pb = calls(pf, "parseFromBuffer")
    if len(data) != 1 or len(dlen) != 1 or len(pb) != 1 or not (mentions(pb[0], "data") and mentions(pb[0], "dataLen")):
        raise ExtractError("parse: payload position not found")
    out.append("/-- `parse`: offset of the payload in the frame body -/\n"
               "def payloadAt (tagSize : Int) : Int := %s\n" % unparen(t.expr(kids(data[0])[-1])))
    out.append("/-- `parse`: length of the payload -/\n"
               "def payloadLen (len : Int) (tagSize : Int) : Int := %s\n" % unparen(t.expr(kids(dlen[0])[-1])))
    tree = decision_tree(pf, "error", [(is_call_to("validateChecksum"), "checksumOk"),
                                       (is_eq_zero_call("memcmp"), "tagOk"),
                                       (is_call_to("parseFromBuffer"), "payloadOk")], tu=tu)
    out.append("/-- `parse`: the order of the tests and what each failure reports -/\n"
               "def parseDecision (checksumOk tagOk payloadOk : Bool) : ErrorCode :=\n  %s\n" % unparen(tree))
    # RpcCodec's tag (the generated rpc.pb.h is not needed for this declaration)
    lits = [string_value(x) for d in ast_dump("muduo/net/protorpc/RpcCodec.cc", "muduo::net::rpctag")
            if d.get("kind") == "VarDecl" and d.get("name") == "rpctag" for x in walk(d) if x.get("kind") == "StringLiteral"]
    if len(lits) != 1:
        raise ExtractError("RpcCodec.cc: definition of rpctag not found")
    out.append("/-- RpcCodec.cc: `rpctag` -/\ndef rpcTag : List UInt8 := [%s]  /- %s -/\n"
               % (", ".join(str(b) for b in lits[0].encode()), lits[0].replace("-/", "")))
    out.append("end MuduoVerif.Gen.Codec\n")

    out.append(generate_example())
    return "\n".join(out)


# ----------------------------------------------------------------------------- the example codec

def generate_example():
    tu = "examples/protobuf/codec/codec.cc"
    docs = ast_dump(tu, "ProtobufCodec")
    rec = record(docs, "ProtobufCodec")
    out = ["namespace MuduoVerif.Gen.ExCodec\n"]
    for c in ("kHeaderLen", "kMinMessageLen", "kMaxMessageLen"):
        out.append("def %s : Nat := %d" % (c, int_const(rec, c)))
    out.append("")
    enum = enum_constants(rec, "ErrorCode")
    table, dflt = error_string_table(top_method(docs, "errorCodeToString"), tu, enum)
    emit_enum(out, enum, table, dflt)
    on_message_guards(out, top_method(docs, "onMessage"), "buf.readableBytes()", False, tu=tu)

    pf = top_method(docs, "parse")
    consts = {"kHeaderLen": "(kHeaderLen : Int)"}
    t = Tr({"buf": "0", "len": "len", "nameLen": "nameLen"}, consts, int_mode=True)
    exp = [v for v in walk(body_of(pf)) if v.get("kind") == "VarDecl" and v.get("name") == "expectedCheckSum"]
    cs = [v for v in walk(body_of(pf)) if v.get("kind") == "VarDecl" and v.get("name") == "checkSum"]
    if len(exp) != 1 or len(cs) != 1 or len(calls(exp[0], "asInt32")) != 1 or len(calls(cs[0], "adler32")) != 1:
        raise ExtractError("example parse: checksum computation not found")
    out.append("/-- `parse`: offset of the stored checksum in the frame body -/\n"
               "def checksumAt (len : Int) : Int := %s\n" % unparen(t.expr(call_args(calls(exp[0], "asInt32")[0])[0])))
    a = call_args(calls(cs[0], "adler32")[0])
    if strip(a[0]).get("kind") != "IntegerLiteral":
        raise ExtractError("example parse: adler32 initial value is not a literal")
    out.append("def adlerInit : Nat := %d" % int(strip(a[0])["value"]))
    out.append("/-- the summed range starts here ... -/\ndef checksumFrom : Int := %s" % unparen(t.expr(_unreinterpret(a[1]))))
    out.append("/-- ... and has this many bytes -/\ndef checksumLen (len : Int) : Int := %s\n" % unparen(t.expr(a[2])))
    nl = [v for v in walk(body_of(pf)) if v.get("kind") == "VarDecl" and v.get("name") == "nameLen"]
    if len(nl) != 1 or len(calls(nl[0], "asInt32")) != 1:
        raise ExtractError("example parse: nameLen not found")
    out.append("/-- `parse`: offset of the name length field -/\ndef nameLenAt : Int := %s\n"
               % unparen(t.expr(call_args(calls(nl[0], "asInt32")[0])[0])))
    ifs = [i for i in find_ifs(pf) if mentions(if_cond(i), "nameLen")]
    if len(ifs) != 1:
        raise ExtractError("example parse: the nameLen range test was not found")
    out.append(prop_def("nameLenOk", [("nameLen", "Int"), ("len", "Int")], unparen(t.expr(if_cond(ifs[0]))),
                        "`parse`: the range test on the name length"))
    tn = [v for v in walk(body_of(pf)) if v.get("kind") == "VarDecl" and v.get("name") == "typeName"]
    if len(tn) != 1:
        raise ExtractError("example parse: typeName not found")
    ctor = [x for x in walk(tn[0]) if x.get("kind") == "CXXConstructExpr"]
    args = [k for k in kids(ctor[0]) if k.get("kind") != "CXXDefaultArgExpr"] if ctor else []
    if len(args) != 2:
        raise ExtractError("example parse: typeName is not built from an iterator pair")
    out.append("/-- `parse`: the type name is the bytes [typeNameFrom, typeNameTo) of the frame body -/\n"
               "def typeNameFrom : Int := %s\ndef typeNameTo (nameLen : Int) : Int := %s\n"
               % (unparen(t.expr(args[0])), unparen(t.expr(args[1]))))
    data = [v for v in walk(body_of(pf)) if v.get("kind") == "VarDecl" and v.get("name") == "data"]
    dlen = [v for v in walk(body_of(pf)) if v.get("kind") == "VarDecl" and v.get("name") == "dataLen"]
    pa = calls(pf, "ParseFromArray")
    if len(data) != 1 or len(dlen) != 1 or len(pa) != 1 or not (mentions(pa[0], "data") and mentions(pa[0], "dataLen")):
        raise ExtractError("example parse: payload position not found")
    out.append("def payloadAt (nameLen : Int) : Int := %s" % unparen(t.expr(kids(data[0])[-1])))
    out.append("def payloadLen (len : Int) (nameLen : Int) : Int := %s\n" % unparen(t.expr(kids(dlen[0])[-1])))

    def is_sum_eq(n):
        n = strip(n)
        return (n.get("kind") == "BinaryOperator" and n.get("opcode") == "==" and mentions(n, "checkSum")
                and mentions(n, "expectedCheckSum"))

    def is_namelen(n):
        return strip(n) is strip(if_cond(ifs[0]))

    def is_message(n):
        n = strip(n)
        # `if (message)`: shared_ptr -> bool
        return mentions(n, "message") and not mentions(n, "ParseFromArray") and n.get("kind") in (
            "CXXMemberCallExpr", "ImplicitCastExpr", "DeclRefExpr")

    def is_parse(n):
        n = strip(n)
        return n.get("kind") == "CXXMemberCallExpr" and callee_name(n) == "ParseFromArray"

    tree = decision_tree(pf, "error", [(is_sum_eq, "checksumOk"), (is_namelen, "nameLenOk"), (is_parse, "payloadOk"),
                                       (is_message, "typeKnown")], tu=tu)
    if tree is None:
        raise ExtractError("example parse: no assignment to *error found")
    out.append("/-- `parse`: the order of the tests and what each failure reports (`*error` is `kNoError` on entry) -/\n"
               "def parseDecision (checksumOk nameLenOk typeKnown payloadOk : Bool) : ErrorCode :=\n  %s\n" % unparen(tree))
    out.append("end MuduoVerif.Gen.ExCodec\n")
    return "\n".join(out)


def _unreinterpret(n):
    """pointer casts that do not move the pointer"""
    while True:
        n = strip(n)
        if n.get("kind") == "CXXReinterpretCastExpr" or (
                n.get("kind") in ("ImplicitCastExpr", "CStyleCastExpr", "CXXStaticCastExpr") and n.get("castKind") == "BitCast"):
            n = kids(n)[0]
        else:
            return n
